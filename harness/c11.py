"""C11 — invariances of the fit: filter/model permutations, brightness scaling, fit history, non-mutation of the source."""
import copy
import math
from fractions import Fraction

from common import Rng, F, close
import fitcase
import c01

PROP = 'C11'
MODEL_OPS = 'FitModel.fit2_pkg / fit3_pkg (referee for tolerance and tie margins)'
RULE = ('paired runs through real Fitters: (a) filters passed in a permuted order with the photometry permuted alike, (b) the package written with its model rows permuted, '
        '(c) 2-D only: every flux and error multiplied by a constant over 8 decades (limit confidences untouched, flag-4 values shifted by log10 c), '
        '(d) up to 6 interleaved fits of up to 3 sources on one Fitter compared with fresh-Fitter results, plus a deep before/after comparison of the Source passed in; (e) 3-D: the same history on a Fitter made with remove_resolved=True against fresh such Fitters. '
        'non-trivial = >= 2 bands permuted non-identically or >= 2 models; distinct = distinct inputs.')
EXHAUSTIVE = {'quick': False, 'thorough': False}
ASSUMPTIONS = ['"unchanged" is judged within float rounding: relative 1e-9 x condition number on A_V/scale, 1e-7 on chi2',
               '3-D: when the two smallest grid chi2 of a model are within 1e-6 the chosen distance may legitimately flip; then only chi2 is compared',
               'remove_resolved itself is not modelled (it acts on the already distance-interpolated fluxes); only the history independence of Fitters made with it is judged', 'history independence / non-mutation cannot be exhibited by the Gallina model (pure by construction); they are decided by these runs alone']


def _scale_src(src, c):
    s = copy.deepcopy(src)
    for j, f in enumerate(src['flags']):
        if f in (1, 9):
            s['flux'][j] = src['flux'][j] * c
            s['err'][j] = src['err'][j] * c
        elif f in (2, 3):
            s['flux'][j] = src['flux'][j] * c
        elif f == 4:
            s['flux'][j] = src['flux'][j] + math.log10(c)
    return s


def generate(tier, seed):
    rng = Rng(seed * 15485863 + 11)
    cases = []
    n = 200 if tier == 'quick' else 3000
    for k in range(n):
        mode = '2d' if k % 3 else '3d'
        c = fitcase.gen_case(rng, mode, nm=rng.randint(1, 8))
        nb = len(c['wav'])
        bp = list(range(nb))
        rng.shuffle(bp)
        mp = list(range(len(c['names'])))
        rng.shuffle(mp)
        c['band_perm'], c['model_perm'] = bp, mp
        c['const'] = 2.0 ** rng.randint(-13, 13) if rng.random() < 0.5 else rng.logdyadic(1e-4, 1e4, 10)
        # history: extra sources on the same bands and an interleaving
        minfit = 2 if mode == '2d' else 1
        extra = []
        for _ in range(2):      # other sources use other bands: some flagged 0 / 9 / limits
            while True:
                fl = [rng.choice([1, 1, 4, 0, 9, 2, 3]) for _ in range(nb)]
                if sum(1 for f in fl if f in (1, 4)) >= minfit:
                    break
            extra.append(fitcase.gen_source(rng, nb, flags=fl))
        if mode == '3d' and nb >= 2:
            # twins: the same flags and photometry, but the limits of one carry confidence 0 (then they constrain nothing) and those of the other do not
            a = extra[0]
            lim = [j for j, f in enumerate(a['flags']) if f in (2, 3)]
            if not lim:
                cand = [j for j, f in enumerate(a['flags']) if f not in (1, 4)] or [j for j in range(nb)][-1:]
                fitted = sum(1 for f in a['flags'] if f in (1, 4))
                j = cand[0]
                if a['flags'][j] not in (1, 4) or fitted > minfit:
                    a['flags'][j] = rng.choice([2, 3])
                    a['flux'][j] = abs(a['flux'][j]) if a['flux'][j] and a['flux'][j] > 0 and math.isfinite(a['flux'][j]) else 1.0
                    lim = [j]
            if lim:
                b = dict(a, flags=list(a['flags']), flux=list(a['flux']), err=list(a['err']), name='twin')
                for j in lim:
                    a['err'][j] = rng.choice([0.5, 0.9, 0.25])
                    b['err'][j] = 0.0
                extra[1] = b
        c['others'] = extra
        hist = [rng.choice([1, 2])] + [rng.randrange(3) for _ in range(rng.randint(1, 5))]      # start with another source, come back to the base source
        if 0 not in hist:
            hist.append(0)
        if mode == '3d' and k % 2 == 0:
            hist = rng.choice([[1, 2], [2, 1]]) + hist      # the twins one after the other, in either order
        c['history'] = hist if k % 4 == 0 or tier == 'thorough' else hist[:4]
        cases.append(c)
    return cases


def _perm_src(src, p):
    return dict(name=src['name'], flags=[src['flags'][j] for j in p], flux=[src['flux'][j] for j in p], err=[src['err'][j] for j in p])


def _state(s):
    import numpy as np
    return [s.name, float(s.x), float(s.y), [int(v) for v in s.valid], [float.hex(float(v)) for v in s.flux], [float.hex(float(v)) for v in s.error],
            type(s.valid).__name__, type(s.flux).__name__]


def impl(case):
    import tempfile
    out = {}
    with tempfile.TemporaryDirectory() as d:
        fitcase.write_pkg(d, case)
        fitter = fitcase.make_fitter(d, case)
        src = fitcase.make_source(case['src'])
        before = _state(src)
        out['base'] = fitcase.info_out(fitter.fit(src), fitter)
        out['mutated'] = _state(src) != before
        # (a) filters permuted
        p = case['band_perm']
        f2 = fitcase.make_fitter(d, case, bands=p)
        out['bandperm'] = fitcase.info_out(f2.fit(fitcase.make_source(_perm_src(case['src'], p))))
        # (c) brightness scaling
        if case['mode'] == '2d':
            out['scaled'] = fitcase.info_out(fitter.fit(fitcase.make_source(_scale_src(case['src'], case['const']))))
        # (d) history
        srcs = [case['src']] + case['others']
        fresh = []
        for s in srcs:
            ff = fitcase.make_fitter(d, case)
            fresh.append(fitcase.info_out(ff.fit(fitcase.make_source(s))))
        hist = []
        objs = [fitcase.make_source(s) for s in srcs]
        states = [_state(o) for o in objs]
        for i in case['history']:
            hist.append(fitcase.info_out(fitter.fit(objs[i])))
        out['fresh'], out['hist'] = fresh, hist
        out['hist_mutated'] = [_state(o) != st for o, st in zip(objs, states)]
        # (e) the same history on a Fitter made with remove_resolved=True (the option is not modelled; only history independence is judged)
        if case['mode'] == '3d':
            fr = fitcase.make_fitter(d, case, remove_resolved=True)
            out['rr_hist'] = [fitcase.info_out(fr.fit(fitcase.make_source(srcs[i]))) for i in case['history']]
            out['rr_fresh'] = [fitcase.info_out(fitcase.make_fitter(d, case, remove_resolved=True).fit(fitcase.make_source(s))) for s in srcs]
            out['rr_differs'] = any(a['chi2'] != b['chi2'] for a, b in zip(out['rr_fresh'], fresh))
    # (b) models permuted: a second package
    with tempfile.TemporaryDirectory() as d:
        fitcase.write_pkg(d, case, order=case['model_perm'])
        f3 = fitcase.make_fitter(d, case)
        out['modelperm'] = fitcase.info_out(f3.fit(fitcase.make_source(case['src'])))
    return out


def model_requests(case):
    return [fitcase.model_request(case)]


def _byname(o):
    return {n: i for i, n in enumerate(o['model_name'])}


def _cmp(a, b, rt, what, shift=0.0, perm=None, loose3d=None):
    """relation between two implementation runs, by model name"""
    out = []
    ia, ib = _byname(a), _byname(b)
    if sorted(ia) != sorted(ib):
        return ['%s: different sets of model names' % what]
    for n in ia:
        i, j = ia[n], ib[n]
        ca, cb = fitcase.canon_chi(a['chi2'][i]), fitcase.canon_chi(b['chi2'][j])
        if (ca == 'HUGE') != (cb == 'HUGE') or (ca != 'HUGE' and abs(ca - cb) > 1e-7 * (1 + abs(ca)) * max(1.0, rt * 1e9) ** 0.5):
            out.append('%s: chi2 of %s changes from %r to %r' % (what, n, a['chi2'][i], b['chi2'][j]))
            continue
        if loose3d is not None and n in loose3d:
            continue
        if abs(a['av'][i] - b['av'][j]) > rt * (1 + abs(a['av'][i])):
            out.append('%s: A_V of %s changes from %r to %r' % (what, n, a['av'][i], b['av'][j]))
        if abs(a['sc'][i] + shift - b['sc'][j]) > rt * (1 + abs(a['sc'][i])):
            out.append('%s: scale of %s goes from %r to %r (expected shift %r)' % (what, n, a['sc'][i], b['sc'][j], shift))
        if perm is not None and a['model_fluxes'] is not None:
            pa = [a['model_fluxes'][i][q] for q in perm]
            if any(abs(x - y) > rt * 10 * (1 + abs(x)) for x, y in zip(pa, b['model_fluxes'][j])):
                out.append('%s: predicted fluxes of %s are not permuted alike' % (what, n))
    return out[:2]


def judge(case, im, mo):
    tags = ['mode=' + case['mode'], 'nb=%d' % len(case['wav']), 'nm=%d' % len(case['names']), 'hist=%d' % len(case['history'])]
    m = mo[0]
    if isinstance(m, tuple):
        return dict(disagree=['driver %r' % (m,)], fail=[], nontrivial=False)
    if 'exc' in im:
        if im['exc'] == 'too_small':
            return dict(disagree=[], fail=[], nontrivial=False, tags=tags + ['refused'])
        return dict(disagree=['implementation raised ' + im['msg']], fail=['raised: %s' % im['msg']], nontrivial=False, tags=tags)
    disagree, fail = [], []
    loose = None
    if case['mode'] == '2d':
        _, _, cond = c01.conditioning(case)
        if cond > 1e8:
            return dict(disagree=[], fail=[], nontrivial=False, tags=tags + ['singular-skipped'])
        rt = 1e-9 * max(cond, 1.0)
        res = m[2]
        base = im['base']
        for i, mid in enumerate(base['model_id']):
            if not close(base['av'][i], res[mid][0], rt, rt) or not close(base['sc'][i], res[mid][1], rt, rt):
                disagree.append('base fit of %s differs from the model' % base['model_name'][i])
                break
    else:
        if not m[2] or not (F(m[0]) > Fraction(1, 10 ** 9)):
            return dict(disagree=[], fail=[], nontrivial=False, tags=tags + ['singular-or-refused-skipped'])
        rt = 1e-7
        res = m[2][0]
        loose = set()
        base = im['base']
        for i, mid in enumerate(base['model_id']):
            d3, _ = fitcase.cmp3d_row(base, i, res[mid], 1e-7)
            if d3:
                disagree.append('base fit of %s: %s' % (base['model_name'][i], d3[0]))
                break
            g = sorted(float(x) for x in res[mid][5] if fitcase.canon_chi(x) != 'HUGE')
            if len(g) >= 2 and g[1] - g[0] <= 1e-6 * (1 + g[0]) or not g:
                loose.add(base['model_name'][i])
    base = im['base']
    if im['mutated'] or any(im['hist_mutated']):
        fail.append('mutation: fit() modified the Source it was given')
    fail += _cmp(base, im['bandperm'], rt, 'filters', perm=case['band_perm'], loose3d=loose)
    fail += _cmp(base, im['modelperm'], rt, 'models', loose3d=loose)
    if 'scaled' in im:
        fail += _cmp(base, im['scaled'], max(rt, 1e-9), 'brightness', shift=-0.5 * math.log10(case['const']))
    def same(a, b):
        return len(a) == len(b) and all((x == y) or (isinstance(x, float) and isinstance(y, float) and x != x and y != y) for x, y in zip(a, b))
    for k, i in enumerate(case['history']):
        h, f = im['hist'][k], im['fresh'][i]
        if any(not same(h[key], f[key]) for key in ('av', 'sc', 'chi2', 'model_name', 'model_id')):
            fail.append('history: fit %d of the sequence (source %d) differs from the fresh-fitter result' % (k, i))
            break
    if 'rr_hist' in im:
        tags.append('remove_resolved-active=%s' % im['rr_differs'])
        for k, i in enumerate(case['history']):
            h, f = im['rr_hist'][k], im['rr_fresh'][i]
            if any(not same(h[key], f[key]) for key in ('av', 'sc', 'chi2', 'model_name', 'model_id')):
                fail.append('history: with remove_resolved=True, fit %d of the sequence (source %d) differs from the fresh-fitter result' % (k, i))
                break
    nontrivial = case['band_perm'] != sorted(case['band_perm']) or len(case['names']) >= 2
    return dict(disagree=disagree[:3], fail=fail[:4], nontrivial=nontrivial, tags=tags)
