"""
C02 violation: for aperture/distance-dependent cube (version = 2) packages the
per-distance model fluxes  F(theta*d) * (1 kpc / d)^2  are stored in a float32
np.memmap (default use_memmap=True of Fitter(); the only mode of fit()).

  (a) every scaled flux is rounded to 24 bits: the reported A_V and chi^2 are
      not those of the tabulated fluxes interpolated to theta*d and scaled by
      (1 kpc/d)^2 (relative deviation ~1e-7; use_memmap=False agrees with an
      independent evaluation to ~1e-13);
  (b) when flux*(1 kpc/d)^2 falls in the float32 subnormal range the fluxes keep
      a few bits only, the chi^2(d) curve is corrupted and the reported A_V,
      chi^2 and even the reported distance are wrong;
  (c) below 7e-46 mJy the scaled flux becomes 0: the model is treated as having
      no flux at all (chi^2 = 4e30, A_V = 0, d = dmin) although its fluxes are
      strictly positive and the true minimum chi^2 is ~7.

Clauses violated: "at each distance d the model flux in a band is the tabulated
convolved flux linearly interpolated to theta*d times (1 kpc/d)^2", "the
reported A_V is the least-squares optimum at the reported distance", "the
reported chi^2 is the minimum over the grid".
"""
import contextlib
import io
import math
import os
import sys
import tempfile

import numpy as np
from astropy import units as u

from sedfitter.fit import Fitter
from sedfitter.extinction import Extinction
from sedfitter.sed import SEDCube
from sedfitter.source import Source


def quiet(func, *args, **kwargs):
    with contextlib.redirect_stdout(io.StringIO()):
        return func(*args, **kwargs)


tmp = tempfile.mkdtemp()
names = ['ordinary', 'faint', 'tiny']
wav = np.array([1.25, 2.2, 4.5, 8.0]) * u.micron
aps = np.array([1.0e5, 1.0e6, 1.0e7, 1.0e8])                      # AU, 4 tabulated apertures
base = np.array([[1.3, 2.9, 4.1, 7.7],
                 [3.1e-36, 8.3e-36, 5.9e-36, 2.3e-35],
                 [1.0e-43, 3.0e-43, 2.0e-43, 7.0e-43]])
growth = np.array([1.0, 1.9, 2.4, 2.6])                            # non-decreasing in aperture
val = base[:, np.newaxis, :] * growth[np.newaxis, :, np.newaxis]   # (model, aperture, wav)

cube = SEDCube()
cube.names = np.array(names)
cube.distance = 1 * u.kpc
cube.wav = wav
cube.apertures = aps * u.au
cube.val = val * u.mJy
cube.unc = cube.val * 0.
cube.write(os.path.join(tmp, 'flux.fits'))
STEP = 0.05
with open(os.path.join(tmp, 'models.conf'), 'w') as f:
    f.write("name = test\nlength_subdir = 0\naperture_dependent = yes\n"
            "logd_step = %r\nversion = 2\n" % STEP)

ext = Extinction()
ext.wav = np.logspace(-1, 2, 40) * u.micron
ext.chi = 200. * ext.wav.value ** -1.7 * u.cm ** 2 / u.g
k = np.asarray(ext.get_av(wav))

AV_RANGE = (0., 30.)
theta = np.array([1., 2., 2., 3.])                                  # arcsec
DMIN, DMAX = 1000., 4000.                                           # kpc ; theta*dmin = 1e6 AU >= 1e5 AU
filters = [w for w in wav]

def make_source(name, im):
    """A source that looks like model im seen at 2000 kpc through A_V = 2.5 (5% errors)."""
    d = 2000.
    a = np.minimum(theta * d * 1000., aps.max())
    mf = np.array([np.interp(a[j], aps, val[im, :, j]) for j in range(4)]) / d ** 2
    s = Source()
    s.name = name
    s.valid = [1, 1, 1, 1]
    s.flux = mf * 10. ** (2.5 * k) * np.array([1.03, 0.96, 1.02, 0.99])
    s.error = 0.05 * s.flux
    return s


sources = [make_source('like_ordinary', 0), make_source('like_faint', 1), make_source('like_tiny', 2)]


def reference(src):
    w, lf, le = src.get_log_fluxes()
    n = int(math.ceil(1 + (math.log10(DMAX) - math.log10(DMIN)) / STEP))
    grid = np.logspace(math.log10(DMIN), math.log10(DMAX), n)
    out = {}
    for im, name in enumerate(names):
        best = None
        for d in grid:
            a = np.minimum(theta * d * 1000., aps.max())
            mf = np.array([np.interp(a[j], aps, val[im, :, j]) for j in range(4)]) / d ** 2
            r = lf - np.log10(mf)
            av = np.sum(w * r * k) / np.sum(w * k * k)
            av = min(max(av, AV_RANGE[0]), AV_RANGE[1])
            chi2 = np.sum(w * (r - av * k) ** 2)
            if best is None or chi2 < best[2]:
                best = (av, math.log10(d), chi2)
        out[name] = np.array(best)
    return out


def as_dict(info):
    return {str(n).strip(): np.array([float(a), float(s), float(c)])
            for n, a, s, c in zip(info.model_name, info.av, info.sc, info.chi2)}


kw = dict(extinction_law=ext, av_range=AV_RANGE, distance_range=[DMIN, DMAX] * u.kpc)
fitter_mm = quiet(Fitter, filters, theta * u.arcsec, tmp, **kw)
fitter_ctl = quiet(Fitter, filters, theta * u.arcsec, tmp, use_memmap=False, **kw)

TOL = 1e-10
problems = []
for src in sources:
    ref = reference(src)
    got_mm = as_dict(fitter_mm.fit(src))
    got_ctl = as_dict(fitter_ctl.fit(src))
    print("source %s   (A_V, log10 d/kpc, chi2): expected | default Fitter" % src.name)
    for n in names:
        d_ctl = np.max(np.abs(got_ctl[n] - ref[n]) / (1. + np.abs(ref[n])))
        d_mm = np.max(np.abs(got_mm[n] - ref[n]) / (1. + np.abs(ref[n])))
        print("   %-9s %s | %s   dev: use_memmap=False %.1e, default %.1e"
              % (n, np.array2string(ref[n], precision=9), np.array2string(got_mm[n], precision=9), d_ctl, d_mm))
        assert d_ctl < TOL, "control (use_memmap=False) disagrees with reference for %s/%s: %r" % (src.name, n, d_ctl)
        if not np.all(np.isfinite(got_mm[n])) or d_mm > TOL:
            problems.append("source %r, model %r -> (A_V, log d, chi2) = %s, expected %s (rel. dev. %.1e)"
                            % (src.name, n, got_mm[n], ref[n], d_mm))

if problems:
    print()
    print("C02 VIOLATED: distance-dependent cube packages are fitted on float32 copies of "
          "F(theta*d)*(1 kpc/d)^2 (np.memmap dtype float32, default use_memmap=True):")
    for p in problems:
        print("  - " + p)
    sys.exit("C02 violated: model fluxes at the trial distances are not the tabulated fluxes interpolated "
             "and scaled by (1 kpc/d)^2 (float32 truncation / underflow), so A_V, chi^2 (and distance) are wrong")

print("C02 holds on this input")
