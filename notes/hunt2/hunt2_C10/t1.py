import sys; sys.path.insert(0, '/tmp/hunt2_C10/hunt_out')
from _helper import *
from sedfitter import fit, Fitter
from sedfitter.source import Source
from sedfitter.fit_info import FitInfoFile
for apdep in [False, True]:
    d, md = build(apdep)
    DATA = """s1 0.0 0.0 1 1 1 0.2 0.1 1.3 0.2 1.5 0.3
s2 1.0 2.0 1 0 1 0.2 0.05 1.2 0.1 1.8 0.3
s3 1.0 2.0 1 1 4 0.2 0.05 1.2 0.1 0.1 0.3
s4 1.0 2.0 3 2 1 0.2 0.05 1.2 0.1 1.8 0.3
s5 1.0 2.0 1 9 1 0.2 0.05 1.2 0.1 1.8 0.3
"""
    open(d + '/data', 'w').write(DATA)
    ext = extinction()
    for nmin in [1, 2, 3]:
      for sel in [('F', 3.), ('N', 2), ('A',), ('C', 10.), ('D', 1.), ('E', 2.)]:
        for oc in [True, False]:
            out = d + '/out_%d_%s_%s' % (nmin, sel[0], oc)
            fit(d + '/data', ['bob', 'alice', 'eve'], [1., 3., 3.] * u.arcsec, md, out, n_data_min=nmin, extinction_law=ext, distance_range=[1., 2.] * u.kpc, av_range=[0., 0.1], output_format=sel, output_convolved=oc)
            fitter = Fitter(['bob', 'alice', 'eve'], [1., 3., 3.] * u.arcsec, md, extinction_law=ext, distance_range=[1., 2.] * u.kpc, av_range=[0., 0.1])
            exp = []
            for line in DATA.strip().split('\n'):
                s = Source.from_ascii(line)
                if s.n_data >= nmin:
                    i = fitter.fit(s)
                    if not oc: i.model_fluxes = None
                    i.keep(sel)
                    exp.append(i)
            fin = FitInfoFile(out, 'r')
            got = list(fin)
            assert len(got) == len(exp), (len(got), len(exp))
            for a, b in zip(got, exp):
                p = info_eq(a, b)
                assert not p, p
                assert a.meta == b.meta
            print(type(got[0].model_name), got[0].model_name.dtype, type(exp[0].model_name))
print("OK")
