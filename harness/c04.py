"""C04 — FitInfo.sort / row alignment against FitModel.rank_m + the fit model, both fitting modes."""
import math

from common import Rng, F, close
import fitcase
import c01
import c02

PROP = 'C04'
MODEL_OPS = 'FitModel.rank_m (argsort of chi2), fit2_pkg / fit3_pkg per-model results'
RULE = ('packages as in C01/C02 with 1-8 models, some models duplicated under different names (exact chi2 ties) and confidence-1 limits '
        '(models driven to chi2 >= 1e30), fitted through Fitter.fit without selection, in half of the cases after the same Fitter has fitted 1-2 other sources; rows compared by model index with the per-model results of the model, '
        'the chi2 sequence position-wise, the order against rank_m of the same chi2 values (tie groups as multisets). non-trivial = at least 2 models with distinct finite chi2.')
EXHAUSTIVE = {'quick': False, 'thorough': False}
ASSUMPTIONS = ['np.argsort is any sorting permutation: order inside exact tie groups is not compared'] + c01.ASSUMPTIONS


def generate(tier, seed):
    rng = Rng(seed * 48271 + 4)
    cases = []
    for k in range(300 if tier == 'quick' else 4000):
        mode = '2d' if k % 3 else '3d'
        c = fitcase.gen_case(rng, mode, nm=rng.randint(1, 6))
        # confidence-1 limits more often
        for j, f in enumerate(c['src']['flags']):
            if f in (2, 3) and rng.random() < 0.5:
                c['src']['err'][j] = 1.0
        # duplicate some models under new names
        ndup = rng.choice([0, 1, 1, 2])
        for _ in range(ndup):
            i = rng.randrange(len(c['names']))
            c['names'].append('dup_%04d' % len(c['names']))
            c['flux'].append(c['flux'][i])
        # some models have no flux at all in one band: their chi2 is not finite, they must still be listed once, at the end
        if mode == '2d' and rng.random() < 0.35:
            for _ in range(rng.randint(1, 2)):
                i = rng.randrange(len(c['names']))
                c['flux'][i] = list(c['flux'][i])
                c['flux'][i][rng.randrange(len(c['wav']))] = 0.0
        # shuffle so that duplicates are not adjacent
        order = list(range(len(c['names'])))
        rng.shuffle(order)
        c['names'] = [c['names'][i] for i in order]
        c['flux'] = [c['flux'][i] for i in order]
        if c.get('band_orders'):      # the model list changed: draw the per-band row orders again
            nm_ = len(c['names'])
            c['band_orders'] = [rng.sample(list(range(nm_)), nm_) for _ in c['wav']]
        # in half of the cases the Fitter has already fitted 1-2 other sources (rows must still describe one model each)
        c['resort'] = k % 3 == 1
        if k % 2:
            c['warmup'] = [fitcase.gen_source(rng, len(c['wav']), min_fitted=2 if mode == '2d' else 1) for _ in range(rng.randint(1, 2))]
        cases.append(c)
    # FitInfo.sort() itself on hand-made results: chi^2 vectors with ties, infinities (models rejected outright) and NaN anywhere in the vector
    alpha = [0.5, 2.0, 2.0, 7.25, math.inf, math.inf, math.nan]
    for k in range(100 if tier == 'quick' else 1500):
        n = rng.randint(1, 9)
        cases.append(dict(kind='sort', mode='sort', chi=[rng.choice(alpha) if rng.random() < 0.7 else rng.dyadic(0, 50, 8) for _ in range(n)], fluxes=rng.random() < 0.5))
    return cases


def _impl_sort(case):
    import numpy as np
    from sedfitter.fit_info import FitInfo
    from sedfitter.source import Source
    n = len(case['chi'])
    s = Source()
    s.name = 'src'
    s.valid, s.flux, s.error = [1, 1], [1.0, 2.0], [0.1, 0.2]
    info = FitInfo(source=s)
    info.chi2 = np.array(case['chi'], dtype=float)
    info.av = np.arange(n) + 0.25
    info.sc = np.arange(n) + 0.5
    info.model_name = np.array(['m%03d' % i for i in range(n)], dtype='U30')
    info.model_fluxes = (np.arange(2 * n, dtype=float).reshape(n, 2) + 0.125) if case['fluxes'] else None
    info.sort()
    return dict(model_id=[int(x) for x in info.model_id], av=[float(x) for x in info.av], sc=[float(x) for x in info.sc], chi2=[float(x) for x in info.chi2],
                model_name=[str(x) for x in info.model_name], model_fluxes=None if info.model_fluxes is None else [[float(v) for v in row] for row in info.model_fluxes])


def impl(case):
    return _impl_sort(case) if case.get('kind') == 'sort' else fitcase.impl_fit(case)


def _judge_sort(case, im, mo):
    chi, n = case['chi'], len(case['chi'])
    tags = ['mode=sort', 'n=%d' % n, 'inf=%s' % any(math.isinf(x) for x in chi), 'nan=%s' % any(math.isnan(x) for x in chi)]
    if 'exc' in im:
        return dict(disagree=['implementation raised ' + im['msg']], fail=['raised: FitInfo.sort raised %s' % im['msg']], nontrivial=False, tags=tags)
    fail, disagree = [], []
    ids = im['model_id']
    if sorted(ids) != list(range(n)):
        fail.append('once: after sort() model_id %r is not a permutation of 0..%d (chi2 %r)' % (ids, n - 1, chi))
        return dict(disagree=[], fail=fail, nontrivial=True, tags=tags)
    for i, mid in enumerate(ids):
        same = (im['chi2'][i] == chi[mid]) or (math.isnan(im['chi2'][i]) and math.isnan(chi[mid]))
        if not (same and im['av'][i] == mid + 0.25 and im['sc'][i] == mid + 0.5 and im['model_name'][i] == 'm%03d' % mid
                and (im['model_fluxes'] is None or im['model_fluxes'][i] == [2 * mid + 0.125, 2 * mid + 1.125])):
            fail.append('row: after sort() row %d carries index %d but not all of that model\'s values (chi2 %r)' % (i, mid, chi))
            break
    for i in range(n - 1):
        a, b = im['chi2'][i], im['chi2'][i + 1]
        if (math.isnan(a) and not math.isnan(b)) or (not math.isnan(a) and not math.isnan(b) and a > b):
            fail.append('ranking: after sort() chi2 %r is not in non-decreasing order (NaN last)' % (im['chi2'],))
            break
    if mo and not isinstance(mo[0], tuple):
        order = mo[0]
        key = lambda v: ('nan',) if math.isnan(v) else (v,)
        pos = 0
        while pos < n:
            end = pos
            while end + 1 < n and key(chi[order[end + 1]]) == key(chi[order[pos]]):
                end += 1
            if sorted(order[pos:end + 1]) != sorted(ids[pos:end + 1]):
                disagree.append('order: rows %d..%d hold models %r, rank_m puts %r there' % (pos, end, ids[pos:end + 1], order[pos:end + 1]))
                break
            pos = end + 1
    return dict(disagree=disagree, fail=fail[:3], nontrivial=n > 1, tags=tags)


def shrink(case):
    return fitcase.shrink(case) if case.get('kind') != 'sort' else iter(())


MODEL_NEEDS_IMPL = True


def model_requests(case, im):
    if case.get('kind') == 'sort':
        return [('rank', [[x if not math.isfinite(x) else F(x) for x in case['chi']]])]
    extra = []
    if case['mode'] == '2d':
        reqs = c01.model_requests(case)
    else:
        reqs = c02.model_requests(case, im)
        reqs, extra = reqs[:3], reqs[3:]          # the remove_resolved request goes last
    if isinstance(im, dict) and 'chi2' in im:
        n = len(im['chi2'])
        uns = [None] * n
        ok = sorted(im['model_id']) == list(range(n))
        if ok:
            for i, mid in enumerate(im['model_id']):
                uns[mid] = im['chi2'][i]
            reqs.append(('rank', [[x if not math.isfinite(x) else F(x) for x in uns]]))
    if len(reqs) == (1 if case['mode'] == '2d' else 3):
        reqs.append(('rank', [[]]))           # placeholder: the layout of the answers is fixed (base..., rank, remove_resolved)
    return reqs + extra


def judge(case, im, mo):
    if case.get('kind') == 'sort':
        return _judge_sort(case, im, mo)
    nreq = 1 if case['mode'] == '2d' else 3
    base = (c01.judge if case['mode'] == '2d' else c02.judge)(case, im, mo[:nreq] + (mo[nreq + 1:] if case['mode'] == '3d' else []))
    tags = ['mode=' + case['mode']] + [t for t in base.get('tags', []) if t.startswith('nm=') or 'skipped' in t or t == 'refused']
    if 'exc' in im or not base.get('nontrivial') and ('singular-skipped' in base.get('tags', []) or 'refused' in base.get('tags', [])):
        keep = [x for x in base['fail'] if x.startswith('raised')] if 'refused' not in base.get('tags', []) else []
        return dict(disagree=base['disagree'] if keep else [], fail=keep, nontrivial=False, tags=tags)
    disagree = list(base['disagree'])
    fail = [x for x in base['fail'] if x.split(':')[0] in ('row', 'flux', 'scale')]
    n = len(case['names'])
    # every model exactly once
    if sorted(im['model_id']) != list(range(n)) or len(im['chi2']) != n:
        fail.append('once: model_id %r is not a permutation of 0..%d' % (im['model_id'], n - 1))
        return dict(disagree=disagree[:4], fail=fail[:4], nontrivial=False, tags=tags)
    if sorted(im['model_name']) != sorted(case['names']):
        fail.append('once: the result does not list every model name exactly once')
    chi = im['chi2']
    for i in range(n - 1):
        a, b = chi[i], chi[i + 1]
        if math.isnan(a) and not math.isnan(b) or (not math.isnan(a) and not math.isnan(b) and a > b):
            fail.append('ranking: chi2 decreases from row %d (%r) to row %d (%r)' % (i, a, i + 1, b))
            break
    if im.get('resorted'):
        rs = im['resorted']
        for i, mid in enumerate(rs['model_id']):
            if not (0 <= mid < n) or rs['model_name'][i] != case['names'][mid]:
                fail.append('row: after sorting the (already sorted) result once more, row %d names %s but carries index %d (%s)' % (i, rs['model_name'][i], mid, case['names'][mid] if 0 <= mid < n else '?'))
                break
    # stored predictions: log model flux + A_V k - 2 scale (2-D); 3-D is checked by the 'flux' clause of the C02 oracle
    if case['mode'] == '2d':
        import numpy as np
        ks = [fitcase.k_law(case['ext'], w) for w in case['wav']]
        for i, mid in enumerate(im['model_id']):
            for j in range(len(case['wav'])):
                if any(x == 0 for x in case['flux'][mid]):
                    break
                want = float(np.log10(case['flux'][mid][j])) + im['av'][i] * float(ks[j]) - 2.0 * im['sc'][i]
                if abs(im['model_fluxes'][i][j] - want) > 1e-8 * (1 + abs(want)):
                    fail.append('pred: predicted flux of %s in band %d is %r, log10 F + A_V k - 2 scale = %r' % (im['model_name'][i], j, im['model_fluxes'][i][j], want))
                    break
    # order against rank_m of the same values (tie groups as multisets)
    if len(mo) > nreq and not isinstance(mo[nreq], tuple):
        order = mo[nreq]
        uns = {mid: chi[i] for i, mid in enumerate(im['model_id'])}
        key = lambda v: ('nan',) if math.isnan(v) else (v,)
        pos = 0
        while pos < n:
            end = pos
            while end + 1 < n and key(uns[order[end + 1]]) == key(uns[order[pos]]):
                end += 1
            if sorted(order[pos:end + 1]) != sorted(im['model_id'][pos:end + 1]):
                disagree.append('order: rows %d..%d hold models %r, rank_m puts %r there' % (pos, end, im['model_id'][pos:end + 1], order[pos:end + 1]))
                break
            pos = end + 1
    if any(math.isnan(x) for x in chi):
        tags.append('nan-chi2')
    fin = sorted(set(x for x in chi if math.isfinite(x) and x < 1e29))
    tags.append('ties=%s' % ('yes' if len(set(key(x) for x in chi)) < n else 'no'))
    tags.append('huge=%s' % ('yes' if any(fitcase.canon_chi(x) == 'HUGE' for x in chi) else 'no'))
    return dict(disagree=disagree[:4], fail=fail[:4], nontrivial=len(fin) >= 2, tags=tags)
