import sys; sys.path.insert(0, 'hunt_out')
from harness import *
d = tempfile.mkdtemp()
rng = np.random.RandomState(1)
cube = SEDCube()
cube.names = np.array(['m%d' % i for i in range(4)])
cube.distance = 1 * u.kpc
cube.wav = np.logspace(-1, 3, 30) * u.micron
cube.apertures = np.array([8000., 16000., 1e5]) * u.au
cube.val = (np.cumsum(rng.random_sample((4, 3, 30)), axis=1) + 1) * u.mJy
cube.unc = cube.val * 0.01
cube.write(os.path.join(d, 'flux.fits'))
open(os.path.join(d, 'models.conf'), 'w').write("name = test\nlength_subdir = 0\naperture_dependent = yes\nlogd_step = 0.02\nversion = 2\n")
wavs = [cube.wav[i] for i in (5, 12, 20)]
fitter = quiet(Fitter, wavs, np.array([1., 2., 3.]) * u.arcsec, d, extinction_law=make_ext(), av_range=(0., 10.), distance_range=(8., 8.) * u.kpc)
info = fitter.fit(make_source(3))
print(info.sc, info.chi2)
for st in ['interp', 'largest', 'largest+smallest', 'all']:
    try:
        figs = plot(info, select_format=('N', 2), sed_type=st)
        print(st, len(figs['src']['lines'].get_segments()))
    except Exception as e:
        print(st, 'EXC', e)
