From Coq Require Import QArith Qabs Qpower ZArith Lia List Lqa Bool.
From SedV Require Import Fmt.
Open Scope Q_scope.

Lemma ten_nz : ~ inject_Z 10 == 0. Proof. intro H; discriminate H. Qed.
Lemma pow10_pos e : 0 < pow10 e. Proof. apply Qpower_0_lt; reflexivity. Qed.
Lemma pow10_add a b : pow10 (a + b) == pow10 a * pow10 b. Proof. apply Qpower_plus, ten_nz. Qed.
Lemma pow10_Z n : (0 <= n)%Z -> pow10 n == inject_Z (10 ^ n). Proof. intro; symmetry; apply Zpower_Qpower; assumption. Qed.
Lemma pow10_1 : pow10 1 == inject_Z 10. Proof. reflexivity. Qed.

(* the rounding error of rhe is at most one half *)
Lemma rhe_frac (n : Z) (d : positive) (z : Z) :
  (Z.abs (2 * z * Zpos d - 2 * n) <= Zpos d)%Z -> Qabs (inject_Z z - (n # d)) <= 1 # 2.
Proof.
  intro H. apply Qabs_Qle_condition. unfold Qle, Qminus, Qplus, Qopp, inject_Z; simpl. split; lia.
Qed.

Lemma rhe_spec x : Qabs (inject_Z (rhe x) - x) <= 1 # 2.
Proof.
  assert (E : x == Qred x) by (symmetry; apply Qred_correct).
  rewrite E at 2. unfold rhe. destruct (Qred x) as [n d]. cbn [Qnum Qden].
  pose proof (Z.div_mod n (Zpos d) ltac:(lia)) as Hdm.
  pose proof (Z.mod_pos_bound n (Zpos d) ltac:(lia)) as Hb.
  set (q := (n / Zpos d)%Z) in *. set (r := (n mod Zpos d)%Z) in *.
  apply rhe_frac.
  destruct (Z.ltb_spec (2 * r) (Zpos d)); [nia|].
  destruct (Z.ltb_spec (Zpos d) (2 * r)); [nia|].
  destruct (Z.even q); nia.
Qed.

Lemma rhe_ge a x : inject_Z a <= x -> (a <= rhe x)%Z.
Proof.
  intro H. pose proof (rhe_spec x) as S. apply Qabs_Qle_condition in S. destruct S as [S _].
  assert (inject_Z a - (1 # 2) <= inject_Z (rhe x)) by lra.
  unfold Qle, Qminus, Qplus, Qopp, inject_Z in H0; simpl in H0. lia.
Qed.

Lemma rhe_le b x : x <= inject_Z b -> (rhe x <= b)%Z.
Proof.
  intro H. pose proof (rhe_spec x) as S. apply Qabs_Qle_condition in S. destruct S as [_ S].
  assert (inject_Z (rhe x) <= inject_Z b + (1 # 2)) by lra.
  unfold Qle, Qminus, Qplus, Qopp, inject_Z in H0; simpl in H0. lia.
Qed.

Lemma rhe_int z x : x == inject_Z z -> rhe x = z.
Proof.
  intro E. apply Z.le_antisymm; [apply rhe_le|apply rhe_ge]; rewrite E; apply Qle_refl.
Qed.

Lemma pow10_mono a b : (a <= b)%Z -> pow10 a <= pow10 b.
Proof. intro H. apply Qpower_le_compat_l; [assumption|]. unfold Qle; simpl; lia. Qed.

Lemma pow10_split e p : pow10 e == pow10 (Z.of_nat p) * pow10 (e - Z.of_nat p).
Proof. rewrite <- pow10_add. replace (Z.of_nat p + (e - Z.of_nat p))%Z with e by lia. reflexivity. Qed.

Lemma pow10_S e : pow10 (e + 1) == inject_Z 10 * pow10 e.
Proof. rewrite pow10_add, pow10_1. ring. Qed.

Section FMT.
Variables (p : nat) (e : Z) (x : Q).
Let a := Qabs x.
Let u := pow10 (e - Z.of_nat p).     (* one unit in the last printed place *)
Let y := a / u.

Hypothesis Hlo : pow10 e <= a.
Hypothesis Hhi : a < pow10 (e + 1).

Lemma u_pos : 0 < u. Proof. apply pow10_pos. Qed.

Lemma y_lo : inject_Z (10 ^ Z.of_nat p) <= y.
Proof.
  pose proof u_pos as U. pose proof (pow10_split e p) as E. unfold y, u in *.
  rewrite <- pow10_Z by lia. apply Qle_shift_div_l; [assumption|].
  rewrite <- E. exact Hlo.
Qed.

Lemma y_hi : y < inject_Z (10 ^ (Z.of_nat p + 1)).
Proof.
  pose proof u_pos as U. pose proof (pow10_split e p) as E. unfold y, u in *.
  rewrite <- pow10_Z by lia. apply Qlt_shift_div_r; [assumption|].
  rewrite pow10_S, <- Qmult_assoc, <- E, <- pow10_S. exact Hhi.
Qed.

Lemma m_bounds : (10 ^ Z.of_nat p <= rhe y <= 10 ^ (Z.of_nat p + 1))%Z.
Proof. split; [apply rhe_ge, y_lo|apply rhe_le, Qlt_le_weak, y_hi]. Qed.

Lemma y_err : Qabs (inject_Z (rhe y) * u - a) <= (1 # 2) * u.
Proof.
  pose proof (rhe_spec y) as S. pose proof u_pos as U.
  assert (E : inject_Z (rhe y) * u - a == (inject_Z (rhe y) - y) * u) by (unfold y; field; lra).
  rewrite E, Qabs_Qmult, (Qabs_pos u) by lra. apply Qmult_le_compat_r; lra.
Qed.
End FMT.

Lemma fmt_e_guard p e x me : fmt_e p e x = Some me -> pow10 e <= Qabs x /\ Qabs x < pow10 (e + 1).
Proof.
  unfold fmt_e. destruct (Qle_bool (pow10 e) (Qabs x)) eqn:A; [|discriminate].
  destruct (Qle_bool (pow10 (e + 1)) (Qabs x)) eqn:B; [discriminate|]. intros _.
  split; [apply Qle_bool_iff; assumption|]. apply Qnot_le_lt. intro C. apply Qle_bool_iff in C. congruence.
Qed.

Lemma fmt_e_unfold p e x : pow10 e <= Qabs x -> Qabs x < pow10 (e + 1) ->
  fmt_e p e x = let m := rhe (Qabs x / pow10 (e - Z.of_nat p)) in
                if (m =? 10 ^ (Z.of_nat p + 1))%Z then Some ((10 ^ Z.of_nat p)%Z, (e + 1)%Z) else Some (m, e).
Proof.
  intros A B. unfold fmt_e. apply Qle_bool_iff in A. rewrite A.
  destruct (Qle_bool (pow10 (e + 1)) (Qabs x)) eqn:C; [|reflexivity].
  apply Qle_bool_iff in C. exfalso. apply (Qlt_irrefl (Qabs x)). eapply Qlt_le_trans; eassumption.
Qed.

(* the printed mantissa always has exactly p+1 digits *)
Theorem fmt_e_digits p e x me : fmt_e p e x = Some me -> (10 ^ Z.of_nat p <= fst me < 10 ^ (Z.of_nat p + 1))%Z.
Proof.
  intro H. destruct (fmt_e_guard _ _ _ _ H) as [A B]. rewrite (fmt_e_unfold p e x A B) in H. cbv zeta in H.
  pose proof (m_bounds p e x A B) as M.
  assert (P : (0 < 10 ^ Z.of_nat p)%Z) by (apply Z.pow_pos_nonneg; lia).
  assert (Q1 : (10 ^ (Z.of_nat p + 1) = 10 * 10 ^ Z.of_nat p)%Z) by (rewrite Z.pow_add_r by lia; lia).
  destruct (Z.eqb_spec (rhe (Qabs x / pow10 (e - Z.of_nat p))) (10 ^ (Z.of_nat p + 1))) as [E|E];
    injection H as <-; cbn [fst]; lia.
Qed.

(* what is printed differs from the number by at most half a unit of the last printed digit of x's own decade *)
Theorem fmt_e_error p e x me : fmt_e p e x = Some me -> Qabs (val_e p me - Qabs x) <= (1 # 2) * pow10 (e - Z.of_nat p).
Proof.
  intro H. destruct (fmt_e_guard _ _ _ _ H) as [A B]. rewrite (fmt_e_unfold p e x A B) in H. cbv zeta in H.
  pose proof (y_err p e x) as Y.
  destruct (Z.eqb_spec (rhe (Qabs x / pow10 (e - Z.of_nat p))) (10 ^ (Z.of_nat p + 1))) as [E|E];
    injection H as <-; unfold val_e; cbn [fst snd]; [|exact Y].
  rewrite E in Y.
  assert (V : inject_Z (10 ^ Z.of_nat p) * pow10 (e + 1 - Z.of_nat p) == inject_Z (10 ^ (Z.of_nat p + 1)) * pow10 (e - Z.of_nat p)).
  { rewrite <- !pow10_Z by lia. rewrite <- !pow10_add. replace (Z.of_nat p + (e + 1 - Z.of_nat p))%Z with (Z.of_nat p + 1 + (e - Z.of_nat p))%Z by lia. reflexivity. }
  rewrite V. exact Y.
Qed.

(* ... hence a relative error of at most 10^-p / 2 *)
Theorem fmt_e_rel p e x me : fmt_e p e x = Some me -> Qabs (val_e p me - Qabs x) <= (1 # 2) * pow10 (- Z.of_nat p) * Qabs x.
Proof.
  intro H. pose proof (fmt_e_error _ _ _ _ H) as Er. destruct (fmt_e_guard _ _ _ _ H) as [A _].
  eapply Qle_trans; [exact Er|].
  assert (S : pow10 (e - Z.of_nat p) == pow10 (- Z.of_nat p) * pow10 e).
  { rewrite <- pow10_add. replace (- Z.of_nat p + e)%Z with (e - Z.of_nat p)%Z by lia. reflexivity. }
  rewrite S. pose proof (pow10_pos (- Z.of_nat p)) as P.
  rewrite <- Qmult_assoc. apply Qmult_le_l; [reflexivity|]. apply Qmult_le_l; assumption.
Qed.

(* a number that already has p+1 significant digits is printed exactly *)
Theorem fmt_e_exact p e x m : (10 ^ Z.of_nat p <= m < 10 ^ (Z.of_nat p + 1))%Z ->
  Qabs x == inject_Z m * pow10 (e - Z.of_nat p) -> fmt_e p e x = Some (m, e).
Proof.
  intros M E.
  pose proof (pow10_pos (e - Z.of_nat p)) as U. pose proof (pow10_split e p) as Sp.
  assert (S1 : pow10 (e + 1) == inject_Z (10 ^ (Z.of_nat p + 1)) * pow10 (e - Z.of_nat p)).
  { rewrite <- pow10_Z by lia. rewrite <- pow10_add. replace (Z.of_nat p + 1 + (e - Z.of_nat p))%Z with (e + 1)%Z by lia. reflexivity. }
  assert (A : pow10 e <= Qabs x).
  { rewrite E, Sp, pow10_Z by lia. apply Qmult_le_compat_r; [|lra]. rewrite <- Zle_Qle. lia. }
  assert (B : Qabs x < pow10 (e + 1)).
  { rewrite E, S1. apply Qmult_lt_r; [assumption|]. rewrite <- Zlt_Qlt. lia. }
  rewrite (fmt_e_unfold p e x A B). cbv zeta.
  assert (R : rhe (Qabs x / pow10 (e - Z.of_nat p)) = m).
  { apply rhe_int. rewrite E. field. lra. }
  rewrite R. destruct (Z.eqb_spec m (10 ^ (Z.of_nat p + 1))); [lia|reflexivity].
Qed.

(* re-formatting the parsed text reproduces the text: to_ascii o from_ascii o to_ascii = to_ascii *)
Theorem fmt_e_reformat p e x me : fmt_e p e x = Some me -> fmt_e p (snd me) (val_e p me) = Some me.
Proof.
  intro H. pose proof (fmt_e_digits _ _ _ _ H) as D. destruct me as [m e']. cbn [fst snd] in *.
  apply fmt_e_exact; [assumption|]. unfold val_e; cbn [fst snd].
  apply Qabs_pos. pose proof (pow10_pos (e' - Z.of_nat p)).
  apply Qmult_le_0_compat; [|lra]. replace 0 with (inject_Z 0) by reflexivity. rewrite <- Zle_Qle.
  assert ((0 < 10 ^ Z.of_nat p)%Z) by (apply Z.pow_pos_nonneg; lia). lia.
Qed.

(* the result does not depend on the exponent oracle: at most one exponent passes the validation *)
Theorem fmt_e_oracle_free p e1 e2 x m1 m2 : fmt_e p e1 x = Some m1 -> fmt_e p e2 x = Some m2 -> m1 = m2.
Proof.
  intros H1 H2. destruct (fmt_e_guard _ _ _ _ H1) as [A1 B1]. destruct (fmt_e_guard _ _ _ _ H2) as [A2 B2].
  assert (e1 = e2).
  { destruct (Z.lt_trichotomy e1 e2) as [L|[L|L]]; [|assumption|]; exfalso.
    - pose proof (pow10_mono (e1 + 1) e2 ltac:(lia)). lra.
    - pose proof (pow10_mono (e2 + 1) e1 ltac:(lia)). lra. }
  subst. congruence.
Qed.

(* fixed notation "%.{p}f" *)
Theorem fmt_f_error p x : Qabs (val_f p (fmt_f p x) - Qabs x) <= (1 # 2) * pow10 (- Z.of_nat p).
Proof.
  unfold val_f, fmt_f. pose proof (pow10_pos (Z.of_nat p)) as P. pose proof (rhe_spec (Qabs x * pow10 (Z.of_nat p))) as S.
  assert (I : pow10 (- Z.of_nat p) == / pow10 (Z.of_nat p)) by (unfold pow10; apply Qpower_opp).
  set (z := rhe (Qabs x * pow10 (Z.of_nat p))) in *.
  assert (E : inject_Z z / pow10 (Z.of_nat p) - Qabs x == (inject_Z z - Qabs x * pow10 (Z.of_nat p)) * / pow10 (Z.of_nat p)) by (field; lra).
  rewrite E, Qabs_Qmult, I. assert (0 < / pow10 (Z.of_nat p)) by (apply Qinv_lt_0_compat; assumption).
  rewrite (Qabs_pos (/ pow10 (Z.of_nat p))) by lra. apply Qmult_le_compat_r; lra.
Qed.

Example fmt_examples :
  fmt_e 3 3 (2001 # 2) = Some (1000, 3)%Z /\       (* 1000.5 -> 1.000e+03 (tie to even) *)
  fmt_e 3 3 (2003 # 2) = Some (1002, 3)%Z /\       (* 1001.5 -> 1.002e+03 *)
  fmt_e 3 0 (99996 # 10000) = Some (1000, 1)%Z /\  (* 9.9996 -> 1.000e+01 (carry into the next decade) *)
  fmt_e 3 (-3) (-(123456 # 100000000)) = Some (1235, -3)%Z /\
  fmt_e 3 1 (2001 # 2) = None /\ fmt_e 3 0 0 = None /\
  fmt_f 5 (314159265 # 100000000) = 314159%Z.
Proof. vm_compute. repeat split; reflexivity. Qed.
