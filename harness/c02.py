"""C02 — aperture/distance-dependent fits against FitModel.fit3_pkg, Grid.ndist / gridlog_m and the grid clauses."""
import math
from fractions import Fraction

from common import Rng, F, close
import fitcase

PROP = 'C02'
MODEL_OPS = 'GridGuard.ndist_g (= Grid.ndist or one less), Grid.gridlog_m, FitModel.fit3_pkg (interp_clamp_m, scaled_flux_m, av_at_distance, chi2_m, argmin_x), FitMask.fit3_pkg_masked; beyond the property: RadiusM.radius_sigma_m, RadiusM.radius_cumul_m, ResolvedM.resolved_pkg'
RULE = ('aperture-dependent v1 packages (convolved files with 2-8 apertures) fitted through Fitter: 2-6 bands with >=1 fitted band, 1-8 models, growth curves '
        'non-decreasing or arbitrary, distance ranges incl. dmin==dmax and ranges pushing theta*d beyond the largest aperture, steps 0.01-0.5; '
        'a malformed stream with theta*dmin below the smallest aperture. non-trivial = more than one trial distance and a finite chi2; distinct = distinct inputs.')
EXHAUSTIVE = {'quick': False, 'thorough': False}
ASSUMPTIONS = ['np.log10 / np.logspace are oracles (the harness evaluates the documented grid with them)',
               'argmin ties: rows are compared at the distance the implementation reports (tie-robust); 1+L/step within 1e-9 of an integer is not compared on n',
               'singular one-parameter regressions (sum w k^2 = 0) are outside the quantifier and skipped']


def generate(tier, seed):
    rng = Rng(seed * 92821 + 2)
    cases = []
    for k in range(200 if tier == 'quick' else 3000):
        c = fitcase.gen_case(rng, '3d')
        if k % 3 == 1:
            c['fmt'] = 'v2'      # version-2 package (flux cube + convolved files), read by Models._read_version_2
        if k % 2 == 1:           # the Fitter has fitted other sources before (their results are not examined; the judged fit must not depend on them)
            c['warmup'] = [fitcase.gen_source(rng, len(c['wav']), min_fitted=1) for _ in range(rng.randint(1, 2))]
        if k % 11 == 4:          # the judged source is an object that was fitted before in another state and edited in place since
            c['edited_from'] = fitcase.gen_source(rng, len(c['wav']), min_fitted=1)
        if k % 13 == 5:
            # a range of a whole number of decades and a step that divides it: 1 + L/step is a whole number
            a = rng.choice([13.0, 14.0, 17.0, 23.0, 30.0, 40.0, 6.0, 0.09, 2.5, 1.0, 0.5])
            c['drange'] = [a, a * 10 ** rng.choice([1, 1, 2])]
            if F(c['drange'][1]) == F(a) * 10 ** (1 if c['drange'][1] < a * 50 else 2):
                c['logd_step'] = rng.choice([0.5, 0.25, 0.1, 0.05, 0.02, 0.2, 0.15, 0.3])
                for jj in range(len(c['wav'])):
                    rmin = c['theta'][jj] * a * 1000.0
                    shift = rmin * 0.7 / c['aps'][jj][0]
                    c['aps'][jj] = [x * shift for x in c['aps'][jj]]
                c['kind'] = 'decades'
        if k % 9 == 7 and c.get('kind') != 'decades':
            # the distance range held in single precision (both ends single-precision numbers)
            import numpy as np
            c['drange'] = [float(np.float32(x)) for x in c['drange']]
            c['drange_dtype'] = 'float32'
        if k % 7 == 3:
            c['av_list'] = True
        if k % 12 == 0:   # malformed: smallest aperture above theta*dmin in one band
            j = rng.randrange(len(c['wav']))
            rmin = c['theta'][j] * c['drange'][0] * 1000.0
            shift = rmin * 1.3 / c['aps'][j][0]
            c['aps'][j] = [a * shift for a in c['aps'][j]]
            c['kind'] = 'too_small'
        elif k % 12 == 6 and c['drange'][0] != c['drange'][1]:
            # theta*dmin exactly ON the smallest tabulated aperture of one band (legal), with a dmin that the log-uniform grid
            # reproduces one ulp low (10**log10(8) = 7.999999999999999)
            ratio = c['drange'][1] / c['drange'][0]
            c['drange'] = [8.0, 8.0 * ratio]
            j = rng.randrange(len(c['wav']))
            for jj in range(len(c['wav'])):
                rmin = c['theta'][jj] * 8.0 * 1000.0
                shift = (rmin if jj == j else rmin * 0.7) / c['aps'][jj][0]
                c['aps'][jj] = [a * shift for a in c['aps'][jj]]
                c['aps'][jj][0] = rmin if jj == j else c['aps'][jj][0]
            c['kind'] = 'on_edge'
            if k % 24 == 6:       # the aperture table stored in single precision, as in the published packages (all values are single-precision numbers)
                import numpy as np
                new = [sorted(set(float(np.float32(a)) for a in row)) for row in c['aps']]
                if all(len(a) == len(b) for a, b in zip(new, c['aps'])):
                    c['aps'], c['ap_dtype'] = new, 'float32'
        cases.append(c)
    # beyond the property (DESIGN 0.2): ConvolvedFluxes.find_radius_sigma / find_radius_cumul called directly on random tables and
    # compared with RadiusM; a disagreement is a NOTE in the evidence, not a verdict on C02
    for k in range(40 if tier == 'quick' else 600):
        nap, nm = rng.randint(1, 8), rng.randint(1, 4)
        aps = sorted(set(rng.dyadic(1.0, 4000.0, 10) for _ in range(nap)))
        fl = []
        for _ in range(nm):
            row = [rng.dyadic(0.5, 40.0, 8) for _ in aps]
            if rng.random() < 0.6:
                row = sorted(row)
            fl.append(row)
        cases.append(dict(kind='radius', aps=aps, fl=fl, fracs=[0.5, rng.choice([0.25, 0.75, 0.125]), rng.choice([0.1, 0.3, 0.9, 0.99])]))
    return cases


def impl(case):
    if case.get('kind') == 'radius':
        return _impl_radius(case)
    return fitcase.impl_fit(case)


def _impl_radius(case):
    import numpy as np
    from astropy import units as u
    from sedfitter.convolved_fluxes import ConvolvedFluxes
    fl = np.array(case['fl'], dtype=float)
    c = ConvolvedFluxes(wavelength=1.0 * u.micron, model_names=np.array(['m%d' % i for i in range(len(fl))], dtype='S30'),
                        apertures=np.array(case['aps'], dtype=float) * u.au, flux=fl * u.mJy, error=fl * 0.0 * u.mJy)
    return dict(sigma=[[float(x) for x in c.find_radius_sigma(fr).to(u.au).value] for fr in case['fracs']],
                cumul=[[float(x) for x in c.find_radius_cumul(fr).to(u.au).value] for fr in case['fracs']])


def _judge_radius(case, im, mo):
    tags, notes = ['kind=radius', 'nap=%d' % len(case['aps'])], []
    if 'exc' in im:
        return dict(disagree=[], fail=[], notes=['find_radius_* raised %s' % im.get('msg', im['exc'])], nontrivial=False, tags=tags + ['radius=raised'])
    aps = [F(a) for a in case['aps']]
    t = 0
    for what in ('sigma', 'cumul'):
        for fi, fr in enumerate(case['fracs']):
            for mi, row in enumerate(case['fl']):
                ans = mo[t]
                t += 1
                if isinstance(ans, tuple):
                    notes.append('driver: %r' % (ans,))
                    continue
                fl = [F(x) for x in row]
                if what == 'sigma':
                    sg = [fl[0] / aps[0] ** 2] + [(fl[j] - fl[j - 1]) / (aps[j] ** 2 - aps[j - 1] ** 2) for j in range(1, len(aps))]
                    thr, big = F(fr) * max(sg), max(abs(x) for x in sg)
                    tie = any(abs(x - thr) < big * Fraction(1, 10 ** 6) for x in sg)
                else:
                    req = F(fr) * fl[-1]
                    tie = any(x != req and abs(x - req) < fl[-1] * Fraction(1, 10 ** 9) for x in fl) or (F(fr) * F(row[-1]) != F(fr * row[-1]) and any(x == req for x in fl))
                if tie:
                    tags.append('radius=tie-skipped')
                    continue
                got = im[what][fi][mi]
                if abs(got - float(ans)) > 1e-8 * float(aps[-1]):
                    notes.append('find_radius_%s(%r) on apertures %r fluxes %r: implementation %r, RadiusM %r' % (what, fr, case['aps'], row, got, float(ans)))
                    tags.append('radius=differs')
                else:
                    tags.append('radius=agree')
    return dict(disagree=[], fail=[], notes=notes[:3], nontrivial=False, tags=tags, evals=t)


shrink = fitcase.shrink


MODEL_NEEDS_IMPL = True


def model_requests(case, im=None):
    import numpy as np
    if case.get('kind') == 'radius':
        return [(op, [F(fr), [F(a) for a in case['aps']], [F(x) for x in row]])
                for op in ('radius_sigma', 'radius_cumul') for fr in case['fracs'] for row in case['fl']]
    d0, d1 = case['drange']
    k = fitcase.decades(case)
    L = float(k) if k is not None else float(np.log10(d1 / d0))      # a whole number of decades is known exactly
    ds, logds = fitcase.grid_of(case)
    reqs = [fitcase.model_request(case),
            ('ndist_g', [F(1e-10), F(L), F(case['logd_step'])]),      # GridGuard.ndist_g: the count with the code's guard against rounding (F64)
            ('gridlog', [F(float(np.log10(d0))), F(float(np.log10(d1))), max(len(ds), 2)])]
    # remove_resolved=True: FitMask.fit3_pkg_masked with the implementation's own `extended` array as the mask
    if isinstance(im, dict) and im.get('rr_ext') and isinstance(im.get('rr'), dict) and im['rr'].get('n_distances') == len(ds):
        op, args = reqs[0]
        reqs.append(('fit3_pkg_masked', args + [im['rr_ext']]))
        reqs.append(('resolved_pkg', [args[6], args[7], args[9]]))       # the mask itself, as ResolvedM computes it (beyond the property: NOTE only)
    return reqs


def _interp_clamp(aps, fl, r):
    aps, fl = [F(a) for a in aps], [F(x) for x in fl]
    if r > aps[-1]:
        return fl[-1]
    for i in range(len(aps) - 1):
        if aps[i] <= r <= aps[i + 1]:
            return fl[i] + (r - aps[i]) * (fl[i + 1] - fl[i]) / (aps[i + 1] - aps[i])
    raise ValueError('below table')


def judge(case, im, mo):
    if case.get('kind') == 'radius':
        return _judge_radius(case, im, mo)
    tol8 = 1e-8      # (single-precision aperture tables were compared at 1e-6, then 1e-4, until the repair F57: the interpolation is done in double precision now)
    import numpy as np
    tags = ['nb=%d' % len(case['wav']), 'nm=%d' % len(case['names']), 'kind=' + case.get('kind', 'ok'),
            'drange=%s' % ('equal' if case['drange'][0] == case['drange'][1] else 'range')]
    if any(isinstance(m, tuple) for m in mo):
        return dict(disagree=['driver %r' % ([m for m in mo if isinstance(m, tuple)][:1],)], fail=[], nontrivial=False)
    (m11, alaw, opt), nmodel, glog = mo[:3]
    disagree, fail, notes = [], [], []
    too_small_model = (opt == [])
    # the documented refusal, evaluated directly
    d0 = case['drange'][0]
    too_small_doc = any(F(t) * F(d0) * 1000 < F(a[0]) for t, a in zip(case['theta'], case['aps']))
    if 'exc' in im:
        if im['exc'] != 'too_small':
            return dict(disagree=['implementation raised ' + im['msg']], fail=['raised: %s' % im['msg']], nontrivial=False, tags=tags)
        if not too_small_model:
            disagree.append('implementation refuses the apertures, model does not')
        if not too_small_doc:
            fail.append('refusal: apertures refused although theta*dmin is not below the smallest tabulated aperture')
        return dict(disagree=disagree, fail=fail, nontrivial=True, tags=tags + ['refused'])
    if too_small_model:
        disagree.append('model refuses the apertures, implementation does not')
    if too_small_doc:
        fail.append('refusal: theta*dmin below the smallest aperture was accepted')
        return dict(disagree=disagree, fail=fail, nontrivial=True, tags=tags)
    if not (F(m11) > Fraction(1, 10 ** 9)):
        return dict(disagree=[], fail=[], nontrivial=False, tags=tags + ['singular-skipped'])
    res = opt[0]
    ds, logds = fitcase.grid_of(case)
    d0, d1 = case['drange']
    # ---- grid
    if d0 == d1:
        if im['n_distances'] != 1:
            fail.append('grid: dmin==dmax gives %d distances' % im['n_distances'])
    else:
        kdec = fitcase.decades(case)
        L = F(kdec) if kdec is not None else F(float(np.log10(d1 / d0)))
        x = 1 + L / F(case['logd_step'])
        frac = x - math.floor(x)
        if kdec is not None:
            # a whole number of decades: the number of trial distances is decidable exactly
            nex, ok = fitcase.n_grid(case)
            tags.append('grid=decades')
            if im['n_distances'] != nex and im['n_distances'] not in ok:
                fail.append('grid: %d trial distances for the range [%r, %r] kpc (%d decade(s)) and step %r; the fewest with spacing <= step are %d'
                            % (im['n_distances'], d0, d1, kdec, case['logd_step'], nex))
        elif frac == 0 or min(frac, 1 - frac) > Fraction(1, 10 ** 9):      # an exact whole number of steps is decidable; a near-integer is a rounding tie
            if im['n_distances'] != nmodel:
                disagree.append('n_distances: implementation %d, model %d' % (im['n_distances'], nmodel))
            n = im['n_distances']
            # fewest points whose spacing does not exceed the step, both ends included
            if not (n >= 2 and L / (n - 1) <= F(case['logd_step']) and (n == 2 or L / (n - 2) > F(case['logd_step']))):
                fail.append('grid: %d distances for L=%r step=%r is not the fewest with spacing <= step' % (n, float(L), case['logd_step']))
        if im['n_distances'] == len(glog):
            for a, b in zip(im['logd'], glog):
                if not close(a, b, 1e-12, 1e-13):
                    disagree.append('grid log-distance %r vs model %r' % (a, float(b)))
                    break
        lo, hi = float(np.log10(d0)), float(np.log10(d1))
        g = im['logd']
        if abs(g[0] - lo) > 1e-12 or abs(g[-1] - hi) > 1e-12 or any(abs((g[i + 1] - g[i]) - (hi - lo) / (len(g) - 1)) > 1e-11 for i in range(len(g) - 1)):
            fail.append('grid: not uniform in log distance between both ends of the range')
    if im['n_distances'] != len(ds):
        return dict(disagree=disagree, fail=fail, nontrivial=False, tags=tags + ['grid-near-tie'])
    # ---- rows
    lo, hi = F(case['av_range'][0]), F(case['av_range'][1])
    ks = [fitcase.k_law(case['ext'], w) for w in case['wav']]
    nontrivial = False
    for i, mid in enumerate(im['model_id']):
        name = im['model_name'][i]
        if name != case['names'][mid]:
            fail.append('row: row %d names %s but carries index %d' % (i, name, mid))
            continue
        r = res[mid]
        d3, k = fitcase.cmp3d_row(im, i, r, tol8)
        for x in d3:
            (fail if x.startswith('scale') or 'not the grid minimum' in x else disagree).append(('gridmin: ' if 'minimum' in x else 'scale: ' if x.startswith('scale') else '') + '%s: %s' % (name, x))
        if len(ds) > 1 and fitcase.canon_chi(im['chi2'][i]) != 'HUGE':
            nontrivial = True
        if not (lo - F(1e-9) <= F(im['av'][i]) <= hi + F(1e-9)):
            fail.append('range: A_V %r of %s outside the range' % (im['av'][i], name))
        # documented flux at the reported distance, evaluated independently
        d = F(ds[k])
        for j in range(len(case['wav'])):
            sf = _interp_clamp(case['aps'][j], case['flux'][mid][j], F(case['theta'][j]) * d * 1000) / (d * d)
            want = float(np.log10(float(sf))) + im['av'][i] * float(ks[j])
            if abs(im['model_fluxes'][i][j] - want) > tol8 * (1 + abs(want)):
                fail.append('flux: predicted flux of %s in band %d is %r; interpolated flux x (1kpc/d)^2 reddened by the reported A_V gives %r' % (name, j, im['model_fluxes'][i][j], want))
                break
        if k == r[4]:
            for j, (a, b) in enumerate(zip(im['model_fluxes'][i], r[3])):
                if not close(a, b, tol8 / 10, tol8 / 10):
                    disagree.append('predicted flux %d of %s: %r vs model %r' % (j, name, a, float(b)))
                    break
    # the same source fitted with remove_resolved=True: every row must still describe one model at the reported (A_V, distance)
    rr = im.get('rr')
    if isinstance(rr, dict) and 'exc' in rr:
        fail.append('raised: remove_resolved=True raised %s' % rr['exc'])
    elif isinstance(rr, dict):
        tags.append('rr-differs=%s' % (rr['chi2'] != im['chi2']))
        # correspondence with FitMask.fit3_pkg_masked (mask = the implementation's own array)
        if len(mo) > 3 and not isinstance(mo[3], tuple) and mo[3] and sorted(rr['model_id']) == list(range(len(case['names']))):
            mres = mo[3][0]
            for i, mid in enumerate(rr['model_id']):
                d3, _ = fitcase.cmp3d_row(rr, i, mres[mid], tol8)
                for x in d3:
                    disagree.append('remove_resolved=True, %s: %s' % (rr['model_name'][i], x))
                if d3:
                    break
        # beyond the property: the `extended` array itself against ResolvedM.resolved_pkg (entries near a tie are not compared)
        if len(mo) > 4 and not isinstance(mo[4], tuple) and mo[4] and im.get('rr_ext'):
            ncmp = nbad = 0
            for mid, one in enumerate(mo[4]):
                if not one:          # a surface brightness was +inf or nan: outside the model
                    tags.append('mask=unmodelled')
                    continue
                bands, ext = one[0]
                for j, (radius, thr, sg) in enumerate(bands):
                    big = max(abs(x) for x in sg)
                    if any(abs(x - thr) < big * Fraction(1, 10 ** 6) for x in sg):
                        continue
                    for k in range(len(ds)):
                        a = F(case['theta'][j]) * F(ds[k]) * 1000
                        if abs(a - radius) <= Fraction(1, 10 ** 6) * max(a, radius):
                            continue
                        ncmp += 1
                        if bool(ext[k][j]) != bool(im['rr_ext'][mid][k][j]):
                            nbad += 1
                            if len(notes) < 2:
                                notes.append('extended[%s, distance %d, band %d]: implementation %r, ResolvedM %r (radius %r AU, aperture %r AU)'
                                             % (case['names'][mid], k, j, bool(im['rr_ext'][mid][k][j]), bool(ext[k][j]), float(radius), float(a)))
            tags.append('mask=differs' if nbad else 'mask=agree' if ncmp else 'mask=ties-only')
        if sorted(rr['model_id']) != list(range(len(case['names']))):
            fail.append('row: remove_resolved=True: model_id %r is not a permutation' % (rr['model_id'],))
        else:
            fin = [fitcase.canon_chi(x) for x in rr['chi2']]
            vals = [x for x in fin if x not in ('HUGE', 'nan')]
            if vals != sorted(vals) or any(a in ('HUGE', 'nan') and b not in ('HUGE', 'nan') for a, b in zip(fin, fin[1:])):
                fail.append('row: remove_resolved=True: chi2 %r is not in non-decreasing order' % (rr['chi2'][:6],))
            for i, mid in enumerate(rr['model_id']):
                if rr['model_name'][i] != case['names'][mid]:
                    fail.append('row: remove_resolved=True: row %d names %s but carries index %d' % (i, rr['model_name'][i], mid))
                    break
                if not math.isfinite(rr['chi2'][i]) or rr['chi2'][i] >= 1e29:
                    continue
                k = min(range(len(logds)), key=lambda t: abs(logds[t] - rr['sc'][i]))
                if abs(logds[k] - rr['sc'][i]) > 1e-9:
                    fail.append('scale: remove_resolved=True: scale %r of %s is not on the distance grid' % (rr['sc'][i], rr['model_name'][i]))
                    break
                d = F(ds[k])
                bad = False
                if im.get('rr_ext'):
                    sf_ = case['src']
                    used = [f in (1, 4) or (f in (2, 3) and e != 0) for f, e in zip(sf_['flags'], sf_['err'])]
                    hit = [j for j in range(len(case['wav'])) if used[j] and im['rr_ext'][mid][k][j]]
                    if hit:
                        fail.append('resolved: remove_resolved=True reports %s at distance %r kpc although the fitter itself marks it larger than the aperture there in band %d (a band that constrains the fit)'
                                    % (rr['model_name'][i], ds[k], hit[0]))
                        break
                for j in range(len(case['wav'])):
                    sf = _interp_clamp(case['aps'][j], case['flux'][mid][j], F(case['theta'][j]) * d * 1000) / (d * d)
                    want = float(np.log10(float(sf))) + rr['av'][i] * float(ks[j])
                    if abs(rr['model_fluxes'][i][j] - want) > tol8 * (1 + abs(want)):
                        fail.append('flux: remove_resolved=True: predicted flux of %s in band %d is %r; interpolated flux x (1kpc/d)^2 at the reported distance, reddened by the reported A_V, gives %r'
                                    % (rr['model_name'][i], j, rr['model_fluxes'][i][j], want))
                        bad = True
                        break
                if bad:
                    break
    # version-2 package through memory-mapped arrays (the Fitter default): the models the fitter itself marks as resolved must be gone
    mm = im.get('rr_mm')
    if isinstance(mm, dict) and 'exc' in mm:
        fail.append('raised: remove_resolved=True on memory-mapped arrays raised %s' % mm['exc'])
    elif isinstance(mm, dict) and sorted(mm['model_id']) == list(range(len(case['names']))):
        sf_ = case['src']
        used = [f in (1, 4) or (f in (2, 3) and e != 0) for f, e in zip(sf_['flags'], sf_['err'])]
        tags.append('rr-mm')
        for i, mid in enumerate(mm['model_id']):
            if not math.isfinite(mm['chi2'][i]) or mm['chi2'][i] >= 1e29:
                continue
            k = min(range(len(logds)), key=lambda t: abs(logds[t] - mm['sc'][i]))
            hit = [j for j in range(len(case['wav'])) if used[j] and im['rr_mm_ext'][mid][k][j]]
            if hit:
                fail.append('resolved: remove_resolved=True (memory-mapped arrays) reports %s at distance %r kpc although the fitter itself marks it larger than the aperture there in band %d (a band that constrains the fit)'
                            % (mm['model_name'][i], ds[k], hit[0]))
                break
    tags.append('fmt=' + str(case.get('fmt')))
    return dict(disagree=disagree[:5], fail=fail[:5], notes=notes, nontrivial=nontrivial, tags=tags)
