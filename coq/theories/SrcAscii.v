From Coq Require Import List Arith Lia Bool ZArith QArith ZifyNat ZifyBool.
Import ListNotations.
Close Scope Q_scope.
Ltac Zify.zify_post_hook ::= Z.to_euclidean_division_equations.

(* Python-style helpers on lists *)
Fixpoint stride2 {A} (l : list A) : list A :=      (* l[::2] *)
  match l with [] => [] | x :: r => x :: match r with [] => [] | _ :: r' => stride2 r' end end.
Definition stride2_1 {A} (l : list A) : list A := stride2 (tl l).   (* l[1::2] *)
Definition slice {A} (l : list A) (i j : nat) : list A := firstn (j - i) (skipn i l).   (* l[i:j], 0<=i<=j *)

Fixpoint interleave {A} (f e : list A) : list A :=
  match f, e with x :: f', y :: e' => x :: y :: interleave f' e' | _, _ => [] end.

Lemma stride2_interleave {A} (f e : list A) : length f = length e -> stride2 (interleave f e) = f.
Proof. revert e; induction f as [|x f IH]; intros [|y e] H; simpl in *; try lia; [reflexivity|]. f_equal. apply IH; lia. Qed.
Lemma stride2_1_interleave {A} (f e : list A) : length f = length e -> stride2_1 (interleave f e) = e.
Proof. revert e; induction f as [|x f IH]; intros [|y e] H; simpl in *; try lia; [reflexivity|].
  unfold stride2_1 in *. simpl. f_equal. specialize (IH e). destruct (interleave f e) eqn:E.
  - destruct f, e; simpl in *; try lia; try discriminate; reflexivity.
  - simpl in IH. apply IH. lia. Qed.
Lemma length_stride2 {A} (l : list A) : length (stride2 l) = (S (length l)) / 2.
Proof.
  assert (H : forall n (l : list A), length l <= n -> length (stride2 l) = (S (length l)) / 2).
  { induction n as [|n IH]; intros [|x [|y r]] Hl; simpl length in *; try lia; try reflexivity.
    change (length (stride2 (x :: y :: r))) with (S (length (stride2 r))).
    rewrite IH by (simpl length in Hl; lia). simpl length. lia. }
  apply (H (length l)); lia.
Qed.

(* tokens: text plus the results of Python's int() / float() on it (oracle fields) *)
Record token := { t_key : Z; t_int : option Z; t_float : option Q }.
Record rawband := { rb_flag : Z; rb_flux : Q; rb_err : Q }.
Record source := { s_name : Z; s_x : Q; s_y : Q; s_flags : list Z; s_flux : list Q; s_err : list Q }.
Inductive err := E_eof | E_layout | E_flag | E_number.
Inductive outcome (A : Type) := Ok (a : A) | Err (e : err).
Arguments Ok {A}. Arguments Err {A}.

Fixpoint all_some {A B} (f : A -> option B) (l : list A) : option (list B) :=
  match l with [] => Some [] | x :: r => match f x, all_some f r with Some y, Some ys => Some (y :: ys) | _, _ => None end end.
Definition flag_ok (z : Z) : bool := ((0 <=? z) && (z <=? 4) || (z =? 9))%Z.

(* Source.from_ascii, statement by statement *)
Definition from_ascii_m (cols : list token) : outcome source :=
  if length cols <? 3 then Err E_eof else
  match t_float (nth 1 cols (Build_token 0 None None)), t_float (nth 2 cols (Build_token 0 None None)) with
  | Some x, Some y =>
    let n := (length cols - 3) / 3 in                      (* np.int32((len(cols) - 3) / 3) *)
    match all_some t_int (slice cols 3 (3 + n)) with       (* np.array(cols[3:3+n], dtype=int) *)
    | None => Err E_flag
    | Some flags =>
      if negb (forallb flag_ok flags) then Err E_flag else (* valid setter *)
      match all_some t_float (skipn (3 + n) cols) with     (* np.array(cols[3+n:], dtype=float) *)
      | None => Err E_number
      | Some fe =>
        let flux := stride2 fe in let error := stride2_1 fe in
        if negb (length flux =? length flags) then Err E_layout      (* flux setter cross-check *)
        else if negb (length error =? length flags) then Err E_layout (* error setter cross-check *)
        else Ok {| s_name := t_key (nth 0 cols (Build_token 0 None None)); s_x := x; s_y := y;
                   s_flags := flags; s_flux := flux; s_err := error |}
      end
    end
  | _, _ => Err E_number
  end.

Lemma all_some_length {A B} (f : A -> option B) l ys : all_some f l = Some ys -> length ys = length l.
Proof. revert ys; induction l as [|x r IH]; intros ys H; simpl in H.
  - now inversion H.
  - destruct (f x); [|discriminate]. destruct (all_some f r) eqn:E; [|discriminate]. inversion H; subst. simpl. f_equal. now apply IH. Qed.

(* a column count that does not fit 3*(n+1) is never accepted *)
Theorem C20_reject cols s : from_ascii_m cols = Ok s -> exists n, length cols = 3 * (n + 1).
Proof.
  unfold from_ascii_m. destruct (length cols <? 3) eqn:E3; [discriminate|]. apply Nat.ltb_ge in E3.
  destruct (t_float _); [|discriminate]. destruct (t_float _); [|discriminate].
  set (n := (length cols - 3) / 3).
  destruct (all_some t_int _) as [flags|] eqn:Ef; [|discriminate].
  destruct (negb (forallb flag_ok flags)); [discriminate|].
  destruct (all_some t_float _) as [fe|] eqn:Efe; [|discriminate].
  destruct (negb (length (stride2 fe) =? length flags)) eqn:L1; [discriminate|].
  destruct (negb (length (stride2_1 fe) =? length flags)) eqn:L2; [discriminate|].
  intros _. exists n.
  apply negb_false_iff, Nat.eqb_eq in L1. apply negb_false_iff, Nat.eqb_eq in L2.
  apply all_some_length in Ef. apply all_some_length in Efe.
  unfold slice in Ef. rewrite firstn_length, skipn_length in Ef. rewrite skipn_length in Efe.
  rewrite length_stride2 in L1. unfold stride2_1 in L2. rewrite length_stride2 in L2.
  assert (Hn : n = (length cols - 3) / 3) by reflexivity. clearbody n.
  assert (Hfl : length flags = n) by lia.
  (* length fe = len - 3 - n, div2 (S that) = n, and the tail has div2 (that) = n *)
  assert (Htl : length (tl fe) = length fe - 1) by (destruct fe; simpl; lia).
  rewrite Htl in L2.
  lia.
Qed.
Print Assumptions C20_reject.
