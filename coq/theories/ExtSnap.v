(* ExtSnap — Extinction.get_av as it is computed since the repair F25: the query wavelengths and the V wavelength are converted
   to the table's unit in floating point, and a converted value that lies within a relative distance tol (1e-14 in the code) of
   the first or the last tabulated wavelength is moved onto it (Extinction._on_table) before np.interp is called with
   left = right = 0.  The model takes the converted values as they are (exact rationals of the floats) and tol as a parameter. *)
From Coq Require Import QArith Qabs Lqa Lia List Bool.
Import ListNotations.
Open Scope Q_scope.
From SedV Require Import PLin Interp FitModel ExtProofs.

Definition snap1 (tol edge x : Q) : Q := if Qle_bool (Qabs (x - edge)) (tol * Qabs edge) then edge else x.
(* for edge in (wav[0], wav[-1]): x = where(|x - edge| <= tol |edge|, edge, x) *)
Definition on_table (tol : Q) (tab : list pt) (x : Q) : Q := snap1 tol (tab_hi tab) (snap1 tol (tab_lo tab) x).
Definition get_av_snap_m (tol : Q) (tab : list pt) (v t : Q) : Q :=
  -(4#10) * interp0 tab (on_table tol tab t) / fval tab (on_table tol tab v).

Definition near (tol edge x : Q) : Prop := Qabs (x - edge) <= tol * Qabs edge.

Lemma snap1_near tol edge x : near tol edge x -> snap1 tol edge x = edge.
Proof. intros H. unfold snap1. apply le_bool in H. now rewrite H. Qed.
Lemma snap1_far tol edge x : ~ near tol edge x -> snap1 tol edge x = x.
Proof.
  intros H. unfold snap1. destruct (Qle_bool (Qabs (x - edge)) (tol * Qabs edge)) eqn:E; [|reflexivity].
  apply le_bool in E. contradiction.
Qed.

(* a value that is not within the radius of either end is left alone ... *)
Theorem on_table_far tol tab x : ~ near tol (tab_lo tab) x -> ~ near tol (tab_hi tab) x -> on_table tol tab x = x.
Proof. intros Hl Hh. unfold on_table. rewrite (snap1_far _ _ _ Hl). apply snap1_far. exact Hh. Qed.

(* ... one within the radius of the first wavelength lands on it (the table being wider than the radius) ... *)
Theorem on_table_lo tol tab x : near tol (tab_lo tab) x -> ~ near tol (tab_hi tab) (tab_lo tab) ->
  on_table tol tab x = tab_lo tab.
Proof. intros Hl Hw. unfold on_table. rewrite (snap1_near _ _ _ Hl). apply snap1_far. exact Hw. Qed.

(* ... and one within the radius of the last wavelength lands on that *)
Theorem on_table_hi tol tab x : ~ near tol (tab_lo tab) x -> near tol (tab_hi tab) x -> on_table tol tab x = tab_hi tab.
Proof. intros Hl Hh. unfold on_table. rewrite (snap1_far _ _ _ Hl). apply snap1_near. exact Hh. Qed.

(* the ends themselves are fixed points for any non-negative radius *)
Lemma near_self tol edge : 0 <= tol -> near tol edge edge.
Proof.
  intros H. unfold near. setoid_replace (edge - edge) with 0 by ring. simpl.
  apply Qmult_le_0_compat; [exact H|apply Qabs_nonneg].
Qed.

(* away from the ends the repaired function is the plain one (C14_outside / C14_inside apply to it unchanged) *)
Theorem get_av_snap_far tol tab v t :
  ~ near tol (tab_lo tab) t -> ~ near tol (tab_hi tab) t -> ~ near tol (tab_lo tab) v -> ~ near tol (tab_hi tab) v ->
  get_av_snap_m tol tab v t = get_av_m tab v t.
Proof. intros A B C D. unfold get_av_snap_m, get_av_m. now rewrite !on_table_far. Qed.

(* a query within the radius of an end gets the value of that end: -0.4 chi(end)/chi(V), not 0 *)
Theorem get_av_snap_lo tol tab v t : near tol (tab_lo tab) t -> ~ near tol (tab_hi tab) (tab_lo tab) ->
  tab_lo tab <= tab_hi tab ->
  get_av_snap_m tol tab v t == -(4#10) * fval tab (tab_lo tab) / fval tab (on_table tol tab v).
Proof.
  intros Hn Hw Hle. unfold get_av_snap_m. rewrite (on_table_lo tol tab t Hn Hw). unfold interp0.
  destruct (Qlt_le_dec (tab_lo tab) (tab_lo tab)); [lra|]. destruct (Qlt_le_dec (tab_hi tab) (tab_lo tab)); [lra|]. reflexivity.
Qed.

Theorem get_av_snap_hi tol tab v t : ~ near tol (tab_lo tab) t -> near tol (tab_hi tab) t -> tab_lo tab <= tab_hi tab ->
  get_av_snap_m tol tab v t == -(4#10) * fval tab (tab_hi tab) / fval tab (on_table tol tab v).
Proof.
  intros Hl Hh Hle. unfold get_av_snap_m. rewrite (on_table_hi tol tab t Hl Hh). unfold interp0.
  destruct (Qlt_le_dec (tab_hi tab) (tab_lo tab)); [lra|]. destruct (Qlt_le_dec (tab_hi tab) (tab_hi tab)); [lra|]. reflexivity.
Qed.

(* normalisation: the pattern at V is exactly -0.4 whenever the (moved) V wavelength is covered by the table - in particular
   for a table that starts or ends at V up to the rounding of a unit conversion (F25) *)
Theorem get_av_snap_at_V tol tab v :
  tab_lo tab <= on_table tol tab v -> on_table tol tab v <= tab_hi tab -> ~ fval tab (on_table tol tab v) == 0 ->
  get_av_snap_m tol tab v v == -(4#10).
Proof.
  intros H1 H2 H. unfold get_av_snap_m, interp0.
  destruct (Qlt_le_dec (on_table tol tab v) (tab_lo tab)); [lra|].
  destruct (Qlt_le_dec (tab_hi tab) (on_table tol tab v)); [lra|]. field. exact H.
Qed.

(* the radius is relative: nothing farther than tol |edge| from an end is ever moved, in whatever unit the table is stored
   (the seeded fault C14_i replaced it by an absolute one) *)
Theorem on_table_moves_little tol tab x : 0 <= tol ->
  Qabs (on_table tol tab x - x) <= tol * Qabs (tab_lo tab) + tol * Qabs (tab_hi tab).
Proof.
  intros Ht. unfold on_table, snap1.
  pose proof (Qabs_nonneg (tab_lo tab)) as Pl. pose proof (Qabs_nonneg (tab_hi tab)) as Ph.
  assert (Zl : 0 <= tol * Qabs (tab_lo tab)) by (apply Qmult_le_0_compat; assumption).
  assert (Zh : 0 <= tol * Qabs (tab_hi tab)) by (apply Qmult_le_0_compat; assumption).
  destruct (Qle_bool (Qabs (x - tab_lo tab)) (tol * Qabs (tab_lo tab))) eqn:E1.
  - apply le_bool in E1.
    destruct (Qle_bool (Qabs (tab_lo tab - tab_hi tab)) (tol * Qabs (tab_hi tab))) eqn:E2.
    + apply le_bool in E2.
      setoid_replace (tab_hi tab - x) with (- (tab_lo tab - tab_hi tab) + - (x - tab_lo tab)) by ring.
      eapply Qle_trans; [apply Qabs_triangle|]. rewrite !Qabs_opp. lra.
    + setoid_replace (tab_lo tab - x) with (- (x - tab_lo tab)) by ring. rewrite Qabs_opp. lra.
  - destruct (Qle_bool (Qabs (x - tab_hi tab)) (tol * Qabs (tab_hi tab))) eqn:E2.
    + apply le_bool in E2. setoid_replace (tab_hi tab - x) with (- (x - tab_hi tab)) by ring. rewrite Qabs_opp. lra.
    + setoid_replace (x - x) with 0 by ring. simpl. lra.
Qed.

Example snap_example :
  let tab := [(55#100, 4); (1, 2); (2, 1)] in
  on_table (1#100) tab (5501#10000) = 55#100 /\ on_table (1#100) tab (3#2) = 3#2 /\
  get_av_snap_m (1#100) tab (5501#10000) (5499#10000) == -(4#10) /\ get_av_m tab (55#100) (5499#10000) == 0.
Proof. cbv zeta. repeat split. Qed.
