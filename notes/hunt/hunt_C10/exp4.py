import sys; sys.path.insert(0, 'hunt_out')
from common import *
from sedfitter import fit, Fitter
from sedfitter.extinction import Extinction
from sedfitter.source import Source
tmp = tempfile.mkdtemp()
md = os.path.join(tmp, 'm'); os.mkdir(md)
build(md, 2, True, n=6)
ext = Extinction()
ext.wav = np.logspace(2., 7., 40) * u.AA
ext.chi = (ext.wav.value ** -1.5 * 1e5) * u.m ** 2 / u.kg
lines = [
 "s1 0.0 0.0 1 1 1 0.2 0.1 1.3 0.2 1.5 0.3",
 "",
 "s2 1.0 2.0 1 0 1 0.2 0.05 1.2 0.1 1.8 0.3",
 "s4 1.0 2.0 1 4 9 0.2 0.05 -0.2 0.1 1.8 0.3",
]
df = os.path.join(tmp, 'd'); open(df, 'w').write("\n".join(lines) + "\n")
filt = ['bob', 34000. * u.AA, 'eve']; aps = [1./60, 3./60, 3./3600/180*np.pi] * u.arcmin
aps = u.Quantity([1 * u.arcsec, 0.05 * u.arcmin, 1e-5 * u.rad])
kw = dict(extinction_law=ext, distance_range=[1000., 2000.] * u.pc, av_range=[0., 0.1])
out = os.path.join(tmp, 'o')
quiet(fit, df, filt, aps, md, out, n_data_min=1, output_format=('A', 0), output_convolved=True, remove_resolved=True, **kw)
meta, recs = read_all(out)
print([r.source.name for r in recs])
fitter = quiet(Fitter, filt, aps, md, remove_resolved=True, **kw)
print(meta.filters)
print(fitter.filters)
print(meta.filters == fitter.filters)
print(meta.extinction_law.wav.unit, meta.extinction_law.chi.unit, arr_eq(meta.extinction_law.wav.value, ext.wav.value), arr_eq(meta.extinction_law.chi.value, ext.chi.value))
for r in recs:
    e = fitter.fit(Source.from_ascii([l for l in lines if l.startswith(r.source.name)][0]))
    print(info_eq(r, e), r.chi2[:3])
# use_memmap False comparison
fitter2 = quiet(Fitter, filt, aps, md, remove_resolved=True, use_memmap=False, **kw)
e2 = fitter2.fit(Source.from_ascii(lines[0]))
print("memmap False vs file:", info_eq(recs[0], e2), np.max(np.abs(recs[0].chi2 - e2.chi2)))
