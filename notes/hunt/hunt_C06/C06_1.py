"""
C06 (and C07) - cube packages whose flux.fits is stored in single precision.

_convolve_model_dir_2 casts the re-binned response R_i to the dtype of the cube
(`response = f.response.astype(sed_val.dtype)`) and then evaluates
sum(F*R) and sqrt(sum((E*R)**2)) in that dtype.  For a float32 cube (the usual dtype for large
model cubes, and a perfectly legal SEDCube written by the public API) this

 (a) squares E*R in float32: for SED uncertainties below ~1e-18 mJy the squares are
     sub-normal / underflow, so the "quadrature" error is wrong by ~1e-3 relative and
     then exactly 0.0 although every E_i > 0;
 (b) is only ~1e-7 accurate even for ordinary magnitudes (error 0.129066393 instead of
     0.129066401 for E_i = 0.25 mJy), i.e. far above double-precision rounding;
 (c) differs from the per-file package built from the very same float32 numbers
     (the per-file path promotes to float64), contradicting C07 "a per-file package
     and a cube package built from the same SEDs produce the same fluxes and errors".
"""
import os
import sys
import tempfile

import numpy as np
from astropy import units as u
from astropy.table import Table

from sedfitter.filter import Filter
from sedfitter.sed import SED, SEDCube
from sedfitter.convolve import convolve_model_dir
from sedfitter.convolved_fluxes import ConvolvedFluxes


def conf(d, version):
    with open(os.path.join(d, 'models.conf'), 'w') as f:
        f.write("name = test\nlength_subdir = 0\naperture_dependent = yes\nlogd_step = 0.02\n")
        if version == 2:
            f.write("version = 2\n")


def pars(d, names):
    t = Table()
    t['MODEL_NAME'] = np.array(names, dtype='S30')
    t['par1'] = np.arange(len(names), dtype=float)
    t.write(os.path.join(d, 'parameters.fits'))


names = ['bright', 'faint', 'fainter']
wav = np.logspace(-1., 3., 40) * u.micron            # SED grid, 40 points
nu = wav.to(u.Hz, equivalencies=u.spectral())
ap = np.array([100., 1000.]) * u.au

# flat spectra F_nu = c with flat uncertainties, exactly representable in float32
c = np.array([3.0, 1e-18, 1e-18], dtype=np.float32)
e = np.array([0.25, 1e-21, 1e-24], dtype=np.float32)
val = np.ones((3, 2, 40), dtype=np.float32) * c[:, None, None]
unc = np.ones((3, 2, 40), dtype=np.float32) * e[:, None, None]

# a normalised 12-point filter between 1 and 3 micron: well inside the SED range
fw = np.linspace(3., 1., 12) * u.micron
filt = Filter(name='F', central_wavelength=2. * u.micron,
              nu=fw.to(u.Hz, equivalencies=u.spectral()),
              response=np.array([0., 1, 2, 3, 4, 5, 5, 4, 3, 2, 1, 0.]))
filt.normalize()

# reference in double precision, with the package's own R_i
R = filt.rebin(np.sort(nu)).response
assert abs(R.sum() - 1) < 1e-13
c64, e64 = c.astype(float), e.astype(float)
flux_ref = c64 * R.sum()
err_ref = e64 * np.sqrt(np.sum(R ** 2))

# cube package (float32)
d2 = tempfile.mkdtemp()
cube = SEDCube()
cube.names = np.array(names)
cube.distance = 1 * u.kpc
cube.wav = wav
cube.apertures = ap
cube.val = val * u.mJy
cube.unc = unc * u.mJy
assert cube.val.dtype == np.float32
cube.write(os.path.join(d2, 'flux.fits'))
conf(d2, 2)
pars(d2, names)
convolve_model_dir(d2, [filt])
c2 = ConvolvedFluxes.read(os.path.join(d2, 'convolved', 'F.fits'))

# per-file package with the same float32 numbers
d1 = tempfile.mkdtemp()
os.mkdir(os.path.join(d1, 'seds'))
for i, n in enumerate(names):
    s = SED()
    s.name = n
    s.distance = 1 * u.kpc
    s.wav = wav
    s.nu = nu
    s.apertures = ap
    s.flux = val[i] * u.mJy
    s.error = unc[i] * u.mJy
    s.write(os.path.join(d1, 'seds', n + '_sed.fits'))
conf(d1, 1)
pars(d1, names)
convolve_model_dir(d1, [filt])
c1 = ConvolvedFluxes.read(os.path.join(d1, 'convolved', 'F.fits'))

print()
print("reference      flux", flux_ref, "error", err_ref)
print("per-file       flux", c1.flux[:, 0].value, "error", c1.error[:, 0].value)
print("cube (float32) flux", c2.flux[:, 0].value, "error", c2.error[:, 0].value)

# the per-file package is right to rounding
assert np.allclose(c1.flux[:, 0].value, flux_ref, rtol=1e-12, atol=0)
assert np.allclose(c1.error[:, 0].value, err_ref, rtol=1e-12, atol=0)

msgs = []
rel_err = np.abs(c2.error[:, 0].value / err_ref - 1)
rel_flux = np.abs(c2.flux[:, 0].value / flux_ref - 1)
if c2.error[2, 0].value == 0.:
    msgs.append("quadrature clause: model 'fainter' has E_i = 1e-24 mJy > 0 in every bin, "
                "expected error %.6e mJy, cube convolution wrote exactly 0.0" % err_ref[2])
if rel_err[1] > 1e-9:
    msgs.append("quadrature clause: model 'faint' (E_i = 1e-21 mJy) error is off by %.1e relative "
                "(got %.8e, expected %.8e)" % (rel_err[1], c2.error[1, 0].value, err_ref[1]))
if rel_flux[0] > 1e-12:
    msgs.append("flat-spectrum clause: F_nu = 3 mJy through a normalised filter inside the SED range "
                "returns %.12f (rel. dev. %.1e), per-file package returns %.15f"
                % (c2.flux[0, 0].value, rel_flux[0], c1.flux[0, 0].value))
if not np.allclose(c2.error.value, c1.error.value, rtol=1e-9, atol=0):
    msgs.append("C07 clause: per-file and cube packages built from the same (float32) SEDs give "
                "different errors: %s vs %s" % (c1.error[:, 0].value, c2.error[:, 0].value))

assert not msgs, "float32 cube package violates C06/C07:\n - " + "\n - ".join(msgs)
print("no violation")
