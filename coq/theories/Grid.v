From Coq Require Import QArith Lqa Lia List Bool ZArith Qround.
Import ListNotations.
Open Scope Q_scope.

(* n = ceil(1 + L/step) ; grid of n points from lo to hi = lo + L *)
Definition ndist (L step : Q) : Z := Qceiling (1 + L / step).

Lemma Qceiling_bounds (x : Q) : inject_Z (Qceiling x) - 1 < x /\ x <= inject_Z (Qceiling x).
Proof.
  split; [|apply Qle_ceiling].
  pose proof (Qceiling_lt x) as H. unfold Z.sub in H. rewrite inject_Z_plus, inject_Z_opp in H.
  change (inject_Z 1) with 1 in H. lra.
Qed.

Theorem C02_grid L step : 0 < L -> 0 < step ->
  let n := ndist L step in
  (2 <= n)%Z /\
  L / (inject_Z n - 1) <= step /\                                (* spacing fine enough *)
  ((2 < n)%Z -> step < L / (inject_Z n - 2)).                     (* one point fewer would be too coarse *)
Proof.
  intros HL Hs n.
  destruct (Qceiling_bounds (1 + L / step)) as [B1 B2]. fold (ndist L step) in B1, B2. fold n in B1, B2.
  assert (Hq : 0 < L / step) by (apply Qlt_shift_div_l; lra).
  assert (Hn : 1 < inject_Z n) by lra.
  assert (Hn2 : (2 <= n)%Z).
  { destruct (Z_lt_le_dec n 2) as [Hlt|Hge]; [|exact Hge].
    exfalso. assert (X : (n <= 1)%Z) by lia. rewrite Zle_Qle in X. change (inject_Z 1) with 1 in X. change (inject_Z 3) with 3 in X. lra. }
  split; [exact Hn2|]. split.
  - apply Qle_shift_div_r; [lra|].
    assert (L / step <= inject_Z n - 1) by lra.
    assert (E : L == (L / step) * step) by (field; lra).
    rewrite E at 1. rewrite (Qmult_comm step). apply Qmult_le_compat_r; lra.
  - intros H3. assert (X : (3 <= n)%Z) by lia. rewrite Zle_Qle in X. change (inject_Z 1) with 1 in X. change (inject_Z 3) with 3 in X.
    apply Qlt_shift_div_l; [lra|].
    assert (inject_Z n - 2 < L / step) by lra.
    assert (E : L == (L / step) * step) by (field; lra).
    rewrite E. rewrite (Qmult_comm step). apply Qmult_lt_compat_r; lra.
Qed.
Print Assumptions C02_grid.
