(* C13 — aperture interpolation: exact at tabulated radii, linear between, clamped above.
   Model: FitModel.interp_clamp_m (ConvolvedFluxes.interpolate / SED.interpolate for one model and one radius: clamp above the
   largest aperture, refuse below the smallest, interp1d = exact piecewise-linear PLin.fval, single aperture repeated),
   ApertureM.interp_clamp_unit_m (requests in another length unit), ApertureM.aperture_at / sed_interp_var_m
   (SED.interpolate_variable).  Proofs: Interp, Fit3Proofs, ApertureM. *)
From Coq Require Import QArith List Qminmax.
Import ListNotations.
From SedV Require Import PLin Interp FitModel Fit3Proofs ApertureM LinBracket.
Open Scope Q_scope.

Theorem C13_knot : forall tab p, incr tab -> (2 <= length tab)%nat -> In p tab ->
  exists v, interp_clamp_m tab (fst p) = Some v /\ v == snd p.
Proof. exact interp_clamp_knot. Qed.

Theorem C13_between : forall pre p0 p1 post r, incr (pre ++ p0 :: p1 :: post) -> fst p0 < r -> r <= fst p1 ->
  tab_lo (pre ++ p0 :: p1 :: post) <= r -> r <= tab_hi (pre ++ p0 :: p1 :: post) ->
  interp_clamp_m (pre ++ p0 :: p1 :: post) r = Some (lin p0 p1 r).
Proof.
  intros pre p0 p1 post r Hi H0 H1 Hlo Hhi.
  assert (L : (2 <= length (pre ++ p0 :: p1 :: post))%nat) by (rewrite app_length; simpl; rewrite <- plus_n_Sm, <- plus_n_Sm; apply le_n_S, le_n_S, Nat.le_0_l).
  rewrite (interp_clamp_inside _ r L Hlo Hhi). now rewrite (fval_between pre p0 p1 post r Hi H0 H1).
Qed.

Theorem C13_above : forall tab r, (2 <= length tab)%nat -> tab_lo tab <= r -> tab_hi tab < r ->
  interp_clamp_m tab r = Some (snd (last tab (0, 0))).
Proof. exact interp_clamp_above. Qed.

Theorem C13_below : forall tab r, (2 <= length tab)%nat -> r < tab_lo tab -> interp_clamp_m tab r = None.
Proof. exact interp_clamp_below. Qed.

Theorem C13_single : forall p r, interp_clamp_m [p] r = Some (snd p).
Proof. exact interp_clamp_single. Qed.

(* the same table and request expressed in another length unit give the same value *)
Theorem C13_units : forall k l t, 0 < k -> incr l -> fval (scalex k l) (k * t) == fval l t.
Proof. exact fval_scale. Qed.

(* the wavelength-dependent variant: at a filter wavelength the aperture used is that filter's aperture
   (for log10 / 10** oracles that are mutually inverse at the filter apertures) *)
Theorem C13_variable : forall lg pw, (forall a b, a == b -> pw a == pw b) ->
  forall filt p, incr (lgtab lg filt) -> In p filt -> pw (lg (snd p)) == snd p ->
  aperture_at lg pw filt (fst p) == snd p.
Proof. exact aperture_at_knot. Qed.

(* between two knots the interpolated flux (the value C13_between returns) never leaves the range of the two bracketing
   table values: no overshoot *)
Theorem C13_bracketed : forall p0 p1 r, fst p0 < r -> r <= fst p1 ->
  Qmin (snd p0) (snd p1) <= lin p0 p1 r /\ lin p0 p1 r <= Qmax (snd p0) (snd p1).
Proof. exact lin_bracketed. Qed.

(* where the tabulated flux does not decrease with aperture, neither does the interpolated flux *)
Theorem C13_monotone : forall p0 p1 r r', fst p0 < fst p1 -> snd p0 <= snd p1 -> r <= r' -> lin p0 p1 r <= lin p0 p1 r'.
Proof. exact lin_monotone. Qed.

Example C13_example : interp_clamp_m [(1, 10); (3, 30); (5, 20)] 4 = Some (fval [(1, 10); (3, 30); (5, 20)] 4)
  /\ fval [(1, 10); (3, 30); (5, 20)] 4 == 25 /\ interp_clamp_m [(1, 10); (3, 30); (5, 20)] 9 = Some 20 /\ interp_clamp_m [(1, 10); (3, 30); (5, 20)] (1#2) = None.
Proof. repeat split. Qed.
