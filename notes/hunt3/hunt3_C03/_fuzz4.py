import sys, itertools
sys.path.insert(0, '/tmp/hunt3_C03/hunt_out')
from _common import *
from sedfitter.fit import Fitter
from sedfitter.sed import SEDCube
from sedfitter.convolved_fluxes import ConvolvedFluxes
rng = np.random.default_rng(4)
nm, nw = 8, 30
names = np.array(['m_%d' % (i * 7 % 11) for i in range(nm)])
cwav = np.logspace(-1, 2, nw)
aps = np.logspace(1, 6, 8) * u.au
ext = extinction()
def write_v2(order, dep, val, conv_orders, cfl, wav_desc=False):
    d = tempfile.mkdtemp(); os.mkdir(d + '/convolved')
    c = SEDCube()
    c.names = names[order]; c.distance = 1 * u.kpc
    w = cwav; v = val[order]
    if wav_desc:
        w = w[::-1]; v = v[:, :, ::-1]
    c.wav = w * u.micron
    if dep: c.apertures = aps
    c.val = v * u.mJy; c.unc = v * 0.01 * u.mJy
    c.write(d + '/flux.fits')
    with open(d + '/models.conf', 'w') as f:
        f.write("name = test\nlength_subdir = 0\naperture_dependent = %s\nlogd_step = 0.02\nversion = 2\n" % ('yes' if dep else 'no'))
    for i, (fn, wv) in enumerate([('fa', 2.2), ('fb', 12.)]):
        o = conv_orders[i]
        cf = ConvolvedFluxes(wavelength=wv * u.micron, model_names=names[o], apertures=aps if dep else None,
                             flux=cfl[o, :, i] * u.mJy, error=cfl[o, :, i] * 0.01 * u.mJy)
        cf.write(d + '/convolved/' + fn + '.fits')
    return d
def cmp(a, b):
    da, db = result_dict(a), result_dict(b)
    assert set(da) == set(db), (set(da), set(db))
    w = 0
    for k in da:
        for x, y in zip(da[k], db[k]):
            if x == y: continue
            w = max(w, abs(x - y) / max(1, abs(x)))
    return w
filt = ['fa', 1.0 * u.micron, 'fb', 30. * u.micron, 5.5 * u.micron]
nf = len(filt)
apx = np.array([2., 3., 5., 7., 4.])
for dep in (False, True):
    na = 8 if dep else 1
    val = np.cumsum(10 ** rng.uniform(-1, 1, (nm, na, nw)), axis=1)
    cfl = np.cumsum(10 ** rng.uniform(-1, 1, (nm, na, 2)), axis=1)
    kw = dict(extinction_law=ext, av_range=[0., 5.])
    if dep: kw['distance_range'] = [0.5, 3.] * u.kpc
    ident = np.arange(nm)
    base = write_v2(ident, dep, val, [ident, ident], cfl)
    for mm in (True, False):
        for trial in range(6):
            rr = bool(trial % 2) and dep
            F0 = quiet(Fitter, filt, apx * u.arcsec, base, use_memmap=mm, remove_resolved=rr, **kw)
            d = write_v2(rng.permutation(nm), dep, val, [rng.permutation(nm), rng.permutation(nm)], cfl, wav_desc=trial % 3 == 0)
            p = rng.permutation(nf)
            F = quiet(Fitter, [filt[i] for i in p], apx[p] * u.arcsec, d, use_memmap=mm, remove_resolved=rr, **kw)
            for t in range(10):
                full = rng.choice([0, 1, 1, 1, 2, 3, 4, 9], size=nf)
                if np.sum((full == 1) | (full == 4)) < 2: continue
                flux = 10 ** rng.uniform(-1, 2, nf); err = flux * rng.uniform(0.02, 0.3, nf)
                lim = (full == 2) | (full == 3)
                err[lim] = rng.choice([0., 1., 0.5], size=lim.sum())
                f4 = full == 4
                lf = np.log10(flux) - 0.5 * (err / flux) ** 2 / np.log(10); le = np.abs(err / flux) / np.log(10)
                flux[f4] = lf[f4]; err[f4] = le[f4]
                s0 = mksource(full, flux, err); s1 = mksource(full[p], flux[p], err[p])
                w = cmp(F0.fit(s0), F.fit(s1))
                if w > 1e-9: print("DIFF", dep, mm, trial, full, w)
print("done")
