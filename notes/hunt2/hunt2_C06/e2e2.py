import os, tempfile, shutil, sys
import numpy as np
from astropy import units as u
from astropy.table import Table
from sedfitter.filter import Filter
from sedfitter.sed import SEDCube
from sedfitter.convolve import convolve_model_dir
from sedfitter.convolved_fluxes import ConvolvedFluxes
sys.path.insert(0, os.path.dirname(__file__))
from fuzz_rebin_lib import ref_rebin
c = 299792458.

def run(seed):
    rng = np.random.default_rng(seed)
    d = tempfile.mkdtemp()
    n_models = rng.integers(1, 6); n_ap = rng.integers(1, 4); n_wav = rng.integers(2, 81)
    nu = np.sort(rng.uniform(0.5e13, 2.5e13, n_wav))
    if rng.random() < .5: nu = nu[::-1]
    flux = rng.uniform(0.1, 10, (n_models, n_ap, n_wav)); err = rng.uniform(0.01, 1, (n_models, n_ap, n_wav))
    cube = SEDCube()
    cube.names = np.array(['m%d' % i for i in range(n_models)])
    cube.distance = 1 * u.kpc
    wav_unit = rng.choice(['um', 'cm', 'Angstrom', 'm'])
    if rng.random() < .5:
        cube.wav = (c / nu * 1e6 * u.micron).to(wav_unit)
    else:
        cube.nu = (nu * u.Hz).to(rng.choice(['Hz', 'GHz']))
    nu_eff = cube.nu.to(u.Hz).value
    cube.apertures = None if (n_ap == 1 and rng.random() < .5) else np.sort(rng.uniform(10, 1000, n_ap)) * u.au
    fu = u.Unit(rng.choice(['mJy', 'Jy', 'erg/(cm2 s)', 'erg/s', 'W/m2', 'uJy']))
    def conv(f):
        f = f * u.mJy
        if fu.is_equivalent(u.mJy): return f.to(fu)
        f = (f * (nu_eff * u.Hz)).to(u.erg / u.cm**2 / u.s)
        if fu.is_equivalent(u.erg / u.cm**2 / u.s): return f.to(fu)
        return (f * (1 * u.kpc)**2).to(fu)
    cube.val = conv(flux); cube.unc = conv(err)
    cube.write(d + '/flux.fits')
    with open(d + '/models.conf', 'w') as f:
        f.write("name = test\nlength_subdir = 0\naperture_dependent = %s\nlogd_step = 0.02\nversion = 2\n" % ('yes' if n_ap > 1 else 'no'))
    t = Table(); t['MODEL_NAME'] = np.array(cube.names, dtype='S'); t['par1'] = rng.random(n_models); t.write(d + '/parameters.fits')
    filters = []; fdefs = []
    for k in range(3):
        nf = rng.integers(2, 61)
        lo, hi = np.sort(rng.uniform(0.3e13, 2.7e13, 2))
        fnu = np.sort(rng.uniform(lo, hi, nf)); fr = rng.uniform(0, 1, nf)
        if rng.random() < .5 and nf > 2: fr[0] = fr[-1] = 0
        if rng.random() < .5: fnu = fnu[::-1]; fr = fr[::-1]
        filt = Filter(name='filt%d' % k, central_wavelength=(1.0 + k) * u.micron, nu=fnu * u.Hz, response=fr.copy())
        if rng.random() < .5: filt.normalize()
        filters.append(filt); fdefs.append((fnu.copy(), np.array(filt.response).copy()))
    mm = bool(rng.random() < .5)
    convolve_model_dir(d, filters, memmap=mm)
    worst = 0
    for k in range(3):
        cf = ConvolvedFluxes.read(d + '/convolved/filt%d.fits' % k)
        assert list(np.char.strip(cf.model_names)) == list(cube.names)
        R = ref_rebin(fdefs[k][0], fdefs[k][1], nu_eff)
        ef = (flux * R).sum(axis=2); ee = np.sqrt(((err * R) ** 2).sum(axis=2))
        assert cf.flux.shape == ef.shape, (cf.flux.shape, ef.shape)
        e1 = np.abs(cf.flux.to(u.mJy).value - ef).max() / max(np.abs(flux).max() * np.abs(R).sum(), 1e-300)
        e2 = np.abs(cf.error.to(u.mJy).value - ee).max() / max(np.abs(err).max() * np.abs(R).sum(), 1e-300)
        worst = max(worst, e1, e2)
        assert e1 < 1e-9 and e2 < 1e-9, (seed, k, str(fu), mm, e1, e2)
    shutil.rmtree(d)
    return worst
if __name__ == '__main__':
    w = 0
    for seed in range(int(sys.argv[1]), int(sys.argv[2])):
        w = max(w, run(seed))
    print('worst', w)
