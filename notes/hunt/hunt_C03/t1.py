from common import *
rng = np.random.RandomState(1)
wavs = [1., 2., 4., 8., 16.]
nm = 6
# aperture dependent
aps = np.logspace(1, 5, 8)
fl = np.cumsum(rng.random_sample((nm, 8, 5)), axis=1)
# make model 0 very extended in band 4 only: flux rises steeply at large ap
d, fn = make_dir(['m%d' % i for i in range(nm)], fl, wavs, apertures=aps)
for rr in (False, True):
    F = quiet(Fitter, fn, [3.]*5*u.arcsec, d, extinction_law=ext(), av_range=[0., 10.], distance_range=[1., 2.]*u.kpc, remove_resolved=rr)
    print(rr, type(F.models.extended), getattr(F.models.extended, 'sum', lambda: None)())
    if rr:
        print(F.models.extended.any(axis=1))
    for v4 in (0, 9):
        s = src([1, 1, 1, 1, v4], [1., 2., 3., 4., 5.], [.1, .2, .3, .4, .5])
        info = F.fit(s)
        print(v4, info.chi2, info.model_id)
