"""
C01 - the reported (A_V, scale, chi^2) are not the constrained least-squares
optimum for a version-2 (cube) model package read with the DEFAULT options.

Models.read (_read_version_2) puts the convolved model fluxes into a
single-precision array whenever use_memmap=True, which is the default of
Fitter() and the only thing fit() can do (it has no use_memmap argument):

    model_fluxes = np.memmap(mffilename, dtype='float32', ...) * u.mJy

The convolved flux files are double precision (that is what
ConvolvedFluxes.write / convolve_model_dir produce).  The models of a package
that is not distance dependent are not absolutely scaled, so any positive
normalisation is legal.  Model fluxes below the single-precision range are
rounded to a few bits (denormals) or to 0 before the fit, (and above 3.4e38
to inf), and log10 itself is then evaluated in single precision.

Result for the source below (4 ordinary fluxes, 2 % errors, A_V range 0..10):
  * model 'faint'   (fluxes ~1e-43 mJy): reported (A_V, scale) is not the
    minimiser, and the reported chi^2 is not the minimum;
  * model 'fainter' (fluxes ~1e-49 mJy): A_V, scale and chi^2 are NaN.
The very same package fitted with Fitter(..., use_memmap=False), or written as
a per-file (version 1) package, gives the optimum to 1e-12.
"""
import os
import io
import sys
import tempfile
import contextlib

import numpy as np
from astropy import units as u
from astropy.table import Table

from sedfitter.sed import SEDCube
from sedfitter.convolved_fluxes import ConvolvedFluxes
from sedfitter.extinction import Extinction
from sedfitter.fit import Fitter
from sedfitter.source import Source


def quiet(fn, *a, **k):
    with contextlib.redirect_stdout(io.StringIO()):
        return fn(*a, **k)


wavs = np.array([0.5, 1.2, 3.6, 8.0])            # micron
names = ['ordinary', 'faint', 'fainter']
base = np.array([3., 7., 11., 5.])
fluxes = np.vstack([base * 1.3, base * 1.e-44, base * 1.e-50])   # mJy, all > 0

d = tempfile.mkdtemp()

# flux.fits (the cube of a version-2 package)
cube = SEDCube()
cube.names = np.array(names)
cube.distance = 1 * u.kpc
cube.wav = wavs * u.micron
cube.apertures = None
cube.val = fluxes[:, np.newaxis, :] * u.mJy
cube.unc = cube.val * 0.01
cube.write(d + '/flux.fits')

# convolved/*.fits, double precision as written by the package itself
os.mkdir(d + '/convolved')
for j, w in enumerate(wavs):
    c = ConvolvedFluxes()
    c.central_wavelength = w * u.micron
    c.model_names = np.array(names)
    c.apertures = None
    c.flux = fluxes[:, j:j + 1] * u.mJy
    c.error = c.flux * 0.01
    c.write(d + '/convolved/B%d.fits' % j)

with open(d + '/models.conf', 'w') as f:
    f.write("name = test\nlength_subdir = 0\naperture_dependent = no\n"
            "logd_step = 0.02\nversion = 2\n")

t = Table()
t['MODEL_NAME'] = np.array(names, dtype='S30')
t['par1'] = np.arange(3) * 1.
t.write(d + '/parameters.fits')

ext = Extinction()
ext.wav = np.logspace(-1, 2, 30) * u.micron
ext.chi = ext.wav.value ** -1.5 * u.cm ** 2 / u.g
k = np.asarray(ext.get_av(wavs * u.micron))      # -0.4 at V
av_lo, av_hi = 0., 10.

s = Source()
s.name = 'src'
s.x = 0.
s.y = 0.
s.valid = [1, 1, 1, 1]
s.flux = base * 10 ** (2.0 * k) * np.array([1.02, 0.97, 1.01, 1.0])
s.error = s.flux * 0.02

# the data transform of Source.get_log_fluxes (flag 1)
y = np.log10(s.flux) - 0.5 * (s.error / s.flux) ** 2 / np.log(10.)
w = (s.flux * np.log(10.) / s.error) ** 2


def S(av, sc, logm):
    return np.sum(w * (y - logm - av * k + 2. * sc) ** 2)


def optimum(logm):
    sw = np.sqrt(w)
    A = np.column_stack([k * sw, -2. * sw])
    av, sc = np.linalg.lstsq(A, (y - logm) * sw, rcond=None)[0]
    if av < av_lo or av > av_hi:
        av = min(max(av, av_lo), av_hi)
        sc = np.sum(w * (y - logm - av * k) * -2.) / np.sum(4. * w)
    return av, sc, S(av, sc, logm)


filters = ['B%d' % j for j in range(4)]
apertures = np.ones(4) * u.arcsec

results = {}
for label, kw in [('default (use_memmap=True)', {}), ('use_memmap=False', {'use_memmap': False})]:
    fitter = quiet(Fitter, filters, apertures, d, extinction_law=ext, av_range=(av_lo, av_hi), **kw)
    info = quiet(fitter.fit, s)
    print(label)
    for im, name in enumerate(names):
        row = list(info.model_name).index(name)
        av, sc, c2 = float(info.av[row]), float(info.sc[row]), float(info.chi2[row])
        logm = np.log10(fluxes[im])
        av0, sc0, S0 = optimum(logm)
        print("  %-8s reported A_V=%.6f sc=%.6f chi2=%.6f S(reported)=%.6f | optimum A_V=%.6f sc=%.6f S=%.6f"
              % (name, av, sc, c2, S(av, sc, logm), av0, sc0, S0))
        results[label, name] = (av, sc, c2, S(av, sc, logm), av0, sc0, S0)

# sanity: without the single-precision array the statement holds
for name in names:
    av, sc, c2, Srep, av0, sc0, S0 = results['use_memmap=False', name]
    assert abs(av - av0) < 1e-9 and abs(sc - sc0) < 1e-9 and abs(c2 - S0) < 1e-9, \
        "unexpected: use_memmap=False is off for " + name

errors = []
for name in names:
    av, sc, c2, Srep, av0, sc0, S0 = results['default (use_memmap=True)', name]
    if not (np.isfinite(av) and np.isfinite(sc) and np.isfinite(c2)):
        errors.append("model %r (fluxes %.1e..%.1e mJy, all > 0): reported A_V=%r scale=%r chi2=%r; "
                      "the optimum is A_V=%.6f scale=%.6f chi2=%.6f"
                      % (name, fluxes[names.index(name)].min(), fluxes[names.index(name)].max(),
                         av, sc, c2, av0, sc0, S0))
    elif abs(c2 - S0) > 1e-3 or Srep > S0 + 1e-3:
        errors.append("model %r (fluxes %.1e..%.1e mJy, all > 0): reported A_V=%.6f scale=%.6f give S=%.6f and "
                      "chi2=%.6f is reported; the minimum over A_V in [0,10] and real scale is S=%.6f at "
                      "A_V=%.6f scale=%.6f"
                      % (name, fluxes[names.index(name)].min(), fluxes[names.index(name)].max(),
                         av, sc, Srep, c2, S0, av0, sc0))

assert not errors, ("C01 violated (clause: reported A_V/scale minimise the weighted sum; chi^2 is that minimum) "
                    "for a version-2 package read with the default use_memmap=True, which stores the model "
                    "fluxes in single precision:\n  " + "\n  ".join(errors))
print("no violation")
