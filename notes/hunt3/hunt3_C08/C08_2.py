"""
C08 violation: an extinction law whose table is stored in DECREASING wavelength
(e.g. a dust-opacity file sorted by increasing frequency) is accepted without a
word, but Extinction.get_av() hands the table to np.interp, which needs
increasing abscissae: it returns A_lambda/A_V = 0 at every wavelength.  The
fitter then works with a zero reddening vector: A_V = 0/0 = NaN and
chi^2 = NaN for every model, so a planted model is not ranked first, and A_V0
is not reported.  The very same physical law given in increasing wavelength
recovers the planted model exactly.

(The other tabulated inputs - filters, SED wavelengths, cube axes, apertures -
are accepted in either storage order.)
"""
import os
import io
import tempfile
import contextlib
import warnings

import numpy as np
from astropy import units as u
from astropy.table import Table

warnings.filterwarnings('ignore')

from sedfitter import fit, write_parameters
from sedfitter.sed import SED
from sedfitter.filter import Filter
from sedfitter.extinction import Extinction
from sedfitter.convolve import convolve_model_dir
from sedfitter.convolved_fluxes import ConvolvedFluxes

NAMES = ['mod_%02d' % i for i in range(6)]
WAV = np.logspace(-1., 2.5, 80)


def quiet(fn, *args, **kwargs):
    with contextlib.redirect_stdout(io.StringIO()), contextlib.redirect_stderr(io.StringIO()):
        return fn(*args, **kwargs)


def shape(k):
    return (1 + k) * np.exp(-0.5 * ((np.log10(WAV) - (0.2 + 0.25 * k)) / (0.3 + 0.07 * k)) ** 2) + 0.05 + 0.01 * np.sin(WAV + k)


def build(d, aperture_dependent):
    os.mkdir(os.path.join(d, 'seds'))
    for k, n in enumerate(NAMES):
        s = SED()
        s.name = n
        s.distance = 1. * u.kpc
        s.wav = WAV * u.micron
        s.nu = s.wav.to(u.Hz, equivalencies=u.spectral())
        s.apertures = None
        s.flux = shape(k)[np.newaxis, :] * u.mJy
        s.error = s.flux * 0.01
        s.write(os.path.join(d, 'seds', n + '_sed.fits'))
    with open(os.path.join(d, 'models.conf'), 'w') as f:
        f.write("name = test\nlength_subdir = 0\naperture_dependent = %s\nlogd_step = 0.05\n" % ('yes' if aperture_dependent else 'no'))
    t = Table()
    t['MODEL_NAME'] = np.array(NAMES, dtype='S30')
    t['par1'] = np.arange(len(NAMES)) * 10. + 1.
    t.write(os.path.join(d, 'parameters.fits'))


def filters():
    out = []
    for name, lo, hi, cw in [('fa', 1., 2., 1.5), ('fb', 3., 5., 4.), ('fc', 8., 12., 10.), ('fd', 20., 30., 24.)]:
        wav = np.linspace(hi, lo, 40) * u.micron
        f = Filter()
        f.name = name
        f.central_wavelength = cw * u.micron
        f.nu = wav.to(u.Hz, equivalencies=u.spectral())
        f.response = 1. + np.sin(np.linspace(0., 3., 40))
        f.normalize()
        out.append(f)
    return out


def law_from_file(d, increasing):
    # kappa(lambda) = 200 lambda^-1.5 cm^2/g, tabulated on 60 wavelengths and
    # written to an ASCII file in the requested storage order
    wav = np.logspace(-2., 3., 60)
    chi = 200. * wav ** -1.5
    if not increasing:
        wav, chi = wav[::-1], chi[::-1]
    fn = os.path.join(d, 'law_%s.txt' % ('up' if increasing else 'down'))
    np.savetxt(fn, np.c_[wav, chi], fmt='%.17e')
    return Extinction.from_file(fn)


def run(aperture_dependent):

    d = tempfile.mkdtemp()
    build(d, aperture_dependent)
    fs = filters()
    quiet(convolve_model_dir, d, fs)
    fnames = [f.name for f in fs]

    # Physical law (independent of the storage order): A_lambda / A_V
    cw = np.array([f.central_wavelength.to(u.micron).value for f in fs])
    ratio = np.exp(np.interp(np.log(cw), np.log(np.logspace(-2., 3., 60)), np.log(200. * np.logspace(-2., 3., 60) ** -1.5))) / \
        np.exp(np.interp(np.log(0.55), np.log(np.logspace(-2., 3., 60)), np.log(200. * np.logspace(-2., 3., 60) ** -1.5)))
    # (the fitter interpolates linearly; use its own value from the increasing
    # table as the truth so that no interpolation detail matters)
    law_up = law_from_file(d, True)
    law_down = law_from_file(d, False)
    av_law = np.asarray(law_up.get_av(cw * u.micron))
    assert np.allclose(av_law, -0.4 * ratio, rtol=0.05), "sanity: the increasing table gives the physical law"

    m, av0, relerr = 3, 2.5, 1.e-3
    d0 = 1.                                   # on the grid (first trial distance)
    sc0 = np.log10(d0) if aperture_dependent else 0.3
    flux = np.zeros(4)
    for j, f in enumerate(fs):
        c = ConvolvedFluxes.read(os.path.join(d, 'convolved', f.name + '.fits'))
        i = list(np.char.strip(c.model_names)).index(NAMES[m])
        flux[j] = c.flux[i, 0].to(u.mJy).value * 10. ** (-2. * sc0) * 10. ** (av0 * av_law[j])
    err = flux * relerr
    data = os.path.join(d, 'data.txt')
    with open(data, 'w') as fh:
        fh.write('src 0. 0. 1 1 1 1 ' + ' '.join('%.16e %.16e' % (a, b) for a, b in zip(flux, err)) + '\n')

    res = {}
    for label, law in (('increasing', law_up), ('decreasing', law_down)):
        out = os.path.join(d, 'fits_%s.fitinfo' % label)
        quiet(fit, data, fnames, [3., 3., 3., 3.] * u.arcsec, d, out, extinction_law=law,
              av_range=[0., 10.], distance_range=[1., 4.] * u.kpc, output_format=('A',))
        txt = os.path.join(d, 'pars_%s.txt' % label)
        write_parameters(out, txt, select_format=('N', 1))
        lines = open(txt).read().split('\n')
        row = lines[4].split() if len(lines) > 4 and lines[4].strip() else None
        res[label] = row
        print('aperture_dependent=%s, %s wavelength table -> first row: %s' % (aperture_dependent, label, row))

    row = res['increasing']
    assert row is not None and row[1] == NAMES[m] and float(row[2]) < 1e-2 and abs(float(row[3]) - av0) < 1e-2 and abs(float(row[4]) - sc0) < 1e-3, \
        "sanity: the planted model is recovered with the increasing table: %r" % row

    row = res['decreasing']
    ok = row is not None and row[1] == NAMES[m] and float(row[2]) < 1e-2 and abs(float(row[3]) - av0) < 1e-2 and abs(float(row[4]) - sc0) < 1e-3
    return ok, row, (NAMES[m], av0, sc0), np.asarray(law_down.get_av(cw * u.micron))


if __name__ == '__main__':
    failures = []
    for apdep in (False, True):
        ok, row, truth, av_law_down = run(apdep)
        if not ok:
            failures.append("aperture_dependent=%s: planted (model, A_V, scale) = %r, reported row = %r, get_av() of the decreasing table = %r" % (apdep, truth, row, av_law_down))
    assert not failures, (
        "C08 'ranks m first with chi^2 ~ 0 and reports A_V ~ A_V0' fails when the extinction law is tabulated in "
        "decreasing wavelength (same physical law, other storage order): " + " | ".join(failures))
    print("no violation")
