"""C14 — Extinction.get_av against FitModel.get_av_m and the normalisation / unit / transport clauses."""
import math
import os
import tempfile
from fractions import Fraction

from common import Rng, F, close

PROP = 'C14'
MODEL_OPS = 'FitModel.get_av_m'
RULE = ('opacity tables of 2-200 rows in increasing wavelength covering 0.55 micron, positive opacities; queries inside, outside and exactly on table nodes (incl. both end nodes) '
        'and at 0.55 micron; wavelengths of table and queries in micron / cm / nm / Angstrom independently, opacities in cm2/g or m2/kg; the law used directly, after pickling, '
        'after to_table/from_table, and after from_file with a column selection; in half of the direct cases the same object first held other opacities and/or wavelengths, was evaluated, and was then given the table (history). non-trivial = at least one query strictly inside and one outside the table.')
EXHAUSTIVE = {'quick': False, 'thorough': False}
ASSUMPTIONS = ['np.interp is an exact piecewise-linear interpolant up to rounding: relative tolerance 1e-9 + 2e-15 x (condition number of chi at the query + at 0.55 micron), since table and query wavelengths are converted between units in floating point and steep table segments amplify that',
               'a query on an end node expressed in another unit than the table is an inside/outside tie after conversion and is not compared (near-tie filter); in the table\'s own unit end nodes are compared exactly']

WUNITS = {'micron': 1.0, 'cm': 1e-4, 'nm': 1e3, 'Angstrom': 1e4, 'm': 1e-6, 'mm': 1e-3}
CUNITS = {'cm2 / g': 1.0, 'm2 / kg': 0.1}      # 1 cm2/g = 0.1 m2/kg


def generate(tier, seed):
    rng = Rng(seed * 982451653 + 14)
    cases = []
    for k in range(300 if tier == 'quick' else 5000):
        n = rng.choice([2, 3, 5, 10, 40, 200])
        lo = rng.choice([0.0625, 0.125, 0.5])
        hi = rng.choice([1.0, 8.0, 64.0, 512.0])
        xs = sorted(set([lo, hi] + [rng.dyadic(lo, hi, 12) for _ in range(n - 2)]))
        if k % 10 == 3:           # a table that starts or ends exactly at V: it covers 0.55 micron (at its edge)
            xs = ([0.55] + [x for x in xs if x > 0.55]) if k % 20 == 3 else ([x for x in xs if x < 0.55] + [0.55])
            if len(xs) < 2:
                xs = [0.55, 1.0] if k % 20 == 3 else [0.25, 0.55]
            lo, hi = xs[0], xs[-1]
        chi = [rng.logdyadic(0.5, 2e4, 12) for _ in xs]
        q = []
        for _ in range(rng.randint(3, 12)):
            u = rng.random()
            if u < 0.4:
                q.append(rng.dyadic(lo, hi, 14))
            elif u < 0.55:
                q.append(rng.choice(xs))
            elif u < 0.65:
                q.append(rng.choice([lo, hi]))
            elif u < 0.8:
                q.append(rng.choice([lo / 2, lo * 0.99, hi * 1.01, hi * 4, lo * (1 - 2.0 ** -14), hi * (1 + 2.0 ** -14), lo * (1 + 2.0 ** -14), hi * (1 - 2.0 ** -14),
                                     lo * (1 - 2.0 ** -24), hi * (1 + 2.0 ** -24)]))      # just outside / just inside the table: far more than a rounding error away from its ends
            else:
                q.append(0.55)
        prior = rng.choice([None, None, 'chi', 'chi', 'wav', 'both'])     # what the same object held (and was evaluated with) before it was given this table
        cases.append(dict(prior=prior, prior_chi=[rng.logdyadic(0.5, 2e4, 12) for _ in xs], prior_wfac=rng.choice([0.5, 2.0, 4.0]), wav=xs, chi=chi, queries=q, wunit=rng.choice(list(WUNITS)), qunit=rng.choice(list(WUNITS)), cunit=rng.choice(list(CUNITS)),
                          transport=rng.choice(['none', 'none', 'pickle', 'table', 'file']), extra_cols=rng.randint(0, 2), scale=rng.choice([1.0, 0.5, 1024.0])))
    return cases


def impl(case):
    import pickle
    import numpy as np
    from astropy import units as u
    from sedfitter.extinction import Extinction
    wu, cu, qu = u.Unit(case['wunit']), u.Unit(case['cunit']), u.Unit(case['qunit'])
    wav = np.array(case['wav']) * WUNITS[case['wunit']]
    chi = np.array(case['chi']) * CUNITS[case['cunit']] * case['scale']
    if case['transport'] == 'file':
        with tempfile.TemporaryDirectory() as d:
            p = os.path.join(d, 'law.txt')
            ncol = 2 + case['extra_cols']
            wcol, ccol = (0, ncol - 1) if case['extra_cols'] % 2 == 0 else (ncol - 1, 0)
            with open(p, 'w') as f:
                for a, b in zip(wav, chi):
                    row = ['%r' % 7.5] * ncol
                    row[wcol], row[ccol] = repr(float(a)), repr(float(b))
                    f.write(' '.join(row) + '\n')
            e = Extinction.from_file(p, columns=(wcol, ccol), wav_unit=wu, chi_unit=cu)
    else:
        e = Extinction()
        if case.get('prior'):
            e.wav = (wav * case['prior_wfac'] if case['prior'] in ('wav', 'both') else wav) * wu
            e.chi = (np.array(case['prior_chi']) if case['prior'] in ('chi', 'both') else chi) * cu
            e.get_av(np.array(case['queries'] + [0.55]) * u.micron)
            if case['prior'] in ('wav', 'both'):
                e.wav = wav * wu
            if case['prior'] in ('chi', 'both'):
                e.chi = chi * cu
        else:
            e.wav = wav * wu
            e.chi = chi * cu
        if case['transport'] == 'pickle':
            e = pickle.loads(pickle.dumps(e, 2))
        elif case['transport'] == 'table':
            e = Extinction.from_table(e.to_table())
    q = np.array(case['queries']) * WUNITS[case['qunit']] * qu
    av = e.get_av(q)
    # what get_av itself works with: the table as stored and the query / V wavelengths converted to the table's unit (floats)
    tu = e.wav.unit
    return dict(av=[float(x) for x in np.asarray(av)], av_v=float(np.asarray(e.get_av(np.array([0.55]) * u.micron))[0]),
                tabw=[float(x) for x in e.wav.value], tabc=[float(x) for x in e.chi.value], qconv=[float(x) for x in q.to(tu).value],
                vconv=float((np.array([0.55]) * u.micron).to(tu).value[0]))


MODEL_NEEDS_IMPL = True
SNAP_TOL = 1e-14       # Extinction._on_table


def model_requests(case, im=None):
    tab = [[F(a), F(b)] for a, b in zip(case['wav'], case['chi'])]
    reqs = [('get_av', [tab, F(0.55), [F(t) for t in case['queries']]])]
    if isinstance(im, dict) and 'tabw' in im:
        # ExtSnap.get_av_snap_m on the implementation's own converted floats (exact rationals of them), with the code's snap radius
        reqs.append(('get_av_snap', [F(SNAP_TOL), [[F(a), F(b)] for a, b in zip(im['tabw'], im['tabc'])], F(im['vconv']), [F(x) for x in im['qconv']]]))
    return reqs


def judge(case, im, mo):
    tags = ['prior=%s' % case.get('prior'), 'wunit=' + case['wunit'], 'qunit=' + case['qunit'], 'cunit=' + case['cunit'].replace(' ', ''), 'via=' + case['transport'], 'n=%d' % len(case['wav'])]
    if 'exc' in im:
        return dict(disagree=['implementation raised ' + im['msg']], fail=['raised: %s' % im['msg']], nontrivial=False, tags=tags + ['raised'])
    m = mo[0]
    if isinstance(m, tuple):
        return dict(disagree=['driver %r' % (m,)], fail=[], nontrivial=False)
    disagree, fail = [], []
    lo, hi = case['wav'][0], case['wav'][-1]
    xs, cs = [F(x) for x in case['wav']], [F(c) for c in case['chi']]

    def chi_at(t):
        for i in range(len(xs) - 1):
            if xs[i] <= t <= xs[i + 1]:
                return cs[i] + (t - xs[i]) * (cs[i + 1] - cs[i]) / (xs[i + 1] - xs[i])
    def cond(t):
        """relative condition number of chi at t: a relative perturbation d of t (unit conversions of table and query round) moves chi(t) by cond * d"""
        worst = 0.0
        for i in range(len(xs) - 1):
            if xs[i] <= t <= xs[i + 1]:        # a query on a node may land in either neighbouring segment after rounding
                c = chi_at(t)
                worst = max(worst, float(abs(t) * abs(cs[i + 1] - cs[i]) / ((xs[i + 1] - xs[i]) * abs(c))) if c != 0 else math.inf)
        return worst
    cond_v = cond(F(0.55))
    inside = outside = False
    same_unit = case['wunit'] == case['qunit']
    for t, got, want in zip(case['queries'], im['av'], m):
        on_end = t in (lo, hi)
        near_end = min(abs(t - lo) / lo, abs(t - hi) / hi) < 1e-9
        if near_end and not on_end:
            continue
        rtol = 1e-9 + 2e-15 * (cond(F(t)) + cond_v)       # wavelengths pass through up to four unit conversions before np.interp
        if not close(got, want, rtol, 1e-12):
            disagree.append('A_V pattern at %r micron: implementation %r, model %r' % (t, got, float(want)))
        tt = F(t)
        if tt < xs[0] or tt > xs[-1]:
            outside = True
            doc = Fraction(0)
        else:
            inside = inside or (xs[0] < tt < xs[-1])
            doc = Fraction(-4, 10) * chi_at(tt) / chi_at(F(0.55))
        if abs(F(got) - doc) > F(rtol) * (abs(doc) + Fraction(1, 1000)):
            fail.append('law: at %r micron the pattern is %r; -0.4 chi/chi_V (0 outside the table) is %r' % (t, got, float(doc)))
    # the code path itself: same floats in, so only the rounding of np.interp and of the division is left - no query is skipped
    if len(mo) > 1 and not isinstance(mo[1], tuple):
        tags.append('snap-compared')
        tw, tc = [F(x) for x in im['tabw']], [F(c) for c in im['tabc']]

        def cond2(t):
            worst = 0.0
            for i in range(len(tw) - 1):
                if tw[i] <= t <= tw[i + 1]:
                    num = tc[i] + (t - tw[i]) * (tc[i + 1] - tc[i]) / (tw[i + 1] - tw[i])
                    worst = max(worst, float(abs(t) * abs(tc[i + 1] - tc[i]) / ((tw[i + 1] - tw[i]) * abs(num))) if num != 0 else math.inf)
            return worst
        for t, xq, got, want in zip(case['queries'], im['qconv'], im['av'], mo[1]):
            rt = 1e-12 + 4e-16 * (cond2(F(xq)) + cond2(F(im['vconv'])))
            if not close(got, want, rt, 1e-300):
                disagree.append('get_av on the converted floats: query %r micron (%r in table units): implementation %r, ExtSnap model %r' % (t, xq, got, float(want)))
    if abs(im['av_v'] + 0.4) > 1e-12:
        fail.append('normalisation: the pattern at 0.55 micron is %r, not -0.4' % im['av_v'])
    return dict(disagree=disagree[:3], fail=fail[:3], nontrivial=inside and outside, tags=tags)
