"""C11 (clauses 'unchanged by permuting the filters' and 'multiplying every flux and error by a
constant ... leaves A_V and chi^2 unchanged'), distance-independent per-file package.

Same root cause as C01_1 (the Cramer's-rule solution of the normal equations in
fitting_routines.linear_regression loses all its digits when the weights are very unequal),
seen here purely as code-against-code: the SAME source gives different A_V / chi^2 when
the filters are listed in another order, or when all fluxes and errors are multiplied by a
constant -- by tens of per cent, not by rounding.

Input: 4 filters, 6 models with fluxes in 1..10 mJy, source flux=(100,400,700,500) mJy,
err=(30,4e-4,200,150) mJy, all flags 1, A_V range (0,40) (no model is clamped).
"""
import os, io, tempfile, contextlib
import numpy as np
from astropy import units as u
from sedfitter.fit import Fitter
from sedfitter.source import Source
from sedfitter.extinction import Extinction
from sedfitter.convolved_fluxes import ConvolvedFluxes

d = tempfile.mkdtemp()
os.makedirs(os.path.join(d, 'convolved'))
open(os.path.join(d, 'models.conf'), 'w').write(
    "name = test\nlength_subdir = 0\naperture_dependent = no\nlogd_step = 0.02\n")
rng = np.random.RandomState(1)
wavs = [1.2, 3.6, 8.0, 24.]
M = 10 ** rng.uniform(0, 1, (6, 4))
names = np.array(['m%d' % i for i in range(6)])
filters = ['F0', 'F1', 'F2', 'F3']
for j, fn in enumerate(filters):
    ConvolvedFluxes(wavelength=wavs[j] * u.micron, model_names=names,
                    flux=M[:, j:j + 1] * u.mJy, error=0.01 * M[:, j:j + 1] * u.mJy
                    ).write(os.path.join(d, 'convolved', fn + '.fits'))
law = Extinction()
law.wav = np.logspace(-2., 3., 50) * u.micron
law.chi = law.wav.value ** -1.5 * u.cm ** 2 / u.g

flux = np.array([100., 400., 700., 500.])
err = np.array([30., 4.e-4, 200., 150.])


def run(p, const=1.):
    with contextlib.redirect_stdout(io.StringIO()):
        fitter = Fitter([filters[i] for i in p], [1.] * 4 * u.arcsec, d, extinction_law=law,
                        av_range=(0., 40.), distance_range=[1., 2.] * u.kpc)
    s = Source()
    s.name = 'src'
    s.valid = np.array([1, 1, 1, 1])
    s.flux = flux[p] * const
    s.error = err[p] * const
    info = fitter.fit(s)
    return {str(n): (float(a), float(sc), float(c)) for n, a, sc, c in zip(info.model_name, info.av, info.sc, info.chi2)}


base = run([0, 1, 2, 3])
problems = []
import itertools
perm_runs = [('filters permuted %s' % (p,), run(list(p)), 0.) for p in [(3, 1, 0, 2), (1, 0, 3, 2), (2, 3, 1, 0)]]
for label, other, shift in perm_runs + [
                            ('all fluxes and errors x 1e4', run([0, 1, 2, 3], 1e4), -0.5 * 4),
                            ('all fluxes and errors x 1e-4', run([0, 1, 2, 3], 1e-4), +0.5 * 4)]:
    for n in sorted(base):
        a0, s0, c0 = base[n]; a1, s1, c1 = other[n]
        print('%-30s %s  A_V %.6f -> %.6f   scale %.6f -> %.6f (expected %.6f)   chi2 %.4f -> %.4f'
              % (label, n, a0, a1, s0, s1, s0 + shift, c0, c1))
        assert 0. < a0 < 40. and 0. < a1 < 40.
        if abs(c1 - c0) > 1e-6 * c0 or abs(a1 - a0) > 1e-6 or abs(s1 - (s0 + shift)) > 1e-6:
            problems.append((label, n, 'chi2 %.4f -> %.4f' % (c0, c1)))

assert not problems, (
    "C11 violated (clauses 'unchanged by permuting the filters' / 'multiplying every flux and error by a constant "
    "leaves A_V and chi^2 unchanged and shifts the scale by -0.5*log10(c)') for source flux=(100,400,700,500) "
    "err=(30,4e-4,200,150), flags 1, A_V range (0,40): " + "; ".join("%s: %s %s" % p for p in problems))
