import sys; sys.path.insert(0, '/tmp/hunt2_C10/hunt_out')
from _helper import *
import pickle, subprocess, warnings
warnings.simplefilter('ignore')
from sedfitter import fit, Fitter, plot, plot_params_1d, plot_params_2d, write_parameters, write_parameter_ranges, extract_parameters, filter_output
from sedfitter.source import Source
from sedfitter.fit_info import FitInfoFile
apdep = len(sys.argv) > 1
d, md = build(apdep)
DATA = """s0 0.0 0.0 0 0 0 -999 -999 -999 -999 -999 -999
s1 nan 0.0 1 1 1 0.2 0.1 1.3 0.2 1.5 0.3
s1 1.0 2.0 1 0 1 nan 0.05 1.2 0.1 1.8 0.3
s3 1.0 2.0 1 1 4 0.2 0.05 inf 0.1 0.1 0.3
s4 1.0 2.0 3 2 1 0.2 1.0 1.2 0.0 1.8 0.3
s5 1.0 2.0 1 9 1 0.2 0.05 -1.2 0.1 1.8 0.3
s6 1.0 2.0 1 1 1 0.2 0.05 1.2 0. 0 0.3
s7 1.0 2.0 0 0 0 0 0 0 0 0 0
s8 1e3 -2.0 01 1 1 2e-1 5e-2 1.2 0.1 1.8 0.3"""
open(d + '/data', 'w').write(DATA)
ext = extinction()
kw = dict(extinction_law=ext, distance_range=[1., 2.] * u.kpc, av_range=[0., 0.1])
ap = [1./60, 3./60, 3./60] * u.arcmin
for nmin in [0, -1, 1, 2.5, 3]:
  for sel in [('F', 3.), ('N', 2), ('A', None), ('C', 60.), ('D', 1.), ('E', 20.)]:
    out = d + '/out_%s_%s' % (nmin, sel[0])
    fit(d + '/data', ('bob', 'alice', 'eve'), ap, md, out, n_data_min=nmin, output_format=sel, output_convolved=True, remove_resolved=True, **kw)
    fitter = Fitter(['bob', 'alice', 'eve'], ap, md, remove_resolved=True, **kw)
    exp = []
    for line in DATA.strip().split('\n'):
        s = Source.from_ascii(line)
        if s.n_data >= nmin:
            i = fitter.fit(s); i.keep(sel); exp.append(i)
    got = list(FitInfoFile(out, 'r'))
    assert len(got) == len(exp), (len(got), len(exp))
    for a, b in zip(got, exp):
        assert not info_eq(a, b), info_eq(a, b)
        assert a.meta == b.meta
    # round trip
    f = FitInfoFile(out + '_rt', 'w')
    for g in got: f.write(g)
    f.close()
    got2 = list(FitInfoFile(out + '_rt', 'r'))
    assert len(got2) == len(got)
    for a, b in zip(got, got2):
        assert not info_eq(a, b)
        assert a.meta == b.meta
    # exp (from fitter) as list
    FitInfoFile(exp, 'r'); FitInfoFile(got + exp, 'r')
    print(nmin, sel, len(got), [g.n_fits for g in got])
print("OK")
