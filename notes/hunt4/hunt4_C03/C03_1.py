"""
C03, clause "confidence 0 is equivalent to flag 0" (and "a limit adds exactly
-2*ln(1-confidence) ... when, and only when, the fitted model lies on the
forbidden side"), on the flag vectors of the quantifier that contain no
measured point at all (only flags 0 / 2 / 3 / 9), e.g. n = 1, flags (3,).

DEGENERATE CORNER: with no flag-1/4 point the least-squares solution is 0/0,
so A_V (and the scale) are NaN for every model in both members of the pair.
The chi^2 values nevertheless differ: 0 for the flag-0 source (chi_squared
forces the band to zero) but NaN for the same source with the band declared
as a limit of confidence 0 (NaN * 0 stays NaN, and the comparison with a NaN
model is False, so the term is never reset).  Both fitting modes.

The pair is inside the stated quantifier ("every flag vector in
{0,1,2,3,4,9}^n for n<=5", "confidences in {0,(0,1),1}"); fit() accepts such
sources with n_data_min=0.
"""
import os, sys, io, tempfile, contextlib, warnings
import numpy as np
from astropy import units as u
warnings.filterwarnings('ignore')

from sedfitter.convolved_fluxes import ConvolvedFluxes
from sedfitter.extinction import Extinction
from sedfitter.fit import Fitter
from sedfitter.source import Source


def make_pkg(d, apdep):
    os.makedirs(os.path.join(d, 'convolved'))
    names = np.array(['m0', 'm1', 'm2'])
    for i, w in enumerate([1.2, 4.5]):
        c = ConvolvedFluxes()
        c.central_wavelength = w * u.micron
        c.model_names = names
        if apdep:
            c.apertures = np.logspace(1, 6, 6) * u.au
            c.flux = np.cumsum(np.array([[1., 2, 3, 4, 5, 6], [2, 2, 2, 2, 2, 2], [1, 1, 3, 3, 5, 5.]]), axis=1) * (i + 1) * u.mJy
        else:
            c.apertures = None
            c.flux = np.array([[1.], [5.], [20.]]) * (i + 1) * u.mJy
        c.error = c.flux * 0.01
        c.write(os.path.join(d, 'convolved', 'f%d.fits' % i))
    with open(os.path.join(d, 'models.conf'), 'w') as f:
        f.write("name = test\nlength_subdir = 0\naperture_dependent = %s\nlogd_step = 0.05\n" % ('yes' if apdep else 'no'))


def source(valid, flux, error):
    s = Source()
    s.name = 's'
    s.x = 0.
    s.y = 0.
    s.valid = valid
    s.flux = flux
    s.error = error
    return s


ext = Extinction()
ext.wav = np.logspace(-2., 3.) * u.micron
ext.chi = ext.wav.value ** -1.5 * u.cm ** 2 / u.g

failures = []
for apdep in (False, True):
    d = tempfile.mkdtemp()
    make_pkg(d, apdep)
    for n, flags_lim, flags_off in ((1, [3], [0]), (2, [2, 9], [0, 9]), (2, [3, 2], [0, 0])):
        with contextlib.redirect_stdout(io.StringIO()):
            fitter = Fitter(['f0', 'f1'][:n], np.full(n, 3.) * u.arcsec, d, extinction_law=ext,
                            av_range=[0., 5.], distance_range=[1., 2.] * u.kpc if apdep else None)
        flux = [3., 7.][:n]
        a = fitter.fit(source(flags_lim, flux, [0.] * n))   # limits with confidence 0
        b = fitter.fit(source(flags_off, flux, [0.] * n))   # the same bands switched off
        ca = np.asarray(a.chi2[np.argsort(a.model_id)], dtype=float)
        cb = np.asarray(b.chi2[np.argsort(b.model_id)], dtype=float)
        if not np.array_equal(ca, cb, equal_nan=True):
            failures.append("aperture_dependent=%s flags %s (confidence 0) chi2=%s  vs  flags %s chi2=%s"
                            % (apdep, flags_lim, ca, flags_off, cb))

assert not failures, ("C03 'confidence 0 is equivalent to flag 0' fails on flag vectors without any "
                      "measured point (degenerate: A_V is NaN in both fits, but chi2 is NaN for the "
                      "confidence-0 limit and 0 for flag 0):\n  " + "\n  ".join(failures))
print("no violation")
