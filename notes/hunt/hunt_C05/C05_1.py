"""
C05 - clause "('A',) keeps everything".

The statement writes the keep-all selector as the one-element tuple ('A',).
FitInfo.keep unpacks every selector as `form, number = select_format`, so the
one-element form is refused with a ValueError instead of keeping everything.
(The two-element form ('A', anything) of the syntax page works.)
"""
import sys
import numpy as np

from sedfitter.fit_info import FitInfo
from sedfitter.source import Source

s = Source()
s.name = 'src'
s.valid = [1, 4, 0]
s.flux = [1., 1., 1.]
s.error = [0.1, 0.1, 0.1]

info = FitInfo(s)
info.chi2 = np.array([3., 1., 2.])
info.av = np.array([0., 1., 2.])
info.sc = np.array([0., 1., 2.])
info.model_name = np.array(['a', 'b', 'c'])
info.model_fluxes = np.zeros((3, 3))
info.sort()   # ranked result

# control: two-element form
info.keep(('A', None))
assert info.n_fits == 3

try:
    info.keep(('A',))
except Exception as exc:
    print("FAIL: C05 clause \"('A',) keeps everything\": FitInfo.keep(('A',)) on a ranked "
          "result with 3 fits raised %s: %s instead of keeping all 3 fits "
          "(only the two-element spelling ('A', value) is accepted)." % (type(exc).__name__, exc))
    sys.exit(1)

assert info.n_fits == 3
print("OK")
