import sys
sys.path.insert(0, '/tmp/hunt3_C03/hunt_out')
from _common import *
from sedfitter.fit import Fitter
from sedfitter.source import Source
rng = np.random.default_rng(9)
nm, nf = 9, 5
names = ['m%03d' % i for i in range(nm)]
wavs = [0.5, 1.2, 3.6, 8.0, 24.]
fn = ['f%d' % i for i in range(nf)]
aps = np.logspace(1, 6, 8) * u.au
fl_dep = np.cumsum(10 ** rng.uniform(-1, 1, (nm, 8, nf)), axis=1)
fl_ind = 10 ** rng.uniform(-1, 2, (nm, 1, nf))
ext = extinction()
F1 = quiet(Fitter, fn, [3.] * nf * u.arcsec, write_v1(names, fl_ind, wavs, fn), extinction_law=ext, av_range=[0., 4.])
F2 = quiet(Fitter, fn, [3.] * nf * u.arcsec, write_v1(names, fl_dep, wavs, fn, apertures=aps), extinction_law=ext, av_range=[0., 4.], distance_range=[0.5, 3.] * u.kpc, remove_resolved=True)
def S(v, f, e):
    s = Source(); s.name = 'a'; s.x = 0.; s.y = 0.; s.valid = v; s.flux = f; s.error = e; return s
def eq(a, b, tol=1e-12):
    da, db = result_dict(a), result_dict(b)
    w = 0
    for k in da:
        for x, y in zip(da[k], db[k]):
            if x != y: w = max(w, abs(x - y) / max(1, abs(x)))
    return w
for F in (F1, F2):
    v = np.array([1, 2, 1, 3, 9]); f = np.array([3., 1., 7., 90., 4.]); e = np.array([1., 0.5, 2., 0.25, 1.])
    ref = F.fit(S(v, f, e))
    print('int', eq(ref, F.fit(S(v, f.astype(int), e))))  # error has 0.5 -> keep float
    print('f32', eq(ref, F.fit(S(v, f.astype(np.float32), e.astype(np.float32)))))
    print('BE', eq(ref, F.fit(S(v.astype('>i4'), f.astype('>f8'), e.astype('>f8')))))
    print('list', eq(ref, F.fit(S(list(v), tuple(f), list(e)))))
    ff = f.copy(); ff.setflags(write=False); vv = v.copy(); vv.setflags(write=False); ee = e.copy(); ee.setflags(write=False)
    print('ro', eq(ref, F.fit(S(vv, ff, ee))))
    big = np.zeros(15); big[::3] = f; bige = np.zeros(15); bige[::3] = e; bigv = np.zeros(15, dtype=int); bigv[::3] = v
    print('strided', eq(ref, F.fit(S(bigv[::3], big[::3], bige[::3]))))
    print('masked', eq(ref, F.fit(S(np.ma.array(v), np.ma.array(f, mask=[0, 0, 0, 0, 1]), np.ma.array(e)))))
    print('bool', eq(F.fit(S(np.array([1, 1, 0, 0, 1]), f, e)), F.fit(S(np.array([True, True, False, False, True]), f, e))))
