"""
C04 - "in every row the model name, model index, ... belong to the same model".

Call history: FitInfo.sort() (public, documented "Sort the fit results from
best to worst") is called once more on the result returned by Fitter.fit().
sort() sets  self.model_id = order  instead of  self.model_id[order], i.e. it
assumes that the rows are still in package order.  On an already sorted result
the order is the identity, so model_id becomes 0, 1, 2, ... and no longer
identifies the model named in the row (sort is not idempotent).
"""
import os, io, tempfile, contextlib
import numpy as np
from astropy import units as u
from astropy.table import Table

from sedfitter.convolved_fluxes import ConvolvedFluxes
from sedfitter.extinction import Extinction
from sedfitter.source import Source
from sedfitter.fit import Fitter

rng = np.random.RandomState(3)
n = 6
names = np.array(['m%d' % i for i in range(n)])
wavs = [1., 3., 8., 20.]
fl = 10 ** rng.uniform(-1, 2, (n, 4))

d = tempfile.mkdtemp()
os.mkdir(d + '/convolved')
for j, fn in enumerate(['f1', 'f2', 'f3', 'f4']):
    c = ConvolvedFluxes()
    c.central_wavelength = wavs[j] * u.micron
    c.model_names = names
    c.flux = fl[:, j:j + 1] * u.mJy
    c.error = c.flux * 0.01
    c.write(d + '/convolved/' + fn + '.fits')
with open(d + '/models.conf', 'w') as f:
    f.write("name = test\nlength_subdir = 0\naperture_dependent = no\nlogd_step = 0.02\n")
t = Table()
t['MODEL_NAME'] = np.array(names, dtype='S30')
t['par1'] = np.arange(n) * 1.
t.write(d + '/parameters.fits')

law = Extinction()
law.wav = np.logspace(-2., 3., 60) * u.micron
law.chi = law.wav.value ** -1.5 * u.cm ** 2 / u.g

with contextlib.redirect_stdout(io.StringIO()):
    fitter = Fitter(['f1', 'f2', 'f3', 'f4'], [3., 3., 3., 3.] * u.arcsec, d,
                    extinction_law=law, av_range=[0., 10.],
                    distance_range=[1., 2.] * u.kpc)

s = Source()
s.name = 'src'
s.x = 0.
s.y = 0.
s.valid = np.array([1, 1, 1, 1])
s.flux = np.array([1., 2., 3., 4.])
s.error = np.array([0.1, 0.2, 0.3, 0.4])

info = fitter.fit(s)
package_names = [str(x) for x in fitter.models.names]

first = [package_names[i] for i in info.model_id]
assert first == [str(x) for x in info.model_name], "unexpected: wrong already after fit()"
print("after fit()      :", [str(x) for x in info.model_name], list(info.model_id))

info.sort()     # harmless by its description: the result is sorted already
print("after 2nd sort() :", [str(x) for x in info.model_name], list(info.model_id))

assert np.all(np.diff(info.chi2) >= 0)
second = [package_names[i] for i in info.model_id]
assert second == [str(x) for x in info.model_name], (
    "C04 violated after calling the public FitInfo.sort() a second time on a fit "
    "result: model_id is now %s, which designates the models %s of the package, "
    "while the rows are named %s (sort() overwrites model_id with the sort "
    "permutation instead of permuting it)"
    % (list(info.model_id), second, [str(x) for x in info.model_name]))
print("OK")
