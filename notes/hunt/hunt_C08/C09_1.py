"""C09 violation (additional parameters in the table handed to plot_params_1d):
plot_params_1d(..., parameter='extra', additional={'extra': {model_name: value}}) raises
KeyError('extra'): the histogram range and the grey all-models histogram are computed from
the package's parameter table BEFORE the additional dictionary is attached (it is attached
only per source inside filter_table), so an additional parameter can never be the plotted
parameter and no table is handed over.  The same dictionary works in write_parameters
(checked first as a control).
"""
import os, io, tempfile, contextlib
os.environ['SEDFITTER_VERIF'] = '1'
import matplotlib
matplotlib.use('Agg')
import numpy as np
from astropy import units as u
from astropy.table import Table
from sedfitter.sed import SED
from sedfitter.filter import Filter
from sedfitter.extinction import Extinction
from sedfitter.convolve import convolve_model_dir
from sedfitter.source import Source
from sedfitter.fit import Fitter
from sedfitter import write_parameters, plot_params_1d, plot_params_2d
from sedfitter.utils import verif_hook


def quiet(fn, *a, **k):
    with contextlib.redirect_stdout(io.StringIO()), contextlib.redirect_stderr(io.StringIO()):
        return fn(*a, **k)


d = tempfile.mkdtemp()
names = ['m_b', 'm_a', 'm_10', 'm_9', 'm_c', 'M_d']
rng = np.random.RandomState(0)
os.mkdir(d + '/seds')
for name in names:
    s = SED()
    s.name = name
    s.distance = 1 * u.kpc
    s.wav = np.logspace(-1, 3, 80) * u.micron
    s.nu = s.wav.to(u.Hz, equivalencies=u.spectral())
    s.apertures = None
    s.flux = (1 + rng.random_sample((1, 80))) * s.wav.value ** rng.uniform(-1, 1) * u.mJy
    s.error = s.flux * 0.01
    s.write(d + '/seds/' + name + '_sed.fits')
with open(d + '/models.conf', 'w') as f:
    f.write("name = test\nlength_subdir = 0\naperture_dependent = no\nlogd_step = 0.02\n")
t = Table()
t['MODEL_NAME'] = np.array(names)
t['par1'] = np.arange(6.) + 1
t['par2'] = (np.arange(6.) + 1) * 100
t[[3, 0, 5, 1, 4, 2]].write(d + '/parameters.fits')
filters = []
for name, lo, hi, cw in [('alice', 1., 5., 3.), ('bob', 10., 15., 12.), ('eve', 15., 25., 20.)]:
    f = Filter()
    f.name = name
    f.central_wavelength = cw * u.micron
    f.nu = (np.linspace(hi, lo, 60) * u.micron).to(u.Hz, equivalencies=u.spectral())
    f.response = 0.5 + rng.random_sample(60)
    f.normalize()
    filters.append(f)
quiet(convolve_model_dir, d, filters)
ext = Extinction()
ext.wav = np.logspace(-2., 3., 50) * u.micron
ext.chi = ext.wav.value ** -1.5 * u.cm ** 2 / u.g
fitter = quiet(Fitter, ['bob', 'alice', 'eve'], [3., 3., 3.] * u.arcsec, d, extinction_law=ext,
               av_range=[0., 10.], distance_range=[1., 3.] * u.kpc)
src = Source()
src.name = 'src'
src.x = src.y = 0.
src.valid = [1, 1, 1]
src.flux = np.array([1., 2., 3.])
src.error = src.flux * 0.1
info = fitter.fit(src)

additional = {'extra': {name: 0.5 + i for i, name in enumerate(names)}}

# control: the dictionary is fine for write_parameters
write_parameters(info, d + '/pars.txt', select_format=('A', 0), additional=additional)
for row in open(d + '/pars.txt').read().split('\n')[4:]:
    if row.strip():
        c = row.split()
        assert abs(float(c[-1]) - additional['extra'][c[1]]) < 1e-6

problems = []


def handed(where):
    recs = [r for r in verif_hook.RECORDS if r[0] == where]
    if not recs:
        return None
    tab = recs[-1][1]['table']
    return [(str(n), float(v)) for n, v in zip(tab['MODEL_NAME'], tab['extra'])]


try:
    quiet(plot_params_1d, info, 'extra', output_dir=d + '/plots_1d', select_format=('A', 0),
          additional=additional, format='png')
    got = handed('plot_params_1d')
    assert got == [(str(n), additional['extra'][str(n)]) for n in info.model_name], got
except Exception as e:
    problems.append("plot_params_1d(parameter='extra', additional=<dict>) -> %r" % (e,))

for p in problems:
    print(p)
assert not problems, ("C09 violated (clause 'user-supplied additional parameters are attached by model name ... in the table "
                      "handed to the parameter plots', quantifier 'optional additional-parameter dictionaries'): with "
                      "additional={'extra': {model_name: value}} (accepted by write_parameters) " + " | ".join(problems))
print('OK')
