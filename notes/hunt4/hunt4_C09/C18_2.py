"""
C18 (borderline) - when all sources fall on one side of the threshold, the other output
file is written with zero bytes (not even the metadata header), and such a file cannot be
read back: FitInfoFile(name, 'r') and every post-processing function (write_parameters,
filter_output itself, ...) raise EOFError.  The split is complete and disjoint only for a
reader that special-cases an unreadable file as 'no sources'; 'records read back from the
two output files' is not possible with the package's own reader.
"""
import os, sys, io, tempfile, contextlib
import numpy as np
from astropy.table import Table
from astropy import units as u

from sedfitter import fit, filter_output, write_parameters
from sedfitter.fit_info import FitInfoFile
from sedfitter.convolved_fluxes import ConvolvedFluxes
from sedfitter.extinction import Extinction

d = tempfile.mkdtemp()
os.mkdir(os.path.join(d, 'convolved'))
names = ['m3', 'm1', 'm2', 'm0']
rng = np.random.RandomState(1)
for i in range(3):
    c = ConvolvedFluxes()
    c.central_wavelength = (1. + i) * u.micron
    c.model_names = np.array(names)
    c.apertures = None
    c.flux = (1 + rng.random_sample((4, 1))) * u.mJy
    c.error = c.flux * 0.01
    c.write(os.path.join(d, 'convolved', 'f%d.fits' % i))
open(os.path.join(d, 'models.conf'), 'w').write(
    "name = test\nlength_subdir = 0\naperture_dependent = no\nlogd_step = 0.02\n")
t = Table()
t['MODEL_NAME'] = np.array(names, dtype='S30')
t['par1'] = [3., 1., 2., 0.]
t.write(os.path.join(d, 'parameters.fits'))

e = Extinction()
e.wav = np.logspace(-2., 3.) * u.micron
e.chi = e.wav.value ** -2 * u.cm ** 2 / u.g

out = tempfile.mkdtemp()
data = os.path.join(out, 'data')
open(data, 'w').write("s1 0 0 1 1 1 1.2 0.1 1.3 0.2 1.5 0.3\ns3 0 0 1 1 1 1.3 0.1 1.2 0.2 1.6 0.3\n")
fits = os.path.join(out, 'fits')
with contextlib.redirect_stdout(io.StringIO()):
    fit(data, ['f0', 'f1', 'f2'], [1., 1., 1.] * u.arcsec, d, fits,
        extinction_law=e, av_range=[0., 0.1], output_format=('A',))

filter_output(fits, chi=1.e6)       # both sources are 'good'
good = [i.source.name for i in FitInfoFile(fits + '_good', 'r')]
assert good == ['s1', 's3'], good

problems = []
try:
    bad = [i.source.name for i in FitInfoFile(fits + '_bad', 'r')]
    assert bad == []
except Exception as exc:
    problems.append("FitInfoFile(bad, 'r') -> %s: %s" % (type(exc).__name__, exc))
try:
    write_parameters(fits + '_bad', os.path.join(out, 'p.txt'))
except Exception as exc:
    problems.append("write_parameters(bad, ...) -> %s: %s" % (type(exc).__name__, exc))

assert not problems, (
    "C18 (two complete files / records read back from the two output files): with all sources "
    "below the threshold the 'bad' file has %d bytes and cannot be read back as a file of "
    "zero sources:\n  %s" % (os.path.getsize(fits + '_bad'), "\n  ".join(problems)))
print("no violation")
