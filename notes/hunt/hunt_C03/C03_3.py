import os, io, sys, tempfile, contextlib, warnings
import numpy as np
warnings.simplefilter('ignore')
from astropy import units as u
from sedfitter.convolved_fluxes import ConvolvedFluxes
from sedfitter.extinction import Extinction
from sedfitter.source import Source
from sedfitter.fit import Fitter


def ext():
    e = Extinction()
    e.wav = np.logspace(-2., 3., 50) * u.micron
    e.chi = e.wav.value ** -1.5 * u.cm ** 2 / u.g
    return e


def make_dir(names, fluxes, wavs, apertures=None):
    """Per-file (version 1) package holding only what the fitter reads:
    models.conf and convolved/<filter>.fits.
    fluxes: (n_models, n_wav) or (n_models, n_ap, n_wav), in mJy"""
    d = tempfile.mkdtemp()
    os.mkdir(os.path.join(d, 'convolved'))
    filt_names = ['F%d' % i for i in range(len(wavs))]
    for i in range(len(wavs)):
        c = ConvolvedFluxes()
        c.model_names = np.array(names)
        c.central_wavelength = wavs[i] * u.micron
        if apertures is not None:
            c.apertures = np.array(apertures) * u.au
            c.flux = np.array(fluxes)[:, :, i] * u.mJy
        else:
            c.flux = np.array(fluxes)[:, i].reshape(-1, 1) * u.mJy
        c.error = c.flux * 0.
        c.write(os.path.join(d, 'convolved', filt_names[i] + '.fits'))
    with open(os.path.join(d, 'models.conf'), 'w') as f:
        f.write("name = test\nlength_subdir = 0\naperture_dependent = %s\nlogd_step = 0.02\n"
                % ('yes' if apertures is not None else 'no'))
    return d, filt_names


def quiet(fn, *a, **k):
    with contextlib.redirect_stdout(io.StringIO()):
        return fn(*a, **k)


def src(valid, flux, error):
    s = Source()
    s.name = 's'
    s.x = 0.
    s.y = 0.
    s.valid = np.array(valid)
    s.flux = np.array(flux, dtype=float)
    s.error = np.array(error, dtype=float)
    return s


def row(info, name):
    i = list(info.model_name).index(name)
    return float(info.chi2[i]), float(info.av[i]), float(info.sc[i])
from sedfitter.sed import SEDCube

# ---------------------------------------------------------------------------
# C03, clause "Points flagged 0 (unused) ... never influence any fit output"
# and the limit clause, on a cube package whose fluxes are all strictly
# positive, with the DEFAULT Fitter options (use_memmap=True, which is also
# what sedfitter.fit() always uses).
#
# Model model_0 is deeply embedded: 1e-50 mJy at the short wavelengths.
# Models._read_version_2 stores the model fluxes in a float32 memmap, so the
# value underflows to exactly 0, log10 becomes -inf, and the band - although it
# is flagged 0 (or is an upper limit that the model satisfies by 50 orders of
# magnitude) - turns A_V, scale and chi^2 of that model into NaN.
# With use_memmap=False the same call ranks model_0 second.
# ---------------------------------------------------------------------------
rng = np.random.RandomState(5)
nm = 4
wav = np.logspace(-1, 2, 30)
val = 10 ** rng.uniform(-1, 1, (nm, 1, 30))
val[0, 0, :8] = 1e-50
names = np.array(['model_%d' % i for i in range(nm)])

d = tempfile.mkdtemp()
cube = SEDCube()
cube.names = names
cube.distance = 1 * u.kpc
cube.wav = wav * u.micron
cube.apertures = None
cube.val = val * u.mJy
cube.unc = cube.val * 0.01
cube.write(os.path.join(d, 'flux.fits'))
with open(os.path.join(d, 'models.conf'), 'w') as f:
    f.write("name = test\nlength_subdir = 0\naperture_dependent = no\nlogd_step = 0.02\nversion = 2\n")

filt = [wav[5] * u.micron, wav[10] * u.micron, wav[15] * u.micron, wav[20] * u.micron]
kw = dict(extinction_law=ext(), av_range=[0., 4.], distance_range=[1., 1.2] * u.kpc)
F_default = quiet(Fitter, filt, [3.] * 4 * u.arcsec, d, **kw)
F_nomemmap = quiet(Fitter, filt, [3.] * 4 * u.arcsec, d, use_memmap=False, **kw)

failures = []
for label, v0, e0 in (('flag 0', 0, .5), ('flag 9', 9, .5), ('upper limit, confidence 0.5', 3, .5)):
    s = src([v0, 1, 1, 1], [1., 2., 3., 4.], [e0, .1, .1, .1])
    a = F_default.fit(s)
    b = F_nomemmap.fit(s)
    ra, rb = row(a, 'model_0'), row(b, 'model_0')
    print(label, 'default      : model_0 chi2=%r av=%r scale=%r' % ra, 'ranking', [str(x) for x in a.model_name])
    print(label, 'no memmap    : model_0 chi2=%r av=%r scale=%r' % rb, 'ranking', [str(x) for x in b.model_name])
    if not np.all(np.isfinite(ra)) or not np.allclose(ra, rb, rtol=1e-5):
        failures.append('band 0 %s: model_0 gives %r, expected about %r' % (label, ra, rb))

assert not failures, ("C03 violated on a cube package with strictly positive fluxes and default options: an unused band "
                      "(or a satisfied upper limit) destroys the fit of a model that is merely very faint there:\n  "
                      + "\n  ".join(failures))
print("no violation")
