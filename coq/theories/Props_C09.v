(* C09 — parameter listings follow the fit ranking, for any parameter-file order.
   Model: TableProofs.prep_table_m (strip + sort by name) then FTable.filter_table_m (in1d mask, argsort(argsort(names)),
   gather, post-check); TableProofs.ranges_m (nanmin, first, nanmax).  Proofs: Argsort, Table, FTable, TableProofs. *)
From Coq Require Import List ZArith Permutation Sorted.
Import ListNotations.
From SedV Require Import Argsort Table FTable Xnum FitModel TableProofs.

(* for ANY row order of the parameter file (distinct names, containing the distinct fit names): the listing has one row per
   selected fit, row i carries the name of fit i, and every row is a row of the parameter file *)
Theorem C09_lookup : forall (P : Type) (dP : P) (table : list (trow P)) names,
  NoDup (map fst table) -> NoDup names -> (forall k, In k names -> In k (map fst table)) ->
  exists out, filter_table_m P dP (prep_table_m P dP table) names = Some out /\ map fst out = names /\
              (forall r, In r out -> In r table).
Proof. exact lookup_any_order. Qed.

(* ... hence it is the by-name lookup: a row of the table is determined by its name *)
Theorem C09_by_name : forall (P : Type) (table : list (trow P)) r r',
  NoDup (map fst table) -> In r table -> In r' table -> fst r = fst r' -> r = r'.
Proof. exact lookup_unique. Qed.

(* on a name-sorted table the same holds without preparation (what filter_table itself assumes) *)
Theorem C09_lookup_sorted : forall (P : Type) (dP : P) (table : list (trow P)) names,
  StronglySorted Z.lt (map fst table) -> NoDup names -> (forall k, In k names -> In k (map fst table)) ->
  exists out, filter_table_m P dP table names = Some out /\ map fst out = names /\ (forall r, In r out -> In r table).
Proof. exact FTable.C09_lookup. Qed.

(* the index identity behind it: gather (sort k) (argsort (argsort k)) = k, for any keys *)
Theorem C09_rank_of_rank : forall (A : Type) (leb : A -> A -> bool) (d : A) (k : list A),
  gather A d (gather A d k (argsort A leb d k)) (argsort nat Nat.leb 0%nat (argsort A leb d k)) = k.
Proof. exact rank_of_rank. Qed.

(* the preparation only re-orders rows *)
Theorem C09_prep_perm : forall (P : Type) (dP : P) (table : list (trow P)), Permutation (prep_table_m P dP table) table.
Proof. exact prep_perm. Qed.

(* ranges: best = rank 1; every selected non-NaN value lies between the printed minimum and maximum *)
Theorem C09_ranges : forall l lo best hi, ranges_m l = Some (lo, best, hi) ->
  best = hd NaN l /\ forall x, In x l -> notnan x -> xleb lo x = true /\ xleb x hi = true.
Proof. exact ranges_spec. Qed.

Example C09_example :
  filter_table_m Z (-1)%Z (prep_table_m Z (-1)%Z [(30, 0); (10, 1); (20, 2)]%Z) [20; 30]%Z = Some [(20, 2); (30, 0)]%Z.
Proof. reflexivity. Qed.

(* user-supplied additional parameters are attached by model name: the value in row i is the dictionary's entry for the model
   of fit i; a column exists whenever every selected model has an entry; the order of the dictionary is irrelevant *)
From SedV Require Import ReadM Additional.
Theorem C09_additional_by_name : forall (V : Type) extra names vs, attach_col V extra names = Some vs ->
  length vs = length names /\ forall i d, (i < length names)%nat -> lookup V (nth i names 0%Z) extra = Some (nth i vs d).
Proof. exact attach_by_name. Qed.

Theorem C09_additional_total : forall (V : Type) extra names, (forall k, In k names -> In k (map fst extra)) ->
  exists vs, attach_col V extra names = Some vs.
Proof. exact attach_total. Qed.

Theorem C09_additional_dict_order : forall (V : Type) extra extra' names, NoDup (map fst extra) -> Permutation extra extra' ->
  attach_col V extra names = attach_col V extra' names.
Proof. exact attach_dict_order. Qed.

Example C09_additional_example :
  attach_col Z [(3, 30); (1, 10); (2, 20)]%Z [2; 3]%Z = Some [20; 30]%Z /\ attach_col Z [(3, 30)]%Z [2; 3]%Z = None.
Proof. split; reflexivity. Qed.
