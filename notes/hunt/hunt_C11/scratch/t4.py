import numpy as np, tempfile, os
from astropy import units as u
from sedfitter.sed import SED, SEDCube
try:
    c = SEDCube(names=['a','b'], distance=1*u.kpc, wav=[1,2,3]*u.micron, val=np.ones((2,1,3))*u.mJy)
    print('ok ctor', c.val.shape)
except Exception as e:
    import traceback; traceback.print_exc()
try:
    c = SEDCube(names=['a','b'], distance=1*u.kpc, nu=[1,2,3]*u.Hz, val=np.ones((2,1,3))*u.mJy)
    print('ok ctor', c.val.shape)
except Exception as e:
    import traceback; traceback.print_exc()
