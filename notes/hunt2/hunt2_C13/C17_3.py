"""
C17 (LOW CONFIDENCE - the clause cannot be met by ANY single curve on this
input): "at each fitted monochromatic wavelength the curve drawn for that
filter's aperture (the single composite curve in the default display mode)
passes through the predicted flux stored with the fit".

Two data points at the SAME tabulated wavelength measured in DIFFERENT apertures
(e.g. two photometry apertures at 24 micron) are a legal input of Fitter; the fit
stores two different predicted fluxes for them.  In the default display mode
('interp') SED.interpolate_variable builds aperture(wavelength) with interp1d on
a wavelength axis that contains the duplicate, so one of the two apertures is
silently dropped and the composite curve passes through only one of the two
predictions (30% off the other).  With sed_type='all' both are met.
"""
import os, sys, tempfile, io, contextlib
import numpy as np
import matplotlib
matplotlib.use('Agg')
from astropy import units as u

# ---- helper: a small cube package built with the public API ----
import os
import numpy as np
from astropy import units as u
from astropy.table import Table
from sedfitter.sed import SEDCube
from sedfitter.extinction import Extinction


def make_pkg(d, n_models=4, n_ap=5, n_wav=12, aperture_dependent=True, seed=1):
    rng = np.random.RandomState(seed)
    cube = SEDCube()
    cube.names = np.array(['m_%02d' % i for i in range(n_models)])
    cube.distance = 1 * u.kpc
    cube.wav = np.logspace(-1, 3, n_wav) * u.micron
    cube.apertures = np.logspace(2, 5, n_ap) * u.au
    cube.val = np.cumsum(0.5 + rng.random_sample((n_models, n_ap, n_wav)), axis=1) * u.mJy
    cube.unc = cube.val * 0.01
    cube.write(os.path.join(d, 'flux.fits'))
    with open(os.path.join(d, 'models.conf'), 'w') as f:
        f.write("name = test\nlength_subdir = 0\naperture_dependent = %s\nlogd_step = 0.02\nversion = 2\n"
                % ('yes' if aperture_dependent else 'no'))
    t = Table()
    t['MODEL_NAME'] = np.array(cube.names, dtype='S')
    t['par1'] = rng.random_sample(n_models)
    t.write(os.path.join(d, 'parameters.fits'))
    return cube


def law():
    e = Extinction()
    e.wav = np.logspace(-2., 4., 80) * u.micron
    e.chi = e.wav.value ** -1.5 * 200. * u.cm ** 2 / u.g
    return e

# ratio (drawn curve) / (stored prediction) that the rounded constants of plot.py produce
CONST = (3.0856775814913673e21 / 3.086e21) ** 2 * (2.99792458e8 / 3.e8)
# ---- end of helper ----

from sedfitter.fit import Fitter
from sedfitter.source import Source
from sedfitter import plot

d = tempfile.mkdtemp()
with contextlib.redirect_stdout(io.StringIO()):
    cube = make_pkg(d)
    wavs = cube.wav.to(u.micron).value
    fitter = Fitter([wavs[3] * u.micron, wavs[3] * u.micron, wavs[8] * u.micron], [2., 4., 9.] * u.arcsec, d,
                    extinction_law=law(), av_range=[0., 5.], distance_range=[0.5, 3.] * u.kpc, use_memmap=False)
s = Source()
s.name = 'src'; s.x = 0.; s.y = 0.
s.valid = [1, 1, 1]; s.flux = np.array([3., 4., 5.]); s.error = s.flux * 0.1
info = fitter.fit(s)

wav = np.array([f['wav'].to(u.micron).value for f in fitter.filters])
pred = 10. ** (info.model_fluxes - 26. + np.log10(3.e8 / (wav * 1.e-6)))

# sed_type='all': one curve per aperture, each passes through its own prediction
figs = plot(info, select_format=('N', 1), sed_type='all', memmap=False)
segs = figs['src']['lines'].get_segments()
assert len(segs) == 3
for j in range(3):
    y = segs[j][np.argmin(np.abs(segs[j][:, 0] - wav[j])), 1]
    assert abs(y / pred[0, j] / CONST - 1) < 1e-6

figs = plot(info, select_format=('N', 1), sed_type='interp', memmap=False)
seg = figs['src']['lines'].get_segments()[0]
drawn = np.array([seg[np.argmin(np.abs(seg[:, 0] - w)), 1] for w in wav])
ratio = drawn / pred[0] / CONST
assert np.allclose(ratio, 1., rtol=1e-6), \
    ("C17 (composite curve passes through the predicted flux at each fitted wavelength): filters at %s micron "
     "with apertures 2/4/9 arcsec: the composite curve is at %s, the stored predictions are %s, ratio %s"
     % (wav, drawn, pred[0], ratio))
print("no violation")
