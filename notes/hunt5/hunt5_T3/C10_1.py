"""
C10 (borderline): "Reading the file returns every record and the shared
metadata ... unchanged", histories "all sequences of >= 1 records written then
read", and "a file, one result object or a list of result objects
interchangeably".

A FitInfoFile opened on a *file* can be iterated only once: a second pass over
the same reader returns no record at all (silently), and two passes that are
interleaved (zip(f, f)) split the records between them.  The same object built
on a *list* of results returns every record on every pass, so the two forms
are not interchangeable for a caller that iterates twice (e.g. one pass to
count / collect source names, one pass to use the records).
"""
import os, io, tempfile, contextlib
import numpy as np
from astropy.table import Table
from astropy import units as u
from sedfitter import fit
from sedfitter.sed import SED
from sedfitter.filter import Filter
from sedfitter.convolve import convolve_model_dir
from sedfitter.extinction import Extinction
from sedfitter.fit_info import FitInfoFile


def quiet(fn, *a, **k):
    with contextlib.redirect_stdout(io.StringIO()):
        return fn(*a, **k)


d = tempfile.mkdtemp()
names = ['m_%02d' % i for i in range(4)]
rng = np.random.RandomState(1)
os.mkdir(os.path.join(d, 'seds'))
for i, nm in enumerate(names):
    sed = SED()
    sed.name = nm
    sed.distance = 1 * u.kpc
    sed.wav = np.logspace(-1., 2., 60) * u.micron
    sed.nu = sed.wav.to(u.Hz, equivalencies=u.spectral())
    sed.apertures = None
    sed.flux = (1 + rng.random_sample((1, 60))) * (i + 1) * u.mJy
    sed.error = sed.flux * 0.01
    sed.write(os.path.join(d, 'seds', nm + '_sed.fits'))
with open(os.path.join(d, 'models.conf'), 'w') as f:
    f.write("name = test\nlength_subdir = 0\naperture_dependent = no\nlogd_step = 0.02\n")
t = Table()
t['MODEL_NAME'] = np.array(names, dtype='S30')
t['par1'] = np.arange(4.)
t.write(os.path.join(d, 'parameters.fits'))
filters = []
for nm, lo, hi, c in [('f1', 1., 2., 1.5), ('f2', 3., 5., 4.), ('f3', 8., 12., 10.)]:
    fl = Filter()
    fl.name = nm
    fl.central_wavelength = c * u.micron
    fl.nu = (np.linspace(hi, lo, 20) * u.micron).to(u.Hz, equivalencies=u.spectral())
    fl.response = np.ones(20)
    fl.normalize()
    filters.append(fl)
quiet(convolve_model_dir, d, filters=filters)

law = Extinction()
law.wav = np.logspace(-2., 3.) * u.micron
law.chi = law.wav.value ** -2 * u.cm ** 2 / u.g

with open(d + '/data', 'w') as f:
    f.write("s1 0.0 0.0 1 1 1 0.2 0.1 1.3 0.2 1.5 0.3\n"
            "s2 0.0 0.0 1 1 1 0.2 0.05 1.2 0.1 1.8 0.3\n"
            "s3 0.0 0.0 1 1 1 2.2 0.05 1.2 0.5 1.8 0.3\n")
out = d + '/out.fitinfo'
quiet(fit, d + '/data', ['f1', 'f2', 'f3'], [1., 1., 1.] * u.arcsec, d, out,
      extinction_law=law, av_range=[0., 5.], output_format=('A',))

# the same results as a list (read by an independent reader)
as_list = list(FitInfoFile(out, 'r'))
assert [r.source.name for r in as_list] == ['s1', 's2', 's3']

from_list = FitInfoFile(as_list, 'r')
first_l = [r.source.name for r in from_list]
second_l = [r.source.name for r in from_list]
assert first_l == second_l == ['s1', 's2', 's3']     # list form: every pass complete

from_file = FitInfoFile(out, 'r')
first_f = [r.source.name for r in from_file]
second_f = [r.source.name for r in from_file]
pairs = [(a.source.name, b.source.name) for a, b in zip(FitInfoFile(out, 'r'), as_list)]
inter = FitInfoFile(out, 'r')
interleaved = [(a.source.name, b.source.name) for a, b in zip(inter, inter)]
print('file form : first pass', first_f, ' second pass', second_f)
print('list form : first pass', first_l, ' second pass', second_l)
print('zip(f, f) on the file form:', interleaved)

assert first_f == ['s1', 's2', 's3']
assert second_f == first_f, (
    "C10 'reading the file returns every record' / 'file, object or list interchangeably': "
    "a second pass over FitInfoFile(%r, 'r') returned %r instead of %r, while the same "
    "results passed as a list are returned in full on every pass (%r); zip(f, f) gives %r"
    % (out, second_f, first_f, second_l, interleaved))
