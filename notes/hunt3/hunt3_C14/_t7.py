import sys; sys.path.insert(0, '/tmp/hunt3_C14/hunt_out')
from _lib import *
import shutil
from sedfitter.convolve import convolve_model_dir_monochromatic as mono
from astropy import log; log.setLevel('ERROR')
import sedfitter.convolve.monochromatic as M
class PB:
    def __init__(self, n): pass
    def update(self): pass
M.ProgressBar = PB

d, wav, pnames, truth = build(n_wav=5, n_ap=2, n_models=3)
# rewrite some SED files in ascending wavelength order
for k, fn in enumerate(sorted(glob.glob(d + '/seds/*.fits'))):
    if k in (0, 2):
        h = fits.open(fn)
        h[1].data = h[1].data[::-1].copy()
        tf = h[3].data
        new = tf.copy()
        new['TOTAL_FLUX'] = tf['TOTAL_FLUX'][:, ::-1]
        new['TOTAL_FLUX_ERR'] = tf['TOTAL_FLUX_ERR'][:, ::-1]
        h[3].data = new
        h.writeto(fn, overwrite=True)
t = mono(d, max_ram=2.5 * 8 * 3 * 2 / 1024.**3, wav_min=0.7*u.micron, wav_max=8*u.micron)
print(t)
for f in sorted(os.listdir(d + '/convolved')):
    c = ConvolvedFluxes.read(d + '/convolved/' + f)
    iw = list(wav).index(c.central_wavelength.value)
    for k, nm in enumerate(pnames):
        assert c.model_names[k] == nm
        assert np.allclose(c.flux[k].value, truth[nm][0][:, iw], rtol=1e-13), f
        assert np.allclose(c.error[k].value, truth[nm][1][:, iw], rtol=1e-13), f
print('asc ok')
# apertureless
d = tempfile.mkdtemp(); os.mkdir(d + '/seds')
for i in range(3):
    s = SED(); s.name = 'x%d' % i; s.distance = 1*u.kpc; s.wav = [1, 2, 3.] * u.micron; s.nu = s.wav.to(u.Hz, equivalencies=u.spectral())
    s.flux = np.array([[1., 2, 3]]) * (i + 1) * u.mJy; s.error = s.flux * 0.1
    s.write(d + '/seds/x%d_sed.fits' % i)
open(d + '/models.conf', 'w').write("name = test\nlength_subdir = 0\naperture_dependent = no\nlogd_step = 0.02\n")
t = Table(); t['MODEL_NAME'] = np.array(['x2', 'x0', 'x1'], dtype='S30'); t.write(d + '/parameters.fits.gz')
print(mono(d + '/', max_ram=1e-9))
for f in sorted(os.listdir(d + '/convolved')):
    c = ConvolvedFluxes.read(d + '/convolved/' + f)
    print(f, c.central_wavelength, list(c.model_names), c.flux.ravel(), c.error.ravel(), c.apertures)
