"""C10 - clause: "The fit output file contains exactly one record for each input
line whose number of fitted points reaches n_data_min, in input order".

BORDERLINE (depends on whether a data file may contain an empty separator line;
the data-format page neither allows nor forbids it): fit() treats the first line
with fewer than three columns as the end of the file (Source.from_ascii raises
EOFError, fit() breaks out of its loop), so every eligible source that follows a
blank line is silently dropped - no record, no warning, no error.  A blank
FIRST line (the pipeline test strips it for that reason) leaves a zero-byte
output although the file holds eligible sources.
"""
import os, io, tempfile, contextlib
import numpy as np
from astropy import units as u
from astropy.table import Table

from sedfitter import fit
from sedfitter.fit_info import FitInfoFile
from sedfitter.convolved_fluxes import ConvolvedFluxes
from sedfitter.extinction import Extinction

quiet = lambda: contextlib.redirect_stdout(io.StringIO())

d = tempfile.mkdtemp()
os.mkdir(os.path.join(d, 'convolved'))
names = np.array(['model_a', 'model_b', 'model_c', 'model_d'])
rng = np.random.RandomState(0)
for j, w in enumerate([1.2, 3.6, 8.0]):
    c = ConvolvedFluxes()
    c.model_names = names
    c.central_wavelength = w * u.micron
    c.flux = 10 ** rng.uniform(0, 1, (4, 1)) * u.mJy
    c.error = c.flux * 0.
    c.write(os.path.join(d, 'convolved', 'F%d.fits' % j))
open(os.path.join(d, 'models.conf'), 'w').write(
    "name = test\nlength_subdir = 0\naperture_dependent = no\nlogd_step = 0.02\n")
t = Table()
t['MODEL_NAME'] = names.astype('S30')
t['par1'] = [1., 2., 3., 4.]
t.write(os.path.join(d, 'parameters.fits'))

ext = Extinction()
ext.wav = np.logspace(-2., 3., 50) * u.micron
ext.chi = ext.wav.value ** -1.5 * u.cm ** 2 / u.g

l1 = "src1 0.0 0.0 1 1 1 0.2 0.02 1.3 0.1 1.5 0.1"
l2 = "src2 0.0 0.0 1 1 1 2.2 0.05 1.2 0.1 0.8 0.1"
l3 = "src3 0.0 0.0 1 1 1 1.2 0.05 1.2 0.1 0.8 0.1"


def run(text, tag):
    data = os.path.join(d, 'data_' + tag)
    open(data, 'w').write(text)
    out = os.path.join(d, 'out_' + tag)
    with quiet():
        fit(data, ['F0', 'F1', 'F2'], [3., 3., 3.] * u.arcsec, d, out,
            extinction_law=ext, av_range=[0., 5.], distance_range=[1., 2.] * u.kpc,
            output_format=('N', 1))
    if os.path.getsize(out) == 0:
        return []
    f = FitInfoFile(out, 'r')
    got = [r.source.name for r in f]
    f.close()
    return got


ref = run(l1 + "\n" + l2 + "\n" + l3 + "\n", 'plain')
assert ref == ['src1', 'src2', 'src3'], ref
mid = run(l1 + "\n\n" + l2 + "\n" + l3 + "\n", 'blank_mid')
lead = run("\n" + l1 + "\n" + l2 + "\n" + l3 + "\n", 'blank_first')
assert mid == ref and lead == ref, (
    "C10 (one record per eligible input line): with an empty line after the first source "
    "fit() wrote records for %s only, with an empty first line for %s; the three eligible "
    "lines src1, src2, src3 are all present in the data file and no error was raised"
    % (mid, lead))
print("no violation")
