import os, sys, tempfile, io, contextlib
sys.path.insert(0, os.path.dirname(__file__))
import numpy as np
from astropy import units as u
from common import build_models, extinction
from sedfitter import fit
from sedfitter.fit_info import FitInfoFile
for apdep in [False, True]:
  d = tempfile.mkdtemp()
  build_models(d, aperture_dependent=apdep)
  for filt, lines in [(['alice','bob'], ["s1 0 0 1 1.5 0.1"]), (['alice','bob','eve'], ["s1 0 0 1 1.5 0.1"]), (['alice'], ["s1 0 0 1 1 1.5 0.1 2.5 0.2"]),(['alice','bob'], ["s1 0 0 1 1 1 1.5 0.1 2.5 0.2 3.5 0.2"]),]:
    data = os.path.join(d, 'data%d'%np.random.randint(1e9)); open(data,'w').write("\n".join(lines)+"\n")
    out = data+'.out'
    try:
        with contextlib.redirect_stdout(io.StringIO()):
            fit(data, filt, [3.]*len(filt)*u.arcsec, d, out, n_data_min=1, extinction_law=extinction(), distance_range=[1.,2.]*u.kpc, av_range=[0.,1.], output_format=('A',), output_convolved=True)
        recs = list(FitInfoFile(out,'r'))
        print(apdep, filt, lines, 'ACCEPTED', len(recs), recs[0].chi2[:3], recs[0].model_fluxes.shape)
    except Exception as e:
        print(apdep, filt, lines, 'ERR', type(e).__name__, e)
