(* FitInfo.sort: one argsort of chi2 (numpy order, NaN last) applied to every column. *)
From Coq Require Import QArith Lqa Lia List Bool ZArith Permutation Sorted.
Import ListNotations.
From SedV Require Import Xnum Argsort SortRows FilterOut FitModel Keep.

Section Gen.
Variable A : Type.
Variable leb : A -> A -> bool.
Variable d : A.
Hypothesis leb_total : forall a b, leb a b = true \/ leb b a = true.
Hypothesis leb_trans : forall a b c, leb a b = true -> leb b c = true -> leb a c = true.

Lemma ins_sorted_gen k i l :
  StronglySorted (fun a b => leb (k a) (k b) = true) l -> StronglySorted (fun a b => leb (k a) (k b) = true) (ins A leb k i l).
Proof.
  induction 1 as [|j r S IH F]; simpl.
  - constructor; constructor.
  - destruct (leb (k j) (k i)) eqn:E.
    + constructor; [exact IH|]. apply Forall_forall. intros x Hx.
      eapply Permutation_in in Hx; [|apply ins_perm].
      destruct Hx as [<-|Hx]; [exact E|]. rewrite Forall_forall in F. now apply F.
    + assert (E' : leb (k i) (k j) = true) by (destruct (leb_total (k i) (k j)); congruence).
      constructor; [constructor; assumption|].
      constructor; [exact E'|]. rewrite Forall_forall in F |- *. intros x Hx. eapply leb_trans; [exact E'|now apply F].
Qed.

Lemma isort_sorted_gen k l : StronglySorted (fun a b => leb (k a) (k b) = true) (isort A leb k l).
Proof. induction l; simpl; [constructor|now apply ins_sorted_gen]. Qed.

Lemma gather_sorted_gen (l : list A) :
  StronglySorted (fun a b => leb a b = true) (gather A d l (argsort A leb d l)).
Proof.
  unfold gather, argsort. set (k := fun i => nth i l d).
  pose proof (isort_sorted_gen k (seq 0 (length l))) as H.
  induction H as [|a r S IH F]; simpl; constructor; [exact IH|].
  rewrite Forall_forall in F |- *. intros x Hx. apply in_map_iff in Hx. destruct Hx as (j & <- & Hj). now apply F.
Qed.
End Gen.

Lemma xleb_total a b : xleb a b = true \/ xleb b a = true.
Proof.
  destruct a as [x| | |], b as [y| | |]; simpl; auto.
  destruct (Qlt_le_dec x y) as [L|L]; [left|right]; apply Qle_bool_iff; lra.
Qed.
Lemma xleb_trans a b c : xleb a b = true -> xleb b c = true -> xleb a c = true.
Proof.
  destruct a as [x| | |], b as [y| | |], c as [z| | |]; simpl; intros H1 H2; try discriminate; try reflexivity.
  apply Qle_bool_iff in H1. apply Qle_bool_iff in H2. apply Qle_bool_iff. lra.
Qed.
Lemma xleb_xord a b : xleb a b = true <-> xord a b.
Proof. destruct a as [x| | |], b as [y| | |]; simpl; try tauto; try (split; [discriminate|contradiction]). apply Qle_bool_iff. Qed.

(* the ranked chi^2 column is sorted in numpy's order (NaN last) *)
Theorem rank_sorted chi : StronglySorted (fun a b => xleb a b = true) (gather xnum NaN chi (rank_m chi)).
Proof. apply gather_sorted_gen; [apply xleb_total|apply xleb_trans]. Qed.

(* ... which is the `sorted xord` that the selection theorems of C05 assume *)
Lemma ssorted_sorted l : StronglySorted (fun a b => xleb a b = true) l -> sorted xnum xord l.
Proof.
  induction 1 as [|a r S IH F]; simpl; [exact I|]. split; [|exact IH].
  rewrite Forall_forall in F |- *. intros x Hx. apply xleb_xord. now apply F.
Qed.
Theorem rank_sorted_xord chi : sorted xnum xord (gather xnum NaN chi (rank_m chi)).
Proof. apply ssorted_sorted, rank_sorted. Qed.

(* every model appears exactly once, with its own index *)
Theorem rank_perm chi : Permutation (rank_m chi) (seq 0 (length chi)).
Proof. apply argsort_perm. Qed.

(* any index list that is a permutation re-orders the rows into a permutation of the rows (covers numpy's unstable sort) *)
Theorem any_ranking_perm {B} (dB : B) (rows : list B) order :
  Permutation order (seq 0 (length rows)) -> Permutation (gather B dB rows order) rows.
Proof. apply gather_perm. Qed.
