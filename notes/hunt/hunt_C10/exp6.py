import sys; sys.path.insert(0, 'hunt_out')
from common import *
from sedfitter import Fitter
from sedfitter.source import Source
md = tempfile.mkdtemp(); build(md, 2, True, n=6)
kw = dict(extinction_law=extlaw(), distance_range=[1., 2.] * u.kpc, av_range=[0., 0.1])
aps = [1., 3., 3.] * u.arcsec
s = Source.from_ascii("s1 0.0 0.0 1 1 1 0.2 0.1 1.3 0.2 1.5 0.3")
r = {}
for mm in (True, False):
    for rr in (True, False):
        f = quiet(Fitter, ['bob','alice','eve'], aps, md, remove_resolved=rr, use_memmap=mm, **kw)
        i = f.fit(s)
        r[mm, rr] = i.chi2
        print(mm, rr, type(f.models.extended), np.sum(f.models.extended) if len(f.models.extended) else 0, i.chi2[:3])
