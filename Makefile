# /verif build: Coq development (full .vo build), extraction, OCaml driver, hygiene.
SHELL := /bin/bash
COQTIMEOUT ?= 1500
.PHONY: setup build coq extract driver hygiene clean coqchk

setup: build hygiene

build: coq extract driver

coq/_CoqProject: $(wildcard coq/theories/*.v)
	cd coq && (echo "-Q theories SedV"; ls theories/*.v) > _CoqProject

coq/Makefile.coq: coq/_CoqProject
	cd coq && coq_makefile -f _CoqProject -o Makefile.coq

coq: coq/Makefile.coq
	cd coq && timeout $(COQTIMEOUT) $(MAKE) -f Makefile.coq -j16 > build.log 2>&1 || (tail -40 build.log; exit 1)

coq/extract/sedmodel.ml: coq/extract/Extract.v $(wildcard coq/theories/*.vo)
	cd coq/extract && timeout 300 coqc -Q ../theories SedV Extract.v > extract.log 2>&1 || (tail -20 extract.log; exit 1)

extract: coq coq/extract/sedmodel.ml

ocaml/driver: coq/extract/sedmodel.ml ocaml/proto.ml ocaml/ops.ml ocaml/main.ml
	cd ocaml && cp ../coq/extract/sedmodel.ml ../coq/extract/sedmodel.mli . && \
	ocamlfind ocamlopt -package zarith -linkpkg sedmodel.mli sedmodel.ml proto.ml ops.ml main.ml -o driver.tmp && mv driver.tmp driver

driver: extract ocaml/driver

# no Admitted / admit / Axiom / Parameter / Conjecture / guard switches anywhere in the development
hygiene:
	@if grep -nE '\bAdmitted\b|\badmit\b|^\s*(Axiom|Axioms|Parameter|Parameters|Conjecture|Conjectures)\b|Admit Obligations|Unset Guard|bypass_check|type-in-type|impredicative-set|Unset Universe|Unset Positivity' coq/theories/*.v coq/extract/*.v coq/_CoqProject; then echo "HYGIENE FAILED"; exit 1; else echo "hygiene ok"; fi
	@if grep -nE '^\s*(Variable|Variables|Hypothesis|Hypotheses|Context)\b' coq/theories/*.v | python3 harness/section_check.py; then echo "sections ok"; else echo "HYGIENE FAILED (Variable/Hypothesis outside a section)"; exit 1; fi

# independent re-check of every compiled file and the axioms they rely on (minutes; not part of a registered check)
coqchk: coq
	cd coq && timeout 3600 coqchk -silent -o -Q theories SedV $$(ls theories/Props_*.v | sed 's|theories/|SedV.|; s|\.v$$||') > coqchk.log 2>&1; tail -30 coqchk.log

clean:
	rm -rf coq/Makefile.coq coq/Makefile.coq.conf coq/_CoqProject coq/build.log coq/.*.aux coq/theories/*.vo* coq/theories/*.glob coq/theories/.*.aux coq/extract/*.vo* coq/extract/*.glob coq/extract/sedmodel.* ocaml/sedmodel.* ocaml/*.cm* ocaml/*.o ocaml/driver
