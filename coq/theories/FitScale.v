From Coq Require Import QArith Lqa Lia List Bool ZArith.
Import ListNotations.
Open Scope Q_scope.
From SedV Require Import Clamp FitCore.

(* brightness scaling: every log flux moves by delta = lg c, i.e. resid' = resid + t * s with s = -2, t = -delta/2 *)
Definition shifted (t : Q) (r r' : row) : Prop :=
  resid r' == resid r + t * r_s r /\ r_a r' == r_a r /\ r_s r' == r_s r /\ w r' == w r.

Lemma shift_moments t rows rows' : Forall2 (shifted t) rows rows' ->
  c1 rows' == c1 rows + t * m12 rows /\ c2 rows' == c2 rows + t * m22 rows /\
  m11 rows' == m11 rows /\ m12 rows' == m12 rows /\ m22 rows' == m22 rows.
Proof.
  unfold c1, c2, m11, m12, m22.
  induction 1 as [|r r' l l' (Hr & Ha & Hs & Hw) _ (I1 & I2 & I3 & I4 & I5)]; simpl; [repeat split; ring|].
  rewrite I1, I2, I3, I4, I5, Hr, Ha, Hs, Hw. repeat split; ring.
Qed.

Theorem C11_scale lo hi t rows rows' : Forall2 (shifted t) rows rows' -> 0 < m22 rows -> 0 < det rows ->
  let '(av, sc) := fit2_avsc lo hi rows in let '(av', sc') := fit2_avsc lo hi rows' in
  av' == av /\ sc' == sc + t.
Proof.
  intros H H22 Hd. destruct (shift_moments t rows rows' H) as (E1 & E2 & E11 & E12 & E22).
  unfold fit2_avsc, linreg_m, det in *.
  set (D := m11 rows * m22 rows - m12 rows * m12 rows) in *.
  set (A := (m22 rows * c1 rows - m12 rows * c2 rows) * (1 / D)).
  set (A' := (m22 rows' * c1 rows' - m12 rows' * c2 rows') * (1 / (m11 rows' * m22 rows' - m12 rows' * m12 rows'))).
  assert (EA : A' == A).
  { unfold A, A'. rewrite E1, E2, E11, E12, E22. unfold D in *. field. lra. }
  assert (EO : forall a, optscale_sc_m a rows' == optscale_sc_m a rows + t).
  { intros a. rewrite !optscale_is_sopt. unfold sopt. rewrite E2, E12, E22. field. lra. }
  destruct (Qlt_le_dec A lo), (Qlt_le_dec A' lo); try lra.
  - split; [reflexivity|apply EO].
  - destruct (Qlt_le_dec hi A), (Qlt_le_dec hi A'); try lra.
    + split; [reflexivity|apply EO].
    + split; [exact EA|]. rewrite E1, E2, E11, E12, E22. unfold D in *. field. lra.
Qed.
Print Assumptions C11_scale.
