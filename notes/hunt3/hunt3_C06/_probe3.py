import os, sys, tempfile, shutil
import numpy as np
from astropy import units as u
sys.path.insert(0, os.path.dirname(__file__))
from _lib import *
from sedfitter.filter import Filter

rng = np.random.default_rng(3)
tmp = tempfile.mkdtemp()
worst = 0
for trial in range(300):
    nf = rng.integers(2, 61)
    wav = np.sort(rng.uniform(1, 5, nf))
    r = rng.uniform(0, 1, nf)
    if rng.random() < 0.5: wav = wav[::-1]
    fn = os.path.join(tmp, 'f%d.txt' % trial)
    with open(fn, 'w') as f:
        f.write("# wav = %.4e\n" % 3.0)
        for w, x in zip(wav, r):
            f.write("%r %r\n" % (float(w), float(x)))
    F = Filter.read(fn)
    assert F.name == 'f%d' % trial
    F.normalize()
    nu = (wav * u.micron).to(u.Hz, equivalencies=u.spectral()).value
    G = Filter(name='g', central_wavelength=3 * u.micron, nu=nu * u.Hz, response=r.copy()); G.normalize()
    ns = rng.integers(2, 81)
    snu = np.sort(rng.uniform(0.5 * nu.min(), 1.5 * nu.max(), ns))
    if rng.random() < 0.5: snu = snu[::-1]
    unit = [u.Hz, u.GHz, u.THz][rng.integers(0, 3)]
    b = F.rebin((snu * u.Hz).to(unit))
    R = ref_R(nu, G.response, snu)
    e = np.max(np.abs(b.response - R)) / np.max(np.abs(R) + 1e-300)
    worst = max(worst, e)
    inside = snu.min() <= nu.min() and snu.max() >= nu.max()
    if inside:
        assert abs(b.response.sum() - 1) < 1e-12, b.response.sum()
print('worst', worst)
# Filter with nu in GHz
nu = np.array([1., 2., 4., 7.]) * 1e4
f = Filter(name='a', central_wavelength=1 * u.mm, nu=nu * u.GHz, response=np.array([0., 1., 2., 0.]))
f.normalize()
b = f.rebin(np.linspace(0.5e13, 8e13, 30) * u.Hz)
print(b.response.sum())
b = f.rebin(np.linspace(0.5e4, 8e4, 30) * u.GHz)
print(b.response.sum())
shutil.rmtree(tmp)
