"""C08 violation: a planted model whose convolved flux is exactly zero in a band that the
source does NOT use in the fit (valid=0: no data, or valid=3: an upper limit - the natural
way to report a band in which the model emits nothing) gets chi^2 = NaN and is ranked LAST
instead of first.

Mechanism: Models.log_fluxes_mJy maps zero flux to -inf, so residual = +inf in that band;
linear_regression / optimal_scaling multiply it by the band's weight, which is 0 for
unused bands and for limits: inf * 0 = NaN poisons A_V, scale and chi^2 of the model,
although the band carries no weight at all.  FitInfo.sort() then puts the NaN last.
"""
import os, io, tempfile, contextlib
import numpy as np
from astropy import units as u
from astropy.table import Table
from sedfitter.sed import SED
from sedfitter.filter import Filter
from sedfitter.extinction import Extinction
from sedfitter.convolve import convolve_model_dir
from sedfitter.convolved_fluxes import ConvolvedFluxes
from sedfitter.source import Source
from sedfitter.fit import Fitter
from sedfitter import write_parameters


def quiet(fn, *a, **k):
    with contextlib.redirect_stdout(io.StringIO()), contextlib.redirect_stderr(io.StringIO()):
        return fn(*a, **k)


d = tempfile.mkdtemp()
names = ['m_b', 'm_a', 'm_10', 'm_9', 'm_c', 'M_d']
planted, av0, sc0 = 'm_10', 3.3, 0.4
rng = np.random.RandomState(0)
os.mkdir(d + '/seds')
for name in names:
    s = SED()
    s.name = name
    s.distance = 1 * u.kpc
    s.wav = np.logspace(-1, 3, 80) * u.micron
    s.nu = s.wav.to(u.Hz, equivalencies=u.spectral())
    s.apertures = None
    flux = (1 + rng.random_sample((1, 80))) * s.wav.value ** rng.uniform(-1, 1)
    if name == planted:
        flux[:, s.wav.value < 6.] = 0.   # e.g. a cold source: no emission below 6 micron
    s.flux = flux * u.mJy
    s.error = s.flux * 0.01
    s.write(d + '/seds/' + name + '_sed.fits')
with open(d + '/models.conf', 'w') as f:
    f.write("name = test\nlength_subdir = 0\naperture_dependent = no\nlogd_step = 0.02\n")
t = Table()
t['MODEL_NAME'] = np.array(names)
t['par1'] = np.arange(6.) + 1
t = t[[3, 0, 5, 1, 4, 2]]
t.write(d + '/parameters.fits')

filters = []
frng = np.random.RandomState(1)
for name, lo, hi, cw in [('alice', 1., 5., 3.), ('bob', 10., 15., 12.), ('eve', 15., 25., 20.), ('dan', 40., 60., 50.)]:
    f = Filter()
    f.name = name
    f.central_wavelength = cw * u.micron
    f.nu = (np.linspace(hi, lo, 60) * u.micron).to(u.Hz, equivalencies=u.spectral())
    f.response = 0.5 + frng.random_sample(60)
    f.normalize()
    filters.append(f)
quiet(convolve_model_dir, d, filters)

ext = Extinction()
ext.wav = np.logspace(-2., 3., 50) * u.micron
ext.chi = ext.wav.value ** -1.5 * u.cm ** 2 / u.g

fn = ['bob', 'alice', 'eve', 'dan']
aps = [1., 3., 3., 5.] * u.arcsec
av_law = np.asarray(ext.get_av(u.Quantity([12., 3., 20., 50.], u.micron)))
f0 = []
for name in fn:
    c = ConvolvedFluxes.read(d + '/convolved/' + name + '.fits')
    i = list(np.char.strip(c.model_names)).index(planted)
    f0.append(c.flux[i, 0].to(u.mJy).value)
f0 = np.array(f0)
assert f0[1] == 0. and np.all(f0[[0, 2, 3]] > 0)   # the planted model is dark in 'alice' only
flux = f0 * 10 ** (-2 * sc0) * 10 ** (av0 * av_law)

fitter = quiet(Fitter, fn, aps, d, extinction_law=ext, av_range=[0., 10.], distance_range=[1., 3.] * u.kpc)

failures = []
for label, valid, fl, er in [
        ('band without data (valid=0)', [1, 0, 1, 1], [flux[0], 0., flux[2], flux[3]], [flux[0] * 1e-3, 0., flux[2] * 1e-3, flux[3] * 1e-3]),
        ('band given as a 90% upper limit of 0.01 mJy (valid=3)', [1, 3, 1, 1], [flux[0], 0.01, flux[2], flux[3]], [flux[0] * 1e-3, 0.9, flux[2] * 1e-3, flux[3] * 1e-3])]:
    src = Source()
    src.name = 'src'
    src.x = src.y = 0.
    src.valid = valid
    src.flux = np.array(fl)
    src.error = np.array(er)
    info = fitter.fit(src)
    out = os.path.join(d, 'pars_%d.txt' % valid[1])
    write_parameters(info, out, select_format=('A', 0))
    rows = [r.split() for r in open(out).read().split('\n')[4:] if r.strip()]
    print(label)
    for r in rows:
        print('   ', r)
    best = rows[0]
    rank = [r[1] for r in rows].index(planted) + 1
    ok = best[1] == planted and float(best[2]) < 1e-2 and abs(float(best[3]) - av0) < 1e-2 and abs(float(best[4]) - sc0) < 1e-2
    if not ok:
        failures.append("%s: planted model %s is ranked %d of %d with chi2=%s (best fit listed: %s chi2=%s A_V=%s scale=%s)"
                        % (label, planted, rank, len(rows), rows[rank - 1][2], best[1], best[2], best[3], best[4]))

assert not failures, (
    "C08 violated (clause 'ranks m first with chi^2 ~ 0'): photometry synthesised from model %s (A_V0=%g, scale=%g) of a "
    "per-file aperture-independent package; the model has zero flux in filter 'alice', which the source does not use in "
    "the fit. " % (planted, av0, sc0) + " | ".join(failures))
print('OK')
