import sys; sys.path.insert(0,'hunt_out')
from harness import *
np.seterr(all='ignore')
rng=np.random.RandomState(5)
for apdep in [False, True]:
  for rr in ([False, True] if apdep else [False]):
    d=tempfile.mkdtemp()
    nf=NN
    filt=make_models(d, nf=nf, apdep=apdep)
    F=Fitter(filt, [3.]*nf*u.arcsec, d, extinction_law=ext(), av_range=[0.,10.], distance_range=[0.5,3.]*u.kpc, remove_resolved=rr)
    def out(s):
        i=F.fit(s)
        o=np.argsort(i.model_id)
        return i.av[o], i.sc[o], i.chi2[o], i.model_fluxes[o]
    nbad=0
    for n in [NN]:
      for flags in itertools.product([0,1,2,3,4,9], repeat=n):
        flags=np.array(flags)
        flux=rng.uniform(0.5,40,n); err=flux*rng.uniform(0.02,0.3,n)
        lim=(flags==2)|(flags==3)
        err[lim]=rng.choice([0,0.3,0.9,1.0],lim.sum())
        # convert 4
        f4=flags==4
        lf=np.log10(flux)-0.5*(err/flux)**2/np.log(10); le=np.abs(err/flux)/np.log(10)
        fl=flux.copy(); er=err.copy()
        fl[f4]=lf[f4]; er[f4]=le[f4]
        base=out(src(flags,fl,er))
        # (1) junk in 0/9
        un=(flags==0)|(flags==9)
        for junk in [np.nan,-5.,0.,np.inf,1e300]:
            fl2=fl.copy(); er2=er.copy(); fl2[un]=junk; er2[un]=junk
            o2=out(src(flags,fl2,er2))
            for a,b in zip(base,o2):
                if not np.array_equal(a,b,equal_nan=True):
                    nbad+=1; print('JUNK',apdep,rr,flags,junk)
                    break
        # (2) flag 1 <-> 4 swap
        fl3=fl.copy(); er3=er.copy(); flags3=flags.copy()
        f1=flags==1
        fl3[f1]=lf[f1]; er3[f1]=le[f1]; flags3[f1]=4
        o3=out(src(flags3,fl3,er3))
        for a,b in zip(base,o3):
            if not np.array_equal(a,b,equal_nan=True):
                nbad+=1; print('F4',apdep,rr,flags); break
        # (3) confidence 0 == flag 0
        if lim.any():
            er4=er.copy(); er4[lim]=0
            flags4=flags.copy(); flags4[lim]=0
            a=out(src(flags,fl,er4)); b=out(src(flags4,fl,er4))
            for x,y in zip(a,b):
                if not np.array_equal(x,y,equal_nan=True):
                    nbad+=1; print('C0',apdep,rr,flags); break
        # (4) limits: chi2 = chi2(without limits at same av,sc) + penalties
        av,sc,chi2,mf=base
        w=np.zeros(n); fit=(flags==1)|(flags==4)
        w[fit]=1/le[fit]**2
        logdata=np.where(f4|f1, lf, np.log10(flux))
        exp=np.sum(((logdata-mf)**2*w)[:,fit],axis=1) if fit.any() else np.zeros(len(av))
        for j in np.where(lim)[0]:
            viol = (mf[:,j]<logdata[j]) if flags[j]==2 else (mf[:,j]>logdata[j])
            pen = -2*np.log(1-err[j]) if err[j]<1 else 1e30
            exp = exp + np.where(viol,pen,0)
        ok = np.isclose(chi2,exp,rtol=1e-9,atol=1e-9)|(np.isnan(chi2)&~fit.any()) | (np.isinf(chi2))
        if not ok.all():
            nbad+=1; print('LIM',apdep,rr,flags,chi2,exp)
    print('done',apdep,rr,nbad)
