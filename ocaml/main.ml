open Proto

let () =
  let b = Buffer.create 65536 in
  (try
     while true do
       let line = input_line stdin in
       Buffer.clear b;
       (try
          match tokenize line with
          | [] -> Buffer.add_string b "!empty"
          | op :: rest ->
              let (x, _) = parse rest in
              print b (Ops.dispatch op x)
        with
        | Bad m -> Buffer.clear b; Buffer.add_string b ("!bad " ^ m)
        | Not_found -> Buffer.clear b; Buffer.add_string b "!notfound"
        | Failure m -> Buffer.clear b; Buffer.add_string b ("!failure " ^ m)
        | Stack_overflow -> Buffer.clear b; Buffer.add_string b "!stackoverflow"
        | Division_by_zero -> Buffer.clear b; Buffer.add_string b "!divzero");
       print_string (Buffer.contents b);
       print_newline ()
     done
   with End_of_file -> ())
