import itertools, os, tempfile, warnings
import numpy as np
from astropy import units as u
from sedfitter.sed import SED, SEDCube
tmp = tempfile.mkdtemp()
rng = np.random.default_rng(1)
units = [u.mJy, u.Jy, u.erg/u.cm**2/u.s, u.erg/u.s]
bad = []; k = 0
for wu, apu, dt, dist, setmode, fu, mm, asc in itertools.product([u.micron, u.AA, u.mm, u.m, u.GHz, u.Hz], [u.au, u.pc, u.km], [np.float64, np.float32, '>f8', '<f4', np.int32], [1*u.kpc, 140*u.pc], ['wav','nu'], units, [True, False], [True, False]):
    if (setmode == 'wav') != (wu.is_equivalent(u.m)): continue
    n_wav = 5; n_ap = 3; nm = 2
    wav = np.sort(rng.uniform(0.1, 1000, n_wav))
    if not asc: wav = wav[::-1]
    c = SEDCube(); c.names = ['x', 'y']; c.distance = dist
    W = (wav*u.micron).to(wu, equivalencies=u.spectral())
    if setmode == 'wav': c.wav = W
    else: c.nu = W
    c.apertures = (np.sort(rng.uniform(10,1000,n_ap))*u.au).to(apu)
    c.val = (rng.uniform(1,200,(nm, n_ap,n_wav))).astype(dt)*fu
    c.unc = (rng.uniform(1,20,(nm, n_ap,n_wav))).astype(dt)*fu
    c.valid = np.array([True, False])
    k += 1; fn = os.path.join(tmp, 's%i.fits'%k)
    cfg = (str(wu), str(apu), str(dt), str(dist), setmode, str(fu), mm, asc)
    try:
        c.write(fn)
        for order in ['nu','wav']:
            r = SEDCube.read(fn, order=order, memmap=mm)
            w, f, e = c.wav, c.val, c.unc
            if (order == 'wav') != asc: w, f, e = w[::-1], f[..., ::-1], e[..., ::-1]
            ok = np.allclose(r.wav.to(u.micron).value, w.to(u.micron).value, rtol=1e-12) and np.allclose(r.nu.to(u.Hz).value, w.to(u.Hz, equivalencies=u.spectral()).value, rtol=1e-12) and np.array_equal(r.val.to(fu).value, f.value) and np.array_equal(r.unc.to(fu).value, e.value) and np.allclose(r.apertures.to(apu).value, c.apertures.value, rtol=1e-12) and np.array_equal(r.valid, c.valid) and np.allclose(r.distance.to(u.cm).value, dist.to(u.cm).value)
            if not ok: bad.append(('mismatch', cfg, order))
            s = r.get_sed('y')
            if not (np.array_equal(s.flux.value, f[1].value) and np.array_equal(s.error.value, e[1].value) and np.allclose(s.wav.value, r.wav.value) and np.allclose(s.nu.value, r.nu.value)):
                bad.append(('get_sed', cfg, order))
            fn2 = fn + order + '.sed.fits'
            s.write(fn2)
            for o2 in ['nu', 'wav']:
                r2 = SED.read(fn2, unit_flux=fu, order=o2)
                ff, ee, ww = f[1], e[1], w
                if o2 != order: ff, ee, ww = ff[:, ::-1], ee[:, ::-1], ww[::-1]
                if not (np.allclose(r2.flux.value, ff.value, rtol=1e-6) and np.allclose(r2.error.value, ee.value, rtol=1e-6) and np.allclose(r2.wav.to(u.micron).value, ww.to(u.micron, equivalencies=u.spectral()).value)):
                    bad.append(('sed rt', cfg, order, o2))
    except Exception as ex:
        bad.append(('exc', cfg, repr(ex)))
print(k, len(bad))
for b in bad[:30]: print(b)
