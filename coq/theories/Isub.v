From Coq Require Import QArith Lqa Lia List Bool.
Import ListNotations.
Open Scope Q_scope.
From SedV Require Import PLin Xnum Slice Interp.

(* utils/integrate.py: integrate_subset, for x increasing and xmin < xmax inside [x0, xn], statement by statement.
   lit2 is the literal used for i2 when xmax == x[-1]: the current code has -2 (i.e. n-2), the repair -1 (n-1). *)
Definition x0 (l : list pt) : Q := fst (hd (0,0) l).
Definition xn (l : list pt) : Q := fst (last l (0,0)).
Definition yat (l : list pt) (i : nat) : Q := snd (nth i l (0,0)).
Definition two_point (l : list pt) (i : nat) (t : Q) : Q := lin (nth (i - 1) l (0,0)) (nth i l (0,0)) t.   (* interp1d_fast on x[i-1:i+1] *)

Definition isub_m (lit2 : nat -> nat) (l : list pt) (a b : Q) : Q :=
  let n := length l in
  let '(i1, ya) := if Qeq_bool a (x0 l) then (1%nat, yat l 0) else (ss l a, two_point l (ss l a) a) in
  let '(i2, yb) := if Qeq_bool b (xn l) then (lit2 n, yat l (n - 1)) else (ss l b, two_point l (ss l b) b) in
  trapz ((a, ya) :: slice l i1 i2 ++ [(b, yb)]).

Definition isub_fixed := isub_m (fun n => (n - 1)%nat).
Definition isub_current := isub_m (fun n => (n - 2)%nat).

(* the current code drops the node x[-2] whenever the upper limit is the last abscissa *)
Example C06_isub_refuted :
  isub_current [(0,0); (1,0); (2,10); (3,0)] 0 3 == 0 /\ isub_fixed [(0,0); (1,0); (2,10); (3,0)] 0 3 == 10
  /\ G [(0,0); (1,0); (2,10); (3,0)] 3 - G [(0,0); (1,0); (2,10); (3,0)] 0 == 10.
Proof. repeat split; vm_compute; reflexivity. Qed.
