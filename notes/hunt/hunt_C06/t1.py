import numpy as np, os, tempfile, sys
sys.path.insert(0, os.path.dirname(__file__))
from astropy import units as u
from sedfitter.filter import Filter
from sedfitter.sed import SEDCube, SED
from sedfitter.convolve import convolve_model_dir
from sedfitter.convolved_fluxes import ConvolvedFluxes
from pk import *

wav = np.logspace(-1, 3, 50) * u.micron
nu = wav.to(u.Hz, equivalencies=u.spectral())
fw = np.linspace(1, 2, 10) * u.micron
f = Filter(name='f', central_wavelength=1.5 * u.micron, nu=fw.to(u.Hz, equivalencies=u.spectral()), response=np.ones(10))
f.normalize()
names = ['a', 'b', 'c']
ap = np.array([10., 100.]) * u.au

def mk(F, E, dtype, names=names, parnames=None, unc=True):
    d = tempfile.mkdtemp()
    cube = SEDCube()
    cube.names = np.array(names); cube.distance = 1 * u.kpc; cube.wav = wav; cube.apertures = ap
    cube.val = F.astype(dtype) * u.mJy
    if unc:
        cube.unc = E.astype(dtype) * u.mJy
    cube.write(d + '/flux.fits'); write_conf(d, 2); write_pars(d, parnames or names)
    return d
def mk1(F, E, dtype, names=names, parnames=None):
    d = tempfile.mkdtemp(); os.mkdir(d + '/seds')
    for i, n in enumerate(names):
        write_sed_raw(d + '/seds/s%d_sed.fits' % i, n, wav, ap, F[i] * u.mJy, E[i] * u.mJy, distance=1 * u.kpc, dtype=dtype)
    write_conf(d, 1); write_pars(d, parnames or names)
    return d

which = sys.argv[1]
if which == 'f32':
    F = np.full((3, 2, 50), 1e-18); E = np.full((3, 2, 50), 1e-21)
    F[1] *= 1e-10; E[1] *= 1e-3
    for dt in (np.float64, np.float32):
        d = mk(F, E, dt); convolve_model_dir(d, [f]); c = ConvolvedFluxes.read(d + '/convolved/f.fits')
        print(dt, c.flux[:, 0], c.error[:, 0])
        d = mk1(F, E, dt); convolve_model_dir(d, [f]); c = ConvolvedFluxes.read(d + '/convolved/f.fits')
        print('perfile', dt, c.flux[:, 0], c.error[:, 0])
if which == 'long':
    nm = ['model_with_a_rather_long_name_number_%d' % i for i in range(3)]
    F = np.ones((3, 2, 50)); E = F * 0.1
    F[1] *= 2; F[2] *= 3
    d = mk(F, E, np.float64, names=nm); convolve_model_dir(d, [f]); c = ConvolvedFluxes.read(d + '/convolved/f.fits')
    print(c.model_names, c.flux[:, 0])
    d = mk1(F, E, np.float64, names=nm)
    try:
        convolve_model_dir(d, [f]); c = ConvolvedFluxes.read(d + '/convolved/f.fits'); print(c.model_names, c.flux[:, 0])
    except Exception as e:
        print('perfile raised', repr(e))
if which == 'nounc':
    F = np.ones((3, 2, 50)); E = F * 0.1
    d = mk(F, E, np.float64, unc=False); convolve_model_dir(d, [f])
if which == 'perm':
    F = np.ones((3, 2, 50)); E = F * 0.1
    d = mk(F, E, np.float64, parnames=['c', 'a', 'b']); convolve_model_dir(d, [f])
