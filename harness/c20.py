"""C20 — Source.from_ascii / to_ascii / dict / pickle against SrcAscii.from_ascii_m and the layout clauses."""
import itertools
import math

from common import Rng, F

PROP = 'C20'
MODEL_OPS = 'SrcAscii.from_ascii_m; Fmt.fmt_e / fmt_f (the "%11.3e" and "%9.5f" fields of to_ascii)'
RULE = ('token lists: (a) valid lines for n=0..12 — all flag vectors over {0,1,2,3,4,9} for n<=3 (exhaustive), sampled above; '
        '(b) for every n in 0..12 every column count 0..3n+6 (truncation / extension of a valid line); (c) one flag replaced by an '
        'out-of-range or non-integer token; (d) one non-numeric value; (e) to_ascii->from_ascii, dict and pickle round trips. '
        'non-trivial = at least 3 columns.  distinct = distinct token lists.')
EXHAUSTIVE = {'quick': False, 'thorough': False}
ASSUMPTIONS = ['int()/float() results of the tokens are oracle fields computed by Python in the harness',
               'names contain no whitespace; numeric tokens are plain decimal / exponent literals']

FLAGS = [0, 1, 2, 3, 4, 9]
BADFLAGS = ['5', '6', '8', '10', '-1', '1.0', '1.5', 'x', '2e0', '99']


def _num(rng):
    k = rng.random()
    if k < 0.1:
        return '-999'
    if k < 0.2:
        return '-999.000'
    if k < 0.3:
        return '%d' % rng.randint(-50, 5000)
    e = rng.randint(-30, 30)
    m = rng.uniform(-9.99, 9.99) if rng.random() < 0.2 else rng.uniform(0.1, 9.99)
    return ('%.3e' % (m * 10.0 ** e)) if rng.random() < 0.7 else repr(m * 10.0 ** e)


def _name(rng):
    n = rng.choice([1, 5, 12, 30, 31, 40])
    return ''.join(rng.choice('abcXYZ0123456789_-.+') for _ in range(n))


def _line(rng, flags):
    toks = [_name(rng), '%.5f' % rng.uniform(0, 360), '%.5f' % rng.uniform(-90, 90)]
    toks += [str(f) for f in flags]
    for _ in flags:
        toks += [_num(rng), _num(rng)]
    return toks


def generate(tier, seed):
    rng = Rng(seed * 7919 + 20)
    cases = []
    # (a) valid layouts
    for n in range(0, 4):
        for fl in itertools.product(FLAGS, repeat=n):
            cases.append(dict(kind='layout', cols=_line(rng, fl)))
    for k in range(150 if tier == 'quick' else 3000):
        n = rng.randint(4, 12)
        cases.append(dict(kind='layout', cols=_line(rng, [rng.choice(FLAGS) for _ in range(n)])))
    # (b) every column count
    reps = 1 if tier == 'quick' else 8
    for _ in range(reps):
        for n in range(0, 13):
            base = _line(rng, [rng.choice(FLAGS) for _ in range(n)])
            for m in range(0, 3 * n + 7):
                cols = base[:m] + [rng.choice(['1', '2', '0', _num(rng)]) for _ in range(m - len(base))]
                cases.append(dict(kind='count', cols=cols))
    # (c) bad flags
    for _ in range(60 if tier == 'quick' else 1200):
        n = rng.randint(1, 12)
        cols = _line(rng, [rng.choice(FLAGS) for _ in range(n)])
        cols[3 + rng.randrange(n)] = rng.choice(BADFLAGS)
        cases.append(dict(kind='badflag', cols=cols))
    # (d) a non-numeric value or coordinate
    for _ in range(40 if tier == 'quick' else 800):
        n = rng.randint(1, 12)
        cols = _line(rng, [rng.choice(FLAGS) for _ in range(n)])
        j = rng.choice([1, 2] + list(range(3 + n, 3 + 3 * n)))
        cols[j] = rng.choice(['abc', '--', '1,5', 'e5'])
        cases.append(dict(kind='badnum', cols=cols))
    # (e) round trips of Source objects
    def tie():
        j = rng.randint(0, 9)
        m = rng.choice([1000, 1001, 1002, 4999, 5000, 9998, 9999, rng.randint(1000, 9999)])
        v = (m * 10 ** j + 5 * 10 ** (j - 1)) if j > 0 else m + 0.5          # exactly representable: a tie of "%.3e"
        return float(v) * rng.choice([1.0, 1.0, -1.0])
    for k in range(100 if tier == 'quick' else 2000):
        n = rng.randint(0, 12)
        flags = [rng.choice(FLAGS) for _ in range(n)]
        num = (lambda: float(_num(rng))) if k % 5 else (lambda: rng.choice([tie(), tie(), 0.0, 9.9995, 9.99949999, 1e-300, 1.7976931348623157e308, 5e-324]))
        # coordinates: sky positions in either longitude convention, and pixel-like / wide values that fill the printed field
        x = rng.choice([rng.uniform(0, 360), rng.uniform(-180, 0), rng.uniform(1000, 99999), -rng.uniform(100, 9999)])
        y = rng.choice([rng.uniform(-90, 90), rng.uniform(-90, 90), rng.uniform(1000, 99999), -rng.uniform(100, 9999)])
        cases.append(dict(kind='roundtrip', name=_name(rng), x=x, y=y, flags=flags,
                          flux=[num() for _ in flags], error=[num() for _ in flags]))
        if k % 4 == 1 and n:       # the flag vector held as whole numbers in a floating-point array (the setter admits that on purpose)
            cases[-1]['flag_dtype'] = 'float'
    return cases


def _src_dict(s):
    import numpy as np
    return dict(out='ok', name=s.name, x=float(s.x), y=float(s.y), valid=[int(v) for v in np.asarray(s.valid)],
                valid_integral=bool(np.all(np.asarray(s.valid) == np.asarray(s.valid).astype(int))),
                flux=[float(v) for v in s.flux], error=[float(v) for v in s.error], n_wav=int(s.n_wav), n_data=int(s.n_data))


def impl(case):
    from sedfitter.source import Source
    if case['kind'] == 'roundtrip':
        import pickle
        s = Source()
        s.name = case['name']
        s.x, s.y = case['x'], case['y']
        if case.get('flag_dtype') == 'float':
            import numpy as np
            s.valid = np.array(case['flags'], dtype=float)
        else:
            s.valid = case['flags']
        s.flux = case['flux']
        s.error = case['error']
        line = s.to_ascii()
        s2 = Source.from_ascii(line)
        s3 = Source.from_dict(s.to_dict())
        s4 = pickle.loads(pickle.dumps(s, 2))
        return dict(line=line, back=_src_dict(s2), dict=_src_dict(s3), pickle=_src_dict(s4), orig=_src_dict(s))
    line = ' '.join(case['cols'])
    try:
        s = Source.from_ascii(line)
    except EOFError:
        return dict(out='eof')
    except Exception as e:
        return dict(out='error', msg=('%s: %s' % (type(e).__name__, e))[:200])
    return _src_dict(s)


def _tok(i, t):
    try:
        iv = [int(t)]
        if '_' in t:
            iv = []
    except ValueError:
        iv = []
    try:
        fv = [F(float(t))] if math.isfinite(float(t)) else []
        if '_' in t:
            fv = []
    except ValueError:
        fv = []
    return [i, iv, fv]


def model_requests(case):
    if case['kind'] == 'roundtrip':
        return [('fmt_f', [5, F(case['x'])]), ('fmt_f', [5, F(case['y'])])] + \
               [('fmt_e', [3, F(v)]) for pair in zip(case['flux'], case['error']) for v in pair]
    return [('from_ascii', [[_tok(i, t) for i, t in enumerate(case['cols'])]])]


def _expect(cols):
    """the documented reading of a line: ('ok', record) / 'eof' / 'error' / None (page does not say)"""
    if len(cols) < 3:
        return 'eof', None
    if (len(cols) - 3) % 3 != 0:
        return 'error', None
    n = (len(cols) - 3) // 3
    fl = []
    for t in cols[3:3 + n]:
        try:
            v = int(t)
        except ValueError:
            return 'error', None
        if v not in FLAGS:
            return 'error', None
        fl.append(v)
    try:
        x, y = float(cols[1]), float(cols[2])
        vals = [float(t) for t in cols[3 + n:]]
    except ValueError:
        return None, None
    return 'ok', dict(name=cols[0], x=x, y=y, valid=fl, flux=vals[0::2], error=vals[1::2])


def judge(case, im, mo):
    disagree, fail = [], []
    if case['kind'] == 'roundtrip':
        if 'exc' in im:
            return dict(fail=['roundtrip: raised %s' % im['msg']], disagree=[], nontrivial=True, tags=['kind=roundtrip'])
        o = im['orig']
        for k in ('dict', 'pickle'):
            for f in ('name', 'x', 'y', 'valid', 'flux', 'error'):
                if im[k][f] != o[f]:
                    fail.append('%s: %s round trip changes %s' % (k, k, f))
        b = im['back']
        if b['name'] != o['name'] or b['valid'] != o['valid']:
            fail.append('format: to_ascii -> from_ascii changes name or flags (%r -> %r)' % (o['name'], b['name']))
        if abs(b['x'] - o['x']) > 5.1e-6 or abs(b['y'] - o['y']) > 5.1e-6:
            fail.append('format: coordinates not preserved to the printed precision')
        for f in ('flux', 'error'):
            # the property's quantifier spans 60 decades; beyond it only the printed text is compared with the model (1.798e+308 does not parse back)
            if len(b[f]) != len(o[f]) or any(abs(p - q) > 5.1e-4 * abs(q) for p, q in zip(b[f], o[f]) if q == 0 or 1e-30 <= abs(q) <= 1e30):
                fail.append('format: %s not preserved to the printed precision' % f)
        # every printed field against the model's correctly rounded decimal
        toks = im['line'].split()
        n = len(o['valid'])
        vals = [v for pair in zip(case['flux'], case['error']) for v in pair]
        if any(isinstance(m, tuple) for m in mo):
            disagree.append('driver: %r' % ([m for m in mo if isinstance(m, tuple)][:1],))
        elif len(toks) != 3 + 3 * n:
            fail.append('format: to_ascii writes %d columns for n = %d' % (len(toks), n))
        else:
            for t, v, m in zip(toks[1:3], (case['x'], case['y']), mo[:2]):
                digits = t.lstrip('-').replace('.', '')
                if '.' not in t or len(t.split('.')[1]) != 5 or int(digits) != m or (t.startswith('-') != (v < 0 and m != 0) and m != 0):
                    disagree.append('coordinate %r printed as %s; model %d x 1e-5' % (v, t, m))
            for t, v, m in zip(toks[3 + n:], vals, mo[2:]):
                mant, _, ex = t.lower().partition('e')
                want = (0, 0) if m == [] else (m[0][0], m[0][1])
                got = (int(mant.lstrip('-').replace('.', '')), int(ex) if int(mant.lstrip('-').replace('.', '')) else 0)
                if got != want or (t.startswith('-') != (v < 0)) or len(mant.lstrip('-')) != 5:
                    disagree.append('value %r printed as %s; model mantissa %d exponent %d' % (v, t, want[0], want[1]))
        return dict(fail=fail, disagree=disagree[:3], nontrivial=len(o['valid']) > 0, tags=['kind=roundtrip', 'n=%d' % len(o['valid'])])
    cols = case['cols']
    m = mo[0]
    if isinstance(m, tuple):
        return dict(disagree=['driver: %r' % (m,)], fail=[], nontrivial=False)
    if 'exc' in im:
        im = dict(out='error', msg=im['msg'])
    mclass = 'ok' if m[0] == 'ok' else ('eof' if m[1] == 'eof' else 'error')
    if im['out'] != mclass:
        disagree.append('outcome: implementation %s, model %s (%s)' % (im['out'], mclass, m[1] if m[0] == 'err' else ''))
    elif mclass == 'ok':
        _, key, x, y, flags, flux, err = m
        if not (im['name'] == cols[key] and F(im['x']) == x and F(im['y']) == y and im['valid'] == flags
                and [F(v) for v in im['flux']] == flux and [F(v) for v in im['error']] == err):
            disagree.append('record differs from the model')
    want, rec = _expect(cols)
    if want is not None:
        if im['out'] != want:
            fail.append('layout: %d columns read as %s, the data-format page says %s' % (len(cols), im['out'], want))
        elif want == 'ok':
            for f in ('name', 'x', 'y', 'valid', 'flux', 'error'):
                if im[f] != rec[f]:
                    fail.append('layout: field %s mis-assigned' % f)
            if im['n_data'] != sum(1 for v in rec['valid'] if v in (1, 4)):
                fail.append('ndata: n_data does not count flags 1 and 4')
    return dict(disagree=disagree, fail=fail, nontrivial=len(cols) >= 3,
                tags=['kind=' + case['kind'], 'out=' + im['out'], 'ncol%%3=%d' % (len(cols) % 3)])
