import os, tempfile, glob
import numpy as np
from astropy.table import Table
from astropy import units as u
from astropy.io import fits
from sedfitter.sed import SED
from sedfitter.convolved_fluxes import ConvolvedFluxes

def build(n_wav=4, n_ap=2, n_models=3, wav=None, names=None, par_order=None,
          flux_unit=u.mJy, wav_unit=u.micron, ap_unit=u.au, ascending=False, gz=False, subdir=False, seed=1, distance=1*u.kpc):
    d = tempfile.mkdtemp()
    os.mkdir(d + '/seds')
    rng = np.random.RandomState(seed)
    if wav is None:
        wav = np.array([0.5, 1., 2., 4., 8., 16., 32., 64., 128.])[:n_wav]
    wav = np.asarray(wav, float)
    if names is None:
        names = ['model_%04d' % i for i in range(n_models)]
    truth = {}
    for i, nm in enumerate(names):
        s = SED()
        s.name = nm
        s.distance = distance
        s.wav = (wav * u.micron).to(wav_unit)
        s.nu = s.wav.to(u.Hz, equivalencies=u.spectral())
        s.apertures = (np.array([10., 100., 1000.])[:n_ap] * u.au).to(ap_unit)
        fl = (1 + rng.random_sample((n_ap, len(wav))))
        er = fl * 0.01 * (1 + rng.random_sample((n_ap, len(wav))))
        s.flux = fl * flux_unit
        s.error = er * flux_unit
        sd = d + '/seds'
        if subdir:
            sd = sd + '/' + nm[:5]
            os.makedirs(sd, exist_ok=True)
        fn = sd + '/' + nm + '_sed.fits'
        s.write(fn)
        if gz:
            os.system('gzip ' + fn)
        truth[nm] = (fl, er)
    with open(d + '/models.conf', 'w') as f:
        f.write("name = test\nlength_subdir = 0\naperture_dependent = yes\nlogd_step = 0.02\n")
    t = Table()
    if par_order is None:
        par_order = list(range(len(names)))[::-1]
    t['MODEL_NAME'] = np.array([names[i] for i in par_order], dtype='S30')
    t['par1'] = rng.random_sample(len(names))
    t.write(d + '/parameters.fits')
    return d, wav, [names[i] for i in par_order], truth
