import os, io, sys, tempfile, contextlib, warnings
import numpy as np
warnings.simplefilter('ignore')
from astropy import units as u
from sedfitter.convolved_fluxes import ConvolvedFluxes
from sedfitter.extinction import Extinction
from sedfitter.source import Source
from sedfitter.fit import Fitter


def ext():
    e = Extinction()
    e.wav = np.logspace(-2., 3., 50) * u.micron
    e.chi = e.wav.value ** -1.5 * u.cm ** 2 / u.g
    return e


def make_dir(names, fluxes, wavs, apertures=None):
    """Per-file (version 1) package holding only what the fitter reads:
    models.conf and convolved/<filter>.fits.
    fluxes: (n_models, n_wav) or (n_models, n_ap, n_wav), in mJy"""
    d = tempfile.mkdtemp()
    os.mkdir(os.path.join(d, 'convolved'))
    filt_names = ['F%d' % i for i in range(len(wavs))]
    for i in range(len(wavs)):
        c = ConvolvedFluxes()
        c.model_names = np.array(names)
        c.central_wavelength = wavs[i] * u.micron
        if apertures is not None:
            c.apertures = np.array(apertures) * u.au
            c.flux = np.array(fluxes)[:, :, i] * u.mJy
        else:
            c.flux = np.array(fluxes)[:, i].reshape(-1, 1) * u.mJy
        c.error = c.flux * 0.
        c.write(os.path.join(d, 'convolved', filt_names[i] + '.fits'))
    with open(os.path.join(d, 'models.conf'), 'w') as f:
        f.write("name = test\nlength_subdir = 0\naperture_dependent = %s\nlogd_step = 0.02\n"
                % ('yes' if apertures is not None else 'no'))
    return d, filt_names


def quiet(fn, *a, **k):
    with contextlib.redirect_stdout(io.StringIO()):
        return fn(*a, **k)


def src(valid, flux, error):
    s = Source()
    s.name = 's'
    s.x = 0.
    s.y = 0.
    s.valid = np.array(valid)
    s.flux = np.array(flux, dtype=float)
    s.error = np.array(error, dtype=float)
    return s


def row(info, name):
    i = list(info.model_name).index(name)
    return float(info.chi2[i]), float(info.av[i]), float(info.sc[i])
