"""C17: with plot_mode='I' (one fit per plot) and output_dir=None, plot() returns
only the best fit's curves: figures[source] is overwritten once per fit, so the
other selected fits are drawn nowhere.  The clause "for every selected fit plot()
draws that model's SED ... the number of curves equals the number of selected
fits times the number of apertures the display mode shows" fails."""
import os, io, tempfile, contextlib
import numpy as np
import matplotlib
matplotlib.use('Agg')
from astropy import units as u
from astropy.table import Table
from sedfitter.sed import SEDCube
from sedfitter.extinction import Extinction
from sedfitter.fit import Fitter
from sedfitter.source import Source
from sedfitter.plot import plot

rng = np.random.default_rng(3)
d = tempfile.mkdtemp()
n_models, n_ap, n_wav = 5, 4, 8
cube = SEDCube()
cube.names = np.array(['m_%03d' % i for i in range(n_models)])
cube.distance = 1 * u.kpc
cube.wav = np.logspace(-0.5, 2.5, n_wav) * u.micron
cube.apertures = np.logspace(2, 5, n_ap) * u.au
cube.val = np.cumsum(0.2 + rng.random((n_models, n_ap, n_wav)), axis=1) * u.mJy
cube.unc = cube.val * 0.01
cube.write(os.path.join(d, 'flux.fits'))
with open(os.path.join(d, 'models.conf'), 'w') as f:
    f.write("name = test\nlength_subdir = 0\naperture_dependent = yes\nlogd_step = 0.02\nversion = 2\n")
t = Table(); t['MODEL_NAME'] = np.array(cube.names, dtype='S'); t['par1'] = rng.random(n_models)
t.write(os.path.join(d, 'parameters.fits'))

ext = Extinction()
ext.wav = np.logspace(-2, 4, 60) * u.micron
ext.chi = ext.wav.value ** -1.5 * 200. * u.cm ** 2 / u.g

w = cube.wav
with contextlib.redirect_stdout(io.StringIO()):
    fitter = Fitter([w[3], w[1], w[6]], [2., 3., 1.] * u.arcsec, d, extinction_law=ext,
                    av_range=[0., 20.], distance_range=[1., 2.] * u.kpc, use_memmap=False)
s = Source(); s.name = 'src'; s.x = 0.; s.y = 0.
s.valid = np.array([1, 1, 1]); s.flux = np.array([3., 2., 5.]); s.error = np.array([.3, .2, .5])
info = fitter.fit(s)

n_sel = 3
per_fit = {'interp': 1, 'largest': 1, 'largest+smallest': 2, 'all': 3}
bad = []
for sed_type, per in per_fit.items():
    with contextlib.redirect_stdout(io.StringIO()):
        fa = plot(info, select_format=('N', n_sel), sed_type=sed_type, plot_mode='A')
        fi = plot(info, select_format=('N', n_sel), sed_type=sed_type, plot_mode='I')
    na = len(fa['src']['lines'].get_segments())
    ni = len(fi['src']['lines'].get_segments())
    print(sed_type, "plot_mode='A':", na, "curves;  plot_mode='I':", ni, "curves; expected", n_sel * per)
    assert na == n_sel * per  # the default mode is right
    if ni != n_sel * per:
        bad.append((sed_type, ni, n_sel * per))
assert not bad, ("C17 'the number of curves equals the number of selected fits times the number of apertures "
                 "the display mode shows': with plot_mode='I' and output_dir=None only the best fit is "
                 "returned, fits 2..%d are drawn nowhere: (sed_type, curves, expected) = %s" % (n_sel, bad))
