From Coq Require Import List Arith Lia Permutation Sorted Bool ZArith.
Import ListNotations.
From SedV Require Import Argsort Table.
Open Scope Z_scope.

(* FitInfo.filter_table on a table already stripped and sorted by name.
   table : list of (key, payload); names : keys of the fits, in rank order *)
Section FilterTable.
Variable P : Type.            (* payload = the parameter columns of one row *)
Variable dP : P.
Definition trow := (K * P)%type.
Definition memb (k : K) (names : list K) : bool := existsb (Z.eqb k) names.

Definition filter_table_m (table : list trow) (names : list K) : option (list trow) :=
  let subset := filter (fun r => memb (fst r) names) table in                    (* np.in1d mask *)
  let index := argsortn (argsortK names) in                                        (* argsort(argsort(model_name)) *)
  let sorted := gather trow (0, dP) subset index in
  if list_eq_dec Z.eq_dec (map fst sorted) names then Some sorted else None.       (* post-check *)

Lemma memb_In k names : memb k names = true <-> In k names.
Proof. unfold memb. rewrite existsb_exists. split.
  - intros [x [Hx E]]. apply Z.eqb_eq in E. now subst.
  - intros H. exists k. split; [exact H|apply Z.eqb_refl]. Qed.

Lemma filter_ssorted {A} (R : A -> A -> Prop) (f : A -> bool) l : StronglySorted R l -> StronglySorted R (filter f l).
Proof. induction 1 as [|a r S IH F]; simpl; [constructor|]. destruct (f a); [|exact IH].
  constructor; [exact IH|]. rewrite Forall_forall in F |- *. intros x Hx. apply filter_In in Hx. now apply F. Qed.

Lemma map_filter_fst (f : K -> bool) (t : list trow) : map fst (filter (fun r => f (fst r)) t) = filter f (map fst t).
Proof. induction t as [|r t IH]; simpl; [reflexivity|]. destruct (f (fst r)); simpl; now rewrite IH. Qed.

Lemma gather_map {A B} (f : A -> B) dA l idx : (forall i, In i idx -> (i < length l)%nat) ->
  map f (gather A dA l idx) = gather B (f dA) (map f l) idx.
Proof. intros H. unfold gather. rewrite map_map. apply map_ext_in. intros i Hi. symmetry. apply map_nth. Qed.

(* keys of the subset = the sorted list of fit names *)
Lemma subset_keys (table : list trow) names :
  StronglySorted Z.lt (map fst table) -> NoDup names -> (forall k, In k names -> In k (map fst table)) ->
  filter (fun k => memb k names) (map fst table) = sortK names.
Proof.
  intros S N Sub. apply ssortedZ_unique.
  - now apply filter_ssorted.
  - apply sorted_le_nodup_ltZ; [apply sortK_sorted|]. eapply Permutation_NoDup; [apply Permutation_sym, sortK_perm|exact N].
  - rewrite sortK_perm. apply NoDup_Permutation.
    + apply NoDup_filter. clear -S. induction S as [|a r S IH F]; constructor; [|exact IH].
      intros X. rewrite Forall_forall in F. specialize (F a X). lia.
    + exact N.
    + intros k. rewrite filter_In, memb_In. split; [tauto|]. intros H. split; [now apply Sub|exact H].
Qed.

Theorem C09_lookup (table : list trow) names :
  StronglySorted Z.lt (map fst table) -> NoDup names -> (forall k, In k names -> In k (map fst table)) ->
  exists out, filter_table_m table names = Some out /\ map fst out = names /\ (forall r, In r out -> In r table).
Proof.
  intros S N Sub. unfold filter_table_m.
  set (subset := filter (fun r => memb (fst r) names) table).
  set (index := argsortn (argsortK names)).
  assert (Hk : map fst subset = sortK names).
  { unfold subset. rewrite (map_filter_fst (fun k => memb k names)). now apply subset_keys. }
  assert (Hlen : length subset = length names).
  { rewrite <- (map_length fst subset), Hk. unfold sortK, gatherK, gather. rewrite map_length. apply argsort_length. }
  assert (Hidx : forall i, In i index -> (i < length subset)%nat).
  { intros i Hi. unfold index, argsortn in Hi. apply argsort_bound in Hi. unfold argsortK in Hi. rewrite argsort_length in Hi. lia. }
  assert (Hnames : map fst (gather trow (0, dP) subset index) = names).
  { etransitivity; [apply (gather_map (@fst K P) (0, dP) subset index Hidx)|]. simpl fst. rewrite Hk.
    unfold sortK, gatherK, index, argsortK. apply (rank_of_rank K Z.leb 0 names). }
  destruct (list_eq_dec Z.eq_dec _ names) as [E|E]; [|contradiction].
  eexists. split; [reflexivity|]. split; [exact Hnames|].
  intros r Hr. unfold gather in Hr. apply in_map_iff in Hr. destruct Hr as [i [<- Hi]].
  specialize (Hidx i Hi). assert (X : In (nth i subset (0, dP)) subset) by (apply nth_In; exact Hidx).
  unfold subset in X. apply filter_In in X. tauto.
Qed.
End FilterTable.
Print Assumptions C09_lookup.
