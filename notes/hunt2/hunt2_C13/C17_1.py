"""
C17: "For every selected fit, plot() draws that model's SED ...  The number of
curves equals the number of selected fits times the number of apertures the
chosen display mode shows, for every display mode, and the best fit is drawn last."

With plot_mode='I' (one fit per plot, a documented option) and no output_dir,
plot() returns its figures in a dictionary keyed by the source name only, and
every fit overwrites the entry of the previous one: of the N selected fits only
the best one comes back, the SEDs of the others are computed and thrown away.
(With output_dir the same call writes N files, so N fits were selected.)
"""
import os, sys, tempfile, io, contextlib
import numpy as np
import matplotlib
matplotlib.use('Agg')
from astropy import units as u

# ---- helper: a small cube package built with the public API ----
import os
import numpy as np
from astropy import units as u
from astropy.table import Table
from sedfitter.sed import SEDCube
from sedfitter.extinction import Extinction


def make_pkg(d, n_models=4, n_ap=5, n_wav=12, aperture_dependent=True, seed=1):
    rng = np.random.RandomState(seed)
    cube = SEDCube()
    cube.names = np.array(['m_%02d' % i for i in range(n_models)])
    cube.distance = 1 * u.kpc
    cube.wav = np.logspace(-1, 3, n_wav) * u.micron
    cube.apertures = np.logspace(2, 5, n_ap) * u.au
    cube.val = np.cumsum(0.5 + rng.random_sample((n_models, n_ap, n_wav)), axis=1) * u.mJy
    cube.unc = cube.val * 0.01
    cube.write(os.path.join(d, 'flux.fits'))
    with open(os.path.join(d, 'models.conf'), 'w') as f:
        f.write("name = test\nlength_subdir = 0\naperture_dependent = %s\nlogd_step = 0.02\nversion = 2\n"
                % ('yes' if aperture_dependent else 'no'))
    t = Table()
    t['MODEL_NAME'] = np.array(cube.names, dtype='S')
    t['par1'] = rng.random_sample(n_models)
    t.write(os.path.join(d, 'parameters.fits'))
    return cube


def law():
    e = Extinction()
    e.wav = np.logspace(-2., 4., 80) * u.micron
    e.chi = e.wav.value ** -1.5 * 200. * u.cm ** 2 / u.g
    return e

# ratio (drawn curve) / (stored prediction) that the rounded constants of plot.py produce
CONST = (3.0856775814913673e21 / 3.086e21) ** 2 * (2.99792458e8 / 3.e8)
# ---- end of helper ----

from sedfitter.fit import Fitter
from sedfitter.source import Source
from sedfitter import plot

d = tempfile.mkdtemp()
with contextlib.redirect_stdout(io.StringIO()):
    cube = make_pkg(d)
    wavs = cube.wav.to(u.micron).value
    fitter = Fitter([wavs[2] * u.micron, wavs[5] * u.micron, wavs[7] * u.micron], [3., 1., 3.] * u.arcsec, d,
                    extinction_law=law(), av_range=[0., 5.], distance_range=[0.5, 3.] * u.kpc, use_memmap=False)
s = Source()
s.name = 'src'; s.x = 0.; s.y = 0.
s.valid = [1, 1, 1]; s.flux = np.array([3., 5., 4.]); s.error = np.array([.3, .5, .4])
info = fitter.fit(s)

n_sel = 3

# reference: all fits in one plot
figs = plot(info, select_format=('N', n_sel), plot_mode='A', sed_type='interp')
n_A = len(figs['src']['lines'].get_segments())
assert n_A == n_sel, n_A

# the same selection written to files, one fit per plot: three files
od = os.path.join(d, 'plots')
plot(info, od, select_format=('N', n_sel), plot_mode='I', sed_type='interp', format='png')
assert len(os.listdir(od)) == n_sel, os.listdir(od)

# the same selection returned as figures
figs = plot(info, select_format=('N', n_sel), plot_mode='I', sed_type='interp')
n_I = sum(len(f['lines'].get_segments()) for f in figs.values())
assert n_I == n_sel, ("C17 (every selected fit is drawn / number of curves): plot(select_format=('N', %d), plot_mode='I') "
                      "returned %d figure(s) holding %d curve(s) in total; %d fits were selected (plot_mode='A' returns %d "
                      "curves and output_dir gets %d files), the fits 2..%d are overwritten in the returned dictionary"
                      % (n_sel, len(figs), n_I, n_sel, n_A, n_sel, n_sel))
print("no violation")
