"""Helpers to build and canonicalise FitInfo objects (used by C09, C10, C18, C19)."""
import math


def make_meta():
    import numpy as np
    from astropy import units as u
    from sedfitter.fit_info import FitInfoMeta
    from sedfitter.extinction import Extinction
    m = FitInfoMeta()
    m.model_dir = 'models_dir_x'
    m.filters = [{'aperture_arcsec': 3.0, 'name': 'F1', 'wav': 1.25 * u.micron},
                 {'aperture_arcsec': 3.5, 'name': 'F2', 'wav': 2.5 * u.micron}]
    e = Extinction()
    e.wav = np.array([0.1, 0.55, 1.0, 10.0]) * u.micron
    e.chi = np.array([900., 220., 90., 5.]) * u.cm ** 2 / u.g
    m.extinction_law = e
    return m


def make_source(name, flags, flux=None, error=None):
    from sedfitter.source import Source
    s = Source()
    s.name = name
    s.x, s.y = 1.5, -2.25
    s.valid = list(flags)
    s.flux = list(flux) if flux is not None else [1.0 + i for i in range(len(flags))]
    s.error = list(error) if error is not None else [0.1] * len(flags)
    return s


def make_info(name, flags, chi2, names=None, fluxes=True, meta=None, av=None, sc=None, ids=None):
    """a FitInfo whose columns are distinct per row"""
    import numpy as np
    from sedfitter.fit_info import FitInfo
    n = len(chi2)
    info = FitInfo(source=make_source(name, flags))
    info.chi2 = np.array(chi2, dtype=float)
    info.av = np.array(av, dtype=float) if av is not None else np.arange(n) * 0.5 + 0.25
    info.sc = np.array(sc, dtype=float) if sc is not None else -np.arange(n) * 0.125 + 1.0
    info.model_id = np.array(ids) if ids is not None else np.arange(n)[::-1].copy()
    info.model_name = np.array(names if names is not None else ['m%03d' % i for i in range(n)], dtype='U30')
    info.model_fluxes = (np.arange(n * len(flags), dtype=float).reshape(n, len(flags)) + 0.5) if fluxes else None
    info.meta = meta if meta is not None else make_meta()
    return info


def _num(x):
    x = float(x)
    if math.isnan(x):
        return 'nan'
    if math.isinf(x):
        return 'inf' if x > 0 else '-inf'
    return x


def _name(x):
    return x.decode() if isinstance(x, bytes) else str(x)


def info_state(info, with_meta=False):
    """canonical, JSON-able, NaN-aware description of a FitInfo"""
    import numpy as np
    s = info.source
    d = dict(source=dict(name=s.name, x=_num(s.x), y=_num(s.y), valid=[int(v) for v in s.valid],
                         flux=[_num(v) for v in s.flux], error=[_num(v) for v in s.error]),
             av=[_num(v) for v in info.av], sc=[_num(v) for v in info.sc], chi2=[_num(v) for v in info.chi2],
             model_id=[int(v) for v in info.model_id], model_name=[_name(v).strip() for v in info.model_name],
             model_fluxes=None if info.model_fluxes is None else [[_num(v) for v in row] for row in np.asarray(info.model_fluxes)])
    if with_meta:
        d['meta'] = meta_state(info.meta)
    return d


def meta_state(m):
    from astropy import units as u
    fl = []
    for f in m.filters:
        fl.append(dict(aperture_arcsec=_num(f['aperture_arcsec']), name=f.get('name'),
                       wav_um=_num(f['wav'].to(u.micron).value) if 'wav' in f else None))
    e = m.extinction_law
    return dict(model_dir=m.model_dir, filters=fl,
                ext_wav=[_num(v) for v in e.wav.to(u.micron).value], ext_chi=[_num(v) for v in e.chi.to(u.cm ** 2 / u.g).value])


def read_all(path, with_meta=False):
    """records of a fit file (a zero-byte file holds none)"""
    import os
    from sedfitter.fit_info import FitInfoFile
    if os.path.getsize(path) == 0:
        return []
    f = FitInfoFile(path, 'r')
    out = [info_state(i, with_meta) for i in f]
    f.close()
    return out
