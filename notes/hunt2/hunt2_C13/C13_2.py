"""
C13, clause "the largest-aperture value for radii beyond the table", requests
"passed as ... quantities".

ConvolvedFluxes.interpolate writes the largest tabulated aperture INTO A COPY
OF THE REQUEST, i.e. into an array with the request's dtype and unit, and then
interpolates at whatever was stored there.  (The same defect was repaired in
SED.interpolate_variable by working on a float64 copy; this method still has it.)
 * integer-dtype Quantity (u.Quantity([...], u.au, dtype=int)):  TypeError
   "cannot convert value type to array type without precision loss" as soon as
   one radius lies beyond a table whose last aperture is not a whole number
   in the request's unit (e.g. a table in AU and a request in whole parsecs);
 * float32 Quantity: the maximum is rounded to float32, which may fall inside
   the last interval, and the value returned is an interpolant, not the
   largest-aperture value (error 3% in the example below).
"""
import numpy as np
from astropy import units as u
from sedfitter.convolved_fluxes import ConvolvedFluxes

msgs = []

# --- integer radii in parsec, table in AU -----------------------------------
c = ConvolvedFluxes(wavelength=3. * u.micron,
                    model_names=np.array(['m2', 'm1']),
                    apertures=[100., 1000., 100000.] * u.au,
                    flux=np.array([[1., 2., 3.], [4., 5., 7.]]) * u.mJy,
                    error=np.array([[.1, .2, .3], [.4, .5, .7]]) * u.mJy)

ref = c.interpolate([1., 2.] * u.pc).flux.to(u.mJy).value      # float radii: fine
assert np.array_equal(ref, [[3., 3.], [7., 7.]]), ref

req = u.Quantity([1, 2], u.pc, dtype=int)                      # 1 pc and 2 pc, beyond 1e5 AU
try:
    got = c.interpolate(req).flux.to(u.mJy).value
    if not np.array_equal(got, ref):
        msgs.append("integer radii %s: got %s, expected the largest-aperture values %s" % (req, got, ref))
except Exception as e:
    msgs.append("integer radii %r beyond the table: %s: %s (the largest-aperture value %s is promised)"
                % (req, type(e).__name__, e, ref[:, 0]))

# --- float32 radii -------------------------------------------------------------
c2 = ConvolvedFluxes(wavelength=3. * u.micron,
                     model_names=np.array(['m2', 'm1']),
                     apertures=[100., 100000.2, 100000.3] * u.au,
                     flux=np.array([[1., 2., 1000.], [4., 5., 7.]]) * u.mJy,
                     error=np.zeros((2, 3)) * u.mJy)
req32 = u.Quantity([2.e5, 3.e5], u.au, dtype=np.float32)
ref2 = c2.interpolate(req32.astype(np.float64)).flux.value
assert np.array_equal(ref2, [[1000., 1000.], [7., 7.]]), ref2
got2 = c2.interpolate(req32).flux.value
if not np.allclose(got2, ref2, rtol=1e-9):
    msgs.append("float32 radii %r beyond the table: got %s, expected the largest-aperture values %s"
                % (req32, got2.tolist(), ref2.tolist()))

assert not msgs, "C13 (clamped above, request given as a non-float64 Quantity): " + " | ".join(msgs)
print("no violation")
