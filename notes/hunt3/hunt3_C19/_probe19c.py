import os, tempfile
import numpy as np
from astropy import units as u
from sedfitter.fit_info import FitInfo, FitInfoFile
from sedfitter.source import Source
from sedfitter.extinction import Extinction

def mk(i, nfit, nw, kind):
    s = Source(); s.name = "srcé%d" % i; s.x = float('nan'); s.y = -2.0
    s.valid = np.array([1, 0, 9, 4][:nw]); s.flux = np.array([1., -999., np.inf, 2.])[:nw]; s.error = np.array([.1, -999., np.nan, 2.])[:nw]
    info = FitInfo(s)
    info.av = np.arange(nfit) * 0.5; info.sc = (np.arange(nfit) * -0.25).astype('f4'); info.chi2 = np.arange(nfit) * 1.0 + i
    info.chi2[:1] = np.nan
    info.model_id = np.arange(nfit)[::-1]
    names = ["m%04d" % j for j in range(nfit)]
    info.model_name = {'O': np.array(names, dtype=object), 'U': np.array(names, dtype='U30'), 'S': np.array(names, dtype='S30'), 'M': np.ma.array(np.array(names, dtype='S30'))}[kind]
    info.model_fluxes = np.asfortranarray(np.arange(nfit * nw, dtype=float).reshape(nfit, nw)) if kind in 'OU' else None
    return info

def eq(x, y):
    if x is None or y is None: return x is None and y is None
    x = np.asarray(x); y = np.asarray(y)
    if x.dtype != y.dtype or x.shape != y.shape: return False
    if x.dtype.kind == 'f': return np.array_equal(x, y, equal_nan=True)
    return np.array_equal(x, y)
def same(a, b):
    sa, sb = a.__getstate__(), b.__getstate__()
    for k in sa:
        if k == 'source':
            da, db = sa[k].to_dict(), sb[k].to_dict()
            if da['name'] != db['name']: return False
            for kk in ('x','y','valid', 'flux', 'error'):
                if not eq(da[kk], db[kk]): return False
        elif not eq(sa[k], sb[k]): return False
    return True

ext = Extinction(); ext.wav = np.array([0.1, 1, 10.]) * u.micron; ext.chi = np.array([3., 2., 1.]) * u.cm**2 / u.g
tmp = tempfile.mkdtemp(); bad = 0; outcomes = {}
for kind in 'OUSM':
    for sizes in [(1,), (3, 1), (1, 2, 5), (2, 1, 1, 4)]:
        infos = [mk(i, n, 4, kind) for i, n in enumerate(sizes)]
        for inf in infos:
            inf.meta.model_dir = "models_x"; inf.meta.filters = [{'name': 'A', 'aperture_arcsec': 3.0, 'wav': 1.0 * u.micron}]; inf.meta.extinction_law = ext
        p = os.path.join(tmp, "f.fitinfo"); f = FitInfoFile(p, 'w')
        for inf in infos: f.write(inf)
        f.close()
        fin = FitInfoFile(p, 'r'); full = list(fin); fin.close()
        assert len(full) == len(infos) and all(same(a, b) for a, b in zip(full, infos)), kind
        data = open(p, 'rb').read()
        for cut in range(len(data)):
            q = os.path.join(tmp, "t.fitinfo"); open(q, 'wb').write(data[:cut])
            try:
                fin = FitInfoFile(q, 'r'); got = []
                for g in fin: got.append(g)
                fin.close()
            except Exception as e:
                outcomes[type(e).__name__] = outcomes.get(type(e).__name__, 0) + 1; continue
            outcomes['ok%d' % len(got)] = outcomes.get('ok%d' % len(got), 0) + 1
            if len(got) > len(infos) or not all(same(a, b) for a, b in zip(got, infos)):
                bad += 1; print("BAD", kind, sizes, cut, len(got))
print(outcomes, bad)
