From Coq Require Import QArith Lqa Lia List Bool.
Import ListNotations.
Open Scope Q_scope.

Definition pt := (Q * Q)%type.
Definition lin (p0 p1 : pt) (t : Q) : Q :=
  snd p0 + (t - fst p0) * (snd p1 - snd p0) / (fst p1 - fst p0).
Definition area (p0 p1 : pt) : Q := (fst p1 - fst p0) * (snd p1 + snd p0) / 2.

Fixpoint trapz (l : list pt) : Q :=
  match l with
  | p0 :: r => match r with p1 :: _ => area p0 p1 + trapz r | [] => 0 end
  | [] => 0
  end.

Fixpoint G (l : list pt) (t : Q) : Q :=
  match l with
  | p0 :: r => match r with
               | p1 :: _ => if Qle_bool t (fst p1) then area p0 (t, lin p0 p1 t)
                            else area p0 p1 + G r t
               | [] => 0 end
  | [] => 0
  end.

Fixpoint fval (l : list pt) (t : Q) : Q :=
  match l with
  | p0 :: r => match r with
               | p1 :: _ => if Qle_bool t (fst p1) then lin p0 p1 t else fval r t
               | [] => snd p0 end
  | [] => 0
  end.

Fixpoint incr (l : list pt) : Prop :=
  match l with
  | p0 :: r => match r with p1 :: _ => fst p0 < fst p1 /\ incr r | [] => True end
  | [] => True
  end.

Definition inab (a b : Q) (p : pt) : bool := Qle_bool a (fst p) && negb (Qle_bool b (fst p)).
Definition mid (l : list pt) (a b : Q) : list pt := filter (inab a b) l.
Definition cut (l : list pt) (a b : Q) : list pt := (a, fval l a) :: mid l a b ++ [(b, fval l b)].

Definition lastx (l : list pt) (d : Q) : Q := fst (last l (d, 0)).

(* --- algebra --- *)
Lemma area_split p0 p1 t : ~ fst p1 - fst p0 == 0 ->
  area p0 (t, lin p0 p1 t) + area (t, lin p0 p1 t) p1 == area p0 p1.
Proof. intros H. unfold area, lin; simpl. field. exact H. Qed.
Lemma area_mid p0 p1 a b : ~ fst p1 - fst p0 == 0 ->
  area (a, lin p0 p1 a) (b, lin p0 p1 b) == area p0 (b, lin p0 p1 b) - area p0 (a, lin p0 p1 a).
Proof. intros H. unfold area, lin; simpl. field. exact H. Qed.
Lemma area_zero p q : fst p == fst q -> area p q == 0.
Proof. intros H. unfold area. rewrite H. field. Qed.

(* --- compatibility of trapz with == on the head point --- *)
Lemma trapz_hd (x x' y y' : Q) l : x == x' -> y == y' -> trapz ((x,y) :: l) == trapz ((x',y') :: l).
Proof. intros Hx Hy. destruct l as [|p r]; simpl; [reflexivity|].
  unfold area; simpl. rewrite Hx, Hy. reflexivity. Qed.

Lemma trapz_cons2 p q l : trapz (p :: q :: l) == area p q + trapz (q :: l).
Proof. reflexivity. Qed.

(* all nodes of r lie strictly right of x when the list x::r is increasing *)
Lemma incr_forall p0 r : incr (p0 :: r) -> Forall (fun p => fst p0 < fst p) r.
Proof.
  revert p0. induction r as [|p1 r IH]; intros p0 H; [constructor|].
  destruct H as [H01 H]. constructor; [exact H01|].
  specialize (IH p1 H). eapply Forall_impl; [|exact IH]. simpl. intros q Hq. lra.
Qed.

Lemma mid_none r a b : Forall (fun p => b <= fst p) r -> mid r a b = [].
Proof.
  induction 1 as [|p r Hp _ IH]; [reflexivity|]. unfold mid in *; simpl.
  unfold inab at 1. assert (E : Qle_bool b (fst p) = true) by (now apply Qle_bool_iff).
  rewrite E, andb_false_r. exact IH.
Qed.

Lemma mid_all_right r a b : Forall (fun p => a <= fst p) r -> mid r a b = filter (fun p => negb (Qle_bool b (fst p))) r.
Proof.
  induction 1 as [|p r Hp _ IH]; [reflexivity|]. unfold mid in *; simpl.
  unfold inab at 1. assert (E : Qle_bool a (fst p) = true) by (now apply Qle_bool_iff).
  rewrite E. simpl. now rewrite IH.
Qed.


Lemma filter_cons {A} (f : A -> bool) (x : A) l : filter f (x :: l) = if f x then x :: filter f l else filter f l.
Proof. reflexivity. Qed.

Lemma lastx_cons p0 p1 r d : lastx (p0 :: p1 :: r) d = lastx (p1 :: r) d.
Proof. reflexivity. Qed.

Lemma G_first p1 p2 r : G (p1 :: p2 :: r) (fst p1) == 0.
Proof.
  cbn [G]. destruct (Qle_bool (fst p1) (fst p2)); unfold area; simpl.
  - field.
  - (* unreachable for increasing lists, but also need not hold; handled by hypothesis below *)
Abort.

Lemma G_first p1 p2 r : fst p1 < fst p2 -> G (p1 :: p2 :: r) (fst p1) == 0.
Proof.
  intros H. cbn [G].
  assert (E : Qle_bool (fst p1) (fst p2) = true) by (apply Qle_bool_iff; lra).
  rewrite E. unfold area; simpl. field.
Qed.

Lemma nle_bool a b : Qle_bool a b = false <-> b < a.
Proof.
  split; intros H.
  - destruct (Qlt_le_dec b a) as [L|L]; [exact L|]. apply Qle_bool_iff in L. congruence.
  - destruct (Qle_bool a b) eqn:E; [|reflexivity]. apply Qle_bool_iff in E. lra.
Qed.

Theorem isub_exact : forall l, incr l -> forall a b d, (2 <= length l)%nat ->
  fst (hd (d,0) l) <= a -> a <= b -> b <= lastx l d ->
  trapz (cut l a b) == G l b - G l a.
Proof.
  induction l as [|p0 r IH]; intros Hi a b d Hlen H0 Hab Hb; [simpl in Hlen; lia|].
  destruct r as [|p1 r']; [simpl in Hlen; lia|].
  destruct Hi as [H01 Hi]. simpl in H0.
  assert (Hd01 : ~ fst p1 - fst p0 == 0) by lra.
  pose proof (incr_forall p1 r' Hi) as Hr'.
  destruct (Qle_bool b (fst p1)) eqn:Eb.
  - (* b within the first segment *)
    apply Qle_bool_iff in Eb.
    assert (Ea : Qle_bool a (fst p1) = true) by (apply Qle_bool_iff; lra).
    unfold cut. cbn [fval G]. rewrite Ea.
    assert (Eb' : Qle_bool b (fst p1) = true) by (now apply Qle_bool_iff). rewrite Eb'.
    unfold mid. cbn [filter].
    assert (E1 : inab a b p1 = false) by (unfold inab; rewrite Eb'; apply andb_false_r). rewrite E1.
    assert (Er : filter (inab a b) r' = []).
    { apply (mid_none r' a b). eapply Forall_impl; [|exact Hr']. simpl; intros q Hq; lra. }
    rewrite Er.
    destruct (inab a b p0) eqn:E0.
    + unfold inab in E0. apply andb_true_iff in E0. destruct E0 as [E0 _]. apply Qle_bool_iff in E0.
      assert (Ha0 : a == fst p0) by lra.
      cbn [app trapz].
      rewrite (area_zero (a, lin p0 p1 a) p0) by (simpl; exact Ha0).
      assert (Z : area p0 (a, lin p0 p1 a) == 0) by (apply area_zero; simpl; lra).
      rewrite Z. ring.
    + cbn [app trapz]. rewrite area_mid by exact Hd01. ring.
  - (* b beyond the first segment *)
    apply nle_bool in Eb.
    destruct r' as [|p2 r''].
    { unfold lastx in Hb; simpl in Hb. lra. }
    assert (Hlen' : (2 <= length (p1 :: p2 :: r''))%nat) by (simpl; lia).
    assert (Hb' : b <= lastx (p1 :: p2 :: r'') d) by (rewrite <- lastx_cons with (p0:=p0); exact Hb).
    assert (Ebf : Qle_bool b (fst p1) = false) by (now apply nle_bool).
    destruct (Qle_bool a (fst p1)) eqn:Ea.
    + (* a within the first segment *)
      apply Qle_bool_iff in Ea.
      destruct Hi as [H12 Hi2].
      (* IH at a' = x1 *)
      assert (IH1 := IH (conj H12 Hi2) (fst p1) b d Hlen' (Qle_refl _) (Qlt_le_weak _ _ Eb) Hb').
      rewrite (G_first p1 p2 r'' H12) in IH1.
      unfold cut in IH1.
      assert (Em1 : mid (p1 :: p2 :: r'') (fst p1) b = p1 :: filter (fun p => negb (Qle_bool b (fst p))) (p2 :: r'')).
      { unfold mid. rewrite (filter_cons _ p1).
        assert (X : inab (fst p1) b p1 = true).
        { unfold inab. rewrite Ebf. simpl. rewrite andb_true_r. apply Qle_bool_iff. lra. }
        rewrite X. f_equal. apply (mid_all_right (p2 :: r'') (fst p1) b).
        eapply Forall_impl; [|exact Hr']. simpl; intros q Hq; lra. }
      rewrite Em1 in IH1.
      set (F := filter (fun p => negb (Qle_bool b (fst p))) (p2 :: r'')) in *.
      change ((fst p1, fval (p1 :: p2 :: r'') (fst p1)) :: (p1 :: F) ++ [(b, fval (p1 :: p2 :: r'') b)])
        with ((fst p1, fval (p1 :: p2 :: r'') (fst p1)) :: p1 :: (F ++ [(b, fval (p1 :: p2 :: r'') b)])) in IH1.
      rewrite trapz_cons2 in IH1.
      rewrite area_zero in IH1 by reflexivity.
      (* now our side *)
      unfold cut.
      assert (Eaf : Qle_bool a (fst p1) = true) by (now apply Qle_bool_iff).
      assert (Hfa : fval (p0 :: p1 :: p2 :: r'') a = lin p0 p1 a) by (cbn [fval]; now rewrite Eaf).
      assert (Hfb : fval (p0 :: p1 :: p2 :: r'') b = fval (p1 :: p2 :: r'') b) by (cbn [fval]; now rewrite Ebf).
      assert (HGa : G (p0 :: p1 :: p2 :: r'') a = area p0 (a, lin p0 p1 a)) by (cbn [G]; now rewrite Eaf).
      assert (HGb : G (p0 :: p1 :: p2 :: r'') b = area p0 p1 + G (p1 :: p2 :: r'') b) by (cbn [G]; now rewrite Ebf).
      rewrite Hfa, Hfb, HGa, HGb.
      assert (Em : mid (p0 :: p1 :: p2 :: r'') a b = (if inab a b p0 then [p0] else []) ++ p1 :: F).
      { unfold mid. rewrite (filter_cons _ p0), (filter_cons _ p1).
        assert (X : inab a b p1 = true).
        { unfold inab. rewrite Ebf, Eaf. reflexivity. }
        rewrite X.
        assert (Y : filter (inab a b) (p2 :: r'') = F).
        { apply (mid_all_right (p2 :: r'') a b).
          eapply Forall_impl; [|exact Hr']. simpl; intros q Hq; lra. }
        rewrite Y. destruct (inab a b p0); reflexivity. }
      rewrite Em.
      destruct (inab a b p0) eqn:E0.
      * unfold inab in E0. apply andb_true_iff in E0. destruct E0 as [E0 _]. apply Qle_bool_iff in E0.
        assert (Ha0 : a == fst p0) by lra.
        change ((a, lin p0 p1 a) :: ([p0] ++ p1 :: F) ++ [(b, fval (p1 :: p2 :: r'') b)])
          with ((a, lin p0 p1 a) :: p0 :: p1 :: (F ++ [(b, fval (p1 :: p2 :: r'') b)])).
        rewrite !trapz_cons2.
        pose proof (area_zero (a, lin p0 p1 a) p0 Ha0) as Z1.
        assert (Z : area p0 (a, lin p0 p1 a) == 0) by (apply area_zero; simpl; lra).
        change ((p1 :: F) ++ [(b, fval (p1 :: p2 :: r'') b)]) with (p1 :: (F ++ [(b, fval (p1 :: p2 :: r'') b)])) in IH1.
        lra.
      * change ((a, lin p0 p1 a) :: ([] ++ p1 :: F) ++ [(b, fval (p1 :: p2 :: r'') b)])
          with ((a, lin p0 p1 a) :: p1 :: (F ++ [(b, fval (p1 :: p2 :: r'') b)])).
        rewrite trapz_cons2.
        change ((p1 :: F) ++ [(b, fval (p1 :: p2 :: r'') b)]) with (p1 :: (F ++ [(b, fval (p1 :: p2 :: r'') b)])) in IH1.
        pose proof (area_split p0 p1 a Hd01) as SP.
        lra.
    + (* a beyond the first segment: everything shifts to the tail *)
      apply nle_bool in Ea.
      assert (Eaf : Qle_bool a (fst p1) = false) by (now apply nle_bool).
      assert (X0 : inab a b p0 = false).
      { unfold inab. assert (Y : Qle_bool a (fst p0) = false) by (apply nle_bool; lra). now rewrite Y. }
      assert (X1 : inab a b p1 = false) by (unfold inab; now rewrite Eaf).
      assert (Hc : cut (p0 :: p1 :: p2 :: r'') a b = cut (p1 :: p2 :: r'') a b).
      { unfold cut. cbn [fval]. rewrite Eaf, Ebf.
        assert (M0 : mid (p0 :: p1 :: p2 :: r'') a b = mid (p2 :: r'') a b).
        { unfold mid. rewrite (filter_cons _ p0), (filter_cons _ p1). now rewrite X0, X1. }
        assert (M1 : mid (p1 :: p2 :: r'') a b = mid (p2 :: r'') a b).
        { unfold mid. rewrite (filter_cons _ p1). now rewrite X1. }
        rewrite M0, M1. reflexivity. }
      rewrite Hc.
      rewrite (IH Hi a b d Hlen' (Qlt_le_weak _ _ Ea) Hab Hb').
      cbn [G]. rewrite Eaf, Ebf. ring.
Qed.
Print Assumptions isub_exact.
