import os, tempfile, io, contextlib
import numpy as np
from astropy import units as u
from sedfitter.convolved_fluxes import ConvolvedFluxes
from sedfitter.extinction import Extinction
from sedfitter.source import Source
from sedfitter.fit import Fitter

def ext():
    e = Extinction()
    e.wav = np.logspace(-2., 3., 50) * u.micron
    e.chi = e.wav.value ** -1.5 * u.cm ** 2 / u.g
    return e

def make_dir(names, fluxes, wavs, apertures=None, filt_names=None):
    """fluxes: (n_models, n_wav) or (n_models, n_ap, n_wav) in mJy"""
    d = tempfile.mkdtemp()
    os.mkdir(os.path.join(d, 'convolved'))
    names = np.array(names)
    nw = len(wavs)
    if filt_names is None:
        filt_names = ['F%d' % i for i in range(nw)]
    for i in range(nw):
        c = ConvolvedFluxes()
        c.model_names = names
        c.central_wavelength = wavs[i] * u.micron
        if apertures is not None:
            c.apertures = np.array(apertures) * u.au
            c.flux = np.array(fluxes)[:, :, i] * u.mJy
        else:
            c.flux = np.array(fluxes)[:, i].reshape(-1, 1) * u.mJy
        c.error = c.flux * 0.
        c.write(os.path.join(d, 'convolved', filt_names[i] + '.fits'))
    with open(os.path.join(d, 'models.conf'), 'w') as f:
        f.write("name = test\nlength_subdir = 0\naperture_dependent = %s\nlogd_step = 0.02\n" % ('yes' if apertures is not None else 'no'))
    return d, filt_names

def quiet(fn, *a, **k):
    with contextlib.redirect_stdout(io.StringIO()):
        return fn(*a, **k)

def src(valid, flux, error, name='s'):
    s = Source()
    s.name = name
    s.x = 0.; s.y = 0.
    s.valid = np.array(valid)
    s.flux = np.array(flux, dtype=float)
    s.error = np.array(error, dtype=float)
    return s
