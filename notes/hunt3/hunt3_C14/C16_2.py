"""
C16, clause "The set of files and their contents do not depend on the memory
limit that controls chunking" (BORDERLINE: is an infinite limit a legal one?).

max_ram is documented as a float, 'the maximum amount of RAM that can be used
(in Gb)'.  The natural way of saying 'no limit' is max_ram=numpy.inf (the
window defaults are +-inf too).  It corresponds to a chunk size of n_wav
(= min(n_wav, floor(inf))), but the function raises
OverflowError('cannot convert float infinity to integer') and writes nothing.
The same happens for any finite max_ram >= ~1.7e299, for which
max_ram * 1024**3 overflows to inf.
"""
import os
import tempfile

import numpy as np
from astropy import units as u
from astropy.table import Table

from sedfitter.sed import SED
from sedfitter.convolve import convolve_model_dir_monochromatic


def make_package():
    d = tempfile.mkdtemp()
    os.mkdir(os.path.join(d, 'seds'))
    names = ['model_a', 'model_b']
    for i, name in enumerate(names):
        s = SED()
        s.name = name
        s.distance = 1. * u.kpc
        s.wav = [1., 2., 4.] * u.micron
        s.nu = s.wav.to(u.Hz, equivalencies=u.spectral())
        s.apertures = [100., 1000.] * u.au
        s.flux = (np.arange(6).reshape(2, 3) + 1. + 10 * i) * u.mJy
        s.error = s.flux * 0.1
        s.write(os.path.join(d, 'seds', name + '_sed.fits'))
    with open(os.path.join(d, 'models.conf'), 'w') as f:
        f.write("name = test\nlength_subdir = 0\naperture_dependent = yes\nlogd_step = 0.02\n")
    t = Table()
    t['MODEL_NAME'] = np.array(names, dtype='S30')
    t['par1'] = [1., 2.]
    t.write(os.path.join(d, 'parameters.fits'))
    return d


d0 = make_package()
convolve_model_dir_monochromatic(d0, max_ram=8)
ref = sorted(os.listdir(os.path.join(d0, 'convolved')))
assert ref == ['MO001.fits', 'MO002.fits', 'MO003.fits'], ref

for max_ram in (np.inf, 1e300):
    d1 = make_package()
    try:
        convolve_model_dir_monochromatic(d1, max_ram=max_ram)
    except Exception as exc:
        raise AssertionError(
            "C16 violated (files do not depend on the memory limit): with "
            "max_ram={0!r} (no effective limit, chunk size = n_wav) the "
            "monochromatic convolution raises {1!r} instead of writing {2}"
            .format(max_ram, exc, ref))
    got = sorted(os.listdir(os.path.join(d1, 'convolved')))
    assert got == ref, (max_ram, got, ref)
