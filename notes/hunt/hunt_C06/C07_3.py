"""
C07 - quantifier "any row permutation of the parameter table ... format in {per-file, cube}",
      statement "rows follow the package's parameter-table (per-file format) or cube
      (cube format) order".

For a cube package whose parameters.fits lists the same models as flux.fits but in a
different row order, convolve_model_dir does not produce a convolved-flux file in cube
order: it refuses with ValueError("Model names in SED cube and parameter file do not
match").  The per-file package with the same permuted table is convolved without
complaint (rows re-ordered by name).  [By-design guard in _convolve_model_dir_2, but it
contradicts the statement as quantified.]
"""
import os
import tempfile

import numpy as np
from astropy import units as u
from astropy.table import Table

from sedfitter.filter import Filter
from sedfitter.sed import SED, SEDCube
from sedfitter.convolve import convolve_model_dir
from sedfitter.convolved_fluxes import ConvolvedFluxes


def conf(d, version):
    with open(os.path.join(d, 'models.conf'), 'w') as f:
        f.write("name = test\nlength_subdir = 0\naperture_dependent = yes\nlogd_step = 0.02\n")
        if version == 2:
            f.write("version = 2\n")


def pars(d, names):
    t = Table()
    t['MODEL_NAME'] = np.array(names, dtype='S30')
    t['par1'] = np.arange(len(names), dtype=float)
    t.write(os.path.join(d, 'parameters.fits'))


names = ['m_a', 'm_b', 'm_c']
table_order = ['m_c', 'm_a', 'm_b']               # a row permutation of the parameter table
wav = np.logspace(-1., 3., 30) * u.micron
nu = wav.to(u.Hz, equivalencies=u.spectral())
ap = np.array([100., 1000.]) * u.au
c = np.array([1., 2., 5.])
F = np.ones((3, 2, 30)) * c[:, None, None]
E = 0.1 * F
fw = np.linspace(1., 3., 12) * u.micron
filt = Filter(name='F', central_wavelength=2. * u.micron,
              nu=fw.to(u.Hz, equivalencies=u.spectral()), response=np.ones(12))
filt.normalize()

# per-file package with the permuted table: fine
d1 = tempfile.mkdtemp()
os.mkdir(os.path.join(d1, 'seds'))
for i, n in enumerate(names):
    s = SED()
    s.name = n
    s.distance = 1 * u.kpc
    s.wav = wav
    s.nu = nu
    s.apertures = ap
    s.flux = F[i] * u.mJy
    s.error = E[i] * u.mJy
    s.write(os.path.join(d1, 'seds', n + '_sed.fits'))
conf(d1, 1)
pars(d1, table_order)
convolve_model_dir(d1, [filt])
c1 = ConvolvedFluxes.read(os.path.join(d1, 'convolved', 'F.fits'))
assert list(c1.model_names) == table_order
assert np.allclose(c1.flux[:, 0].value, [5., 1., 2.])

# cube package with the same permuted table
d2 = tempfile.mkdtemp()
cube = SEDCube()
cube.names = np.array(names)
cube.distance = 1 * u.kpc
cube.wav = wav
cube.apertures = ap
cube.val = F * u.mJy
cube.unc = E * u.mJy
cube.write(os.path.join(d2, 'flux.fits'))
conf(d2, 2)
pars(d2, table_order)
try:
    convolve_model_dir(d2, [filt])
except Exception as exc:
    raise AssertionError(
        "C07: cube package with parameter-table rows %s and cube order %s: expected a "
        "convolved file with rows in cube order, but convolve_model_dir refused: %r"
        % (table_order, names, exc))
c2 = ConvolvedFluxes.read(os.path.join(d2, 'convolved', 'F.fits'))
assert list(c2.model_names) == names and np.allclose(c2.flux[:, 0].value, c)
print("no violation")
