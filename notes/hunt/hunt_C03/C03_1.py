import os, io, sys, tempfile, contextlib, warnings
import numpy as np
warnings.simplefilter('ignore')
from astropy import units as u
from sedfitter.convolved_fluxes import ConvolvedFluxes
from sedfitter.extinction import Extinction
from sedfitter.source import Source
from sedfitter.fit import Fitter


def ext():
    e = Extinction()
    e.wav = np.logspace(-2., 3., 50) * u.micron
    e.chi = e.wav.value ** -1.5 * u.cm ** 2 / u.g
    return e


def make_dir(names, fluxes, wavs, apertures=None):
    """Per-file (version 1) package holding only what the fitter reads:
    models.conf and convolved/<filter>.fits.
    fluxes: (n_models, n_wav) or (n_models, n_ap, n_wav), in mJy"""
    d = tempfile.mkdtemp()
    os.mkdir(os.path.join(d, 'convolved'))
    filt_names = ['F%d' % i for i in range(len(wavs))]
    for i in range(len(wavs)):
        c = ConvolvedFluxes()
        c.model_names = np.array(names)
        c.central_wavelength = wavs[i] * u.micron
        if apertures is not None:
            c.apertures = np.array(apertures) * u.au
            c.flux = np.array(fluxes)[:, :, i] * u.mJy
        else:
            c.flux = np.array(fluxes)[:, i].reshape(-1, 1) * u.mJy
        c.error = c.flux * 0.
        c.write(os.path.join(d, 'convolved', filt_names[i] + '.fits'))
    with open(os.path.join(d, 'models.conf'), 'w') as f:
        f.write("name = test\nlength_subdir = 0\naperture_dependent = %s\nlogd_step = 0.02\n"
                % ('yes' if apertures is not None else 'no'))
    return d, filt_names


def quiet(fn, *a, **k):
    with contextlib.redirect_stdout(io.StringIO()):
        return fn(*a, **k)


def src(valid, flux, error):
    s = Source()
    s.name = 's'
    s.x = 0.
    s.y = 0.
    s.valid = np.array(valid)
    s.flux = np.array(flux, dtype=float)
    s.error = np.array(error, dtype=float)
    return s


def row(info, name):
    i = list(info.model_name).index(name)
    return float(info.chi2[i]), float(info.av[i]), float(info.sc[i])

# ---------------------------------------------------------------------------
# C03, clause "Points flagged 0 (unused) or 9 (plot only) never influence any
# fit output" and clause "confidence 0 is equivalent to flag 0".
#
# Aperture-dependent package, Fitter(..., remove_resolved=True).  Model m0 is
# point-like in bands 0-3 and very extended in band 4 only.  Band 4 of the
# source is flagged 0, then 9, then 3 with confidence 0.  Models.fit rejects
# resolved models with  self.extended[:, :, source.valid > 0]  so the aperture
# of a plot-only point (9) and of a disabled limit (confidence 0) still decides
# which distances a model may take.
# ---------------------------------------------------------------------------
rng = np.random.RandomState(3)
wavs = [1., 2., 4., 8., 16.]
nm = 4
aps = np.logspace(1, 5, 30)
fl = np.ones((nm, 30, 5)) * (1 + rng.random_sample((nm, 1, 5)))
fl[0, :, 4] = 1e-18 * aps ** 5
names = ['m%d' % i for i in range(nm)]
d, fn = make_dir(names, fl, wavs, apertures=aps)
F = quiet(Fitter, fn, [3.] * 5 * u.arcsec, d, extinction_law=ext(), av_range=[0., 10.],
          distance_range=[1., 3.] * u.kpc, remove_resolved=True)

flux = [1., 2., 3., 4., 5.]
res = {}
for label, v4, e4 in (('flag 0', 0, .5), ('flag 9', 9, .5), ('flag 3, confidence 0', 3, 0.)):
    info = F.fit(src([1, 1, 1, 1, v4], flux, [.1, .2, .3, .4, e4]))
    res[label] = row(info, 'm0')
    print(label, '-> model m0: chi2=%.6f av=%.6f scale=%.6f' % res[label], ' ranking:', list(info.model_name))

ref = res['flag 0']
bad = [k for k in res if not np.allclose(res[k], ref, rtol=1e-12, atol=1e-12)]
assert not bad, ("C03 violated with remove_resolved=True: band 4 carries no information for the fit "
                 "(flag 0 / flag 9 / upper limit with confidence 0) yet model m0 gets (chi2, av, scale) = %s with flag 0 "
                 "but %s" % (ref, {k: res[k] for k in bad}))
print("no violation")
