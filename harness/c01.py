"""C01 — aperture-independent fits: Fitter.fit against FitModel.fit2_pkg and the constrained least-squares clauses."""
import math
from fractions import Fraction

from common import Rng, F, close
import fitcase

PROP = 'C01'
MODEL_OPS = 'FitModel.fit2_pkg (get_av_m, get_log_fluxes_m, linreg_m, clamp, optscale, chi2_m)'
RULE = ('v1 aperture-independent packages written as convolved/*.fits + models.conf and fitted through Fitter/Models.read/Extinction.get_av/Models.fit: '
        '2-6 bands, 1-8 models, flags over {0,1,2,3,4,9} with >=2 fitted bands, fluxes over 8 decades, relative errors 0.5-50%, confidences {0,(0,1),1}, '
        'extinction tables of 2-50 rows (filters sometimes outside the table), A_V ranges interior / clamping low / clamping high / lo==hi / narrow. '
        'non-trivial = non-singular regression (condition number < 1e8) with at least one model; distinct = distinct inputs.')
EXHAUSTIVE = {'quick': False, 'thorough': False}
ASSUMPTIONS = ['float rounding of the implementation: compared with relative tolerance 1e-10 x condition number of the 2x2 regression',
               'singular regressions (all extinction coefficients of the fitted bands equal) are outside the quantifier and skipped (counted)',
               'limit bands whose predicted flux is within 1e-9 of the limit are not compared on chi2 (near-tie filter)']
ALLOWED_AXIOMS = ('ClassicalDedekindReals.sig_forall_dec', 'FunctionalExtensionality.functional_extensionality_dep')


def generate(tier, seed):
    rng = Rng(seed * 65537 + 1)
    return [fitcase.gen_case(rng, '2d') for _ in range(300 if tier == 'quick' else 6000)]


impl = fitcase.impl_fit
shrink = fitcase.shrink


def model_requests(case):
    return [fitcase.model_request(case)]


def conditioning(case):
    bands = fitcase.log_bands(case['src'])
    ks = [fitcase.k_law(case['ext'], w) for w in case['wav']]
    m11 = sum(w * k * k for (f, lf, le, w), k in zip(bands, ks))
    m22 = sum(w * 4 for (f, lf, le, w) in bands)
    m12 = sum(w * k * -2 for (f, lf, le, w), k in zip(bands, ks))
    det = m11 * m22 - m12 * m12
    return bands, ks, (float(m11 * m22 / det) if det > 0 else math.inf)


def judge(case, im, mo):
    tags = ['nb=%d' % len(case['wav']), 'nm=%d' % len(case['names']), 'avr=%s' % ('point' if case['av_range'][0] == case['av_range'][1] else 'range')]
    m = mo[0]
    if isinstance(m, tuple):
        return dict(disagree=['driver %r' % (m,)], fail=[], nontrivial=False)
    bands, ks, cond = conditioning(case)
    if cond > 1e8:
        return dict(disagree=[], fail=[], nontrivial=False, tags=tags + ['singular-skipped'])
    if 'exc' in im:
        return dict(disagree=['implementation raised ' + im['msg']], fail=['raised: Fitter/fit raised %s' % im['msg']], nontrivial=False, tags=tags)
    det, alaw, res = m
    lo, hi = F(case['av_range'][0]), F(case['av_range'][1])
    rt = 1e-10 * max(cond, 1.0)
    disagree, fail = [], []
    # extinction pattern
    for j, (a, b) in enumerate(zip(im['av_law'], alaw)):
        if not close(a, b, rt, 1e-14):
            disagree.append('av_law[%d]: implementation %r model %r' % (j, a, float(b)))
        if not close(a, ks[j], 1e-10, 1e-14):
            fail.append('law: extinction coefficient of band %d is %r, -0.4 chi/chi_V gives %r' % (j, a, float(ks[j])))
    if any(s != -2.0 for s in im['sc_law']):
        fail.append('scalepattern: scale pattern is not -2')
    nclamp = 0
    for i, mid in enumerate(im['model_id']):
        name = im['model_name'][i]
        if name != case['names'][mid]:
            fail.append('row: row %d names %s but carries index %d' % (i, name, mid))
            continue
        if any(x == 0 for x in case['flux'][mid]):
            continue      # a model without flux in some band: log flux -inf, outside C01's quantifier (C04 judges its place in the ranking)
        r = res[mid]
        av_m, sc_m, chi_m, pred_m = r
        av_i, sc_i, chi_i = F(im['av'][i]), F(im['sc'][i]), im['chi2'][i]
        lms = [F(float(__import__('numpy').log10(x))) for x in case['flux'][mid]]
        if av_m == lo or av_m == hi:
            nclamp += 1
        # ---- correspondence
        if not close(av_i, av_m, rt, rt):
            disagree.append('av of %s: implementation %r model %r' % (name, float(av_i), float(av_m)))
        if not close(sc_i, sc_m, rt, rt):
            disagree.append('sc of %s: implementation %r model %r' % (name, float(sc_i), float(sc_m)))
        ptot, pinf, margin = fitcase.penalties(bands, ks, lms, av_m, sc_m)
        tie = margin is not None and margin < Fraction(1, 10 ** 8)
        if not tie:
            ci, cm = fitcase.canon_chi(chi_i), fitcase.canon_chi(chi_m)
            if (ci == 'HUGE') != (cm == 'HUGE') or (ci != 'HUGE' and not close(ci, cm, 1e-7 * max(1.0, cond ** 0.5), 1e-9)):
                disagree.append('chi2 of %s: implementation %r model %r' % (name, chi_i, float(chi_m) if cm != 'HUGE' else 'HUGE'))
        for j, (a, b) in enumerate(zip(im['model_fluxes'][i], pred_m)):
            if not close(a, b, rt, rt * 10):
                disagree.append('predicted flux %d of %s: %r vs %r' % (j, name, a, float(b)))
                break
        # ---- property oracle on the implementation's own numbers
        eps = F(1e-9)
        if not (lo - eps <= av_i <= hi + eps):
            fail.append('range: A_V %r of %s outside [%r, %r]' % (float(av_i), name, float(lo), float(hi)))
        s_impl = fitcase.objective(bands, ks, lms, av_i, sc_i)
        s_min = fitcase.objective(bands, ks, lms, av_m, sc_m)
        if s_impl > s_min + F(1e-7) * (1 + s_min):
            fail.append('optimum: (A_V, scale) of %s gives S=%r, the constrained minimum is %r' % (name, float(s_impl), float(s_min)))
        ptot_i, pinf_i, margin_i = fitcase.penalties(bands, ks, lms, av_i, sc_i)
        if not (margin_i is not None and margin_i < Fraction(1, 10 ** 8)):
            want = 'HUGE' if pinf_i else float(s_impl + ptot_i)
            ci = fitcase.canon_chi(chi_i)
            if (ci == 'HUGE') != (want == 'HUGE') or (ci != 'HUGE' and not close(ci, F(want), 1e-7, 1e-9)):
                fail.append('chi2: chi2 of %s is %r, S + penalties at the reported (A_V, scale) is %r' % (name, chi_i, want))
    tags.append('clamped=%s' % ('some' if nclamp else 'none'))
    return dict(disagree=disagree[:5], fail=fail[:5], nontrivial=True, tags=tags)
