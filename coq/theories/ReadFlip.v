(* SED/cube reading in the other spectral order: an involution that keeps wavelength/value pairing. *)
From Coq Require Import List ZArith.
Import ListNotations.
From SedV Require Import SedIO SedIOM.

(* asking for the other spectral order twice gives back the arrays as stored *)
Theorem read_flip_twice (V : Type) (f : list Z * list V) : read V true (read V true f) = f.
Proof.
  rewrite (proj1 (other_order_reverses V (read V true f))), (proj1 (other_order_reverses V f)). cbn [fst snd].
  rewrite !rev_involutive. destruct f; reflexivity.
Qed.

(* the other order keeps the pairing: cell i of one order is cell n-1-i of the other, for wavelengths and values together *)
Theorem read_flip_cells (V : Type) (f : list Z * list V) : length (fst f) = length (snd f) ->
  combine (fst (read V true f)) (snd (read V true f)) = rev (combine (fst f) (snd f)).
Proof.
  intros L. rewrite (proj1 (other_order_reverses V f)). cbn [fst snd]. destruct f as [w v]. cbn [fst snd] in *.
  revert v L. induction w as [|x w IH]; intros [|y v] L; try discriminate; [reflexivity|].
  cbn [rev combine]. cbn [length] in L. injection L as L.
  rewrite <- (IH v L). clear IH.
  assert (G : forall (a : list Z) (b : list V) x y, length a = length b -> combine (a ++ [x]) (b ++ [y]) = combine a b ++ [(x, y)]).
  { induction a as [|p a IHa]; intros [|q b] x0 y0 Lab; try discriminate; [reflexivity|]. cbn [app combine]. f_equal. apply IHa. now injection Lab. }
  apply G. now rewrite !rev_length.
Qed.
