"""
C17 - plot() raises TypeError for every fit made from a cube (version 2)
package whose flux.fits has no UNCERTAINTIES extension.

The extension is optional (SEDCube(unc=None) is the default constructor state,
SEDCube.write leaves it out, SEDCube.read and SEDCube.get_sed accept its
absence), and neither the fit nor the plotted curves use the model
uncertainties.  But plot() calls

    s = s.scale_to_distance(10. ** info.sc[i] * KPC)
    s = s.scale_to_av(info.av[i], ...)

and SED.scale_to_distance / scale_to_av do `sed.error = sed.error * (...)` with
sed.error = None -> TypeError.  No curve is drawn for any display mode.

The fit is made in bands whose wavelengths are tabulated wavelengths of the
cube (convolved files centred on them; giving the wavelengths themselves to
Fitter is refused for such a cube as well, see C01_2.py).  The control package,
identical but with an UNCERTAINTIES extension, is plotted and its curves pass
through the stored predictions.
"""
import os
import io
import sys
import tempfile
import contextlib

import numpy as np
import matplotlib
matplotlib.use('Agg')
from astropy import units as u
from astropy.table import Table

from sedfitter.sed import SEDCube
from sedfitter.convolved_fluxes import ConvolvedFluxes
from sedfitter.extinction import Extinction
from sedfitter.fit import Fitter
from sedfitter.source import Source
from sedfitter import plot


def quiet(fn, *a, **k):
    with contextlib.redirect_stdout(io.StringIO()):
        return fn(*a, **k)


BANDS = (4, 10, 16)


def make_package(with_unc):
    rng = np.random.default_rng(1)
    d = tempfile.mkdtemp()
    cube = SEDCube()
    cube.names = np.array(['m%03d' % i for i in range(4)])
    cube.distance = 1 * u.kpc
    cube.wav = np.logspace(-0.5, 2, 20) * u.micron
    cube.apertures = None
    cube.val = rng.uniform(1, 2, (4, 1, 20)) * u.mJy
    if with_unc:
        cube.unc = cube.val * 0.01
    cube.write(d + '/flux.fits')
    os.mkdir(d + '/convolved')
    for j, i in enumerate(BANDS):
        c = ConvolvedFluxes()
        c.central_wavelength = cube.wav[i]
        c.model_names = cube.names
        c.apertures = None
        c.flux = cube.val[:, :, i]
        c.error = c.flux * 0.01
        c.write(d + '/convolved/B%d.fits' % j)
    with open(d + '/models.conf', 'w') as f:
        f.write("name = test\nlength_subdir = 0\naperture_dependent = no\n"
                "logd_step = 0.02\nversion = 2\n")
    t = Table()
    t['MODEL_NAME'] = np.array(cube.names, dtype='S30')
    t['par1'] = np.arange(4) * 1.
    t.write(d + '/parameters.fits')
    return d, cube


ext = Extinction()
ext.wav = np.logspace(-2, 3, 60) * u.micron
ext.chi = ext.wav.value ** -1.5 * u.cm ** 2 / u.g

s = Source()
s.name = 'src'
s.x = 0.
s.y = 0.
s.valid = [1, 1, 1]
s.flux = [1., 2., 3.]
s.error = [0.1, 0.2, 0.3]

outcome = {}
for with_unc in (True, False):
    d, cube = make_package(with_unc)
    fitter = quiet(Fitter, ['B0', 'B1', 'B2'], [1., 1., 1.] * u.arcsec, d,
                   extinction_law=ext, av_range=(0., 10.), use_memmap=False)
    info = quiet(fitter.fit, s)
    wav = np.array([cube.wav[i].to(u.micron).value for i in BANDS])
    res = []
    for sed_type in ('interp', 'largest', 'largest+smallest', 'all'):
        try:
            figs = quiet(plot, info, select_format=('N', 3), sed_type=sed_type)
            segs = figs['src']['lines'].get_segments()
            per = 2 if sed_type == 'largest+smallest' else 1
            assert len(segs) == 3 * per, "wrong number of curves"
            best = segs[-1]
            pred = 10. ** info.model_fluxes[0] * 1.e-26 * 2.99792458e14 / wav   # erg/cm2/s
            drawn = np.array([best[np.argmin(np.abs(best[:, 0] - w_)), 1] for w_ in wav])
            assert np.all(np.abs(drawn / pred - 1.) < 1.e-3), "curve misses the predictions"
            res.append("%s: %d curves through the predictions" % (sed_type, len(segs)))
        except Exception as e:
            res.append("%s: %s: %s" % (sed_type, type(e).__name__, e))
    outcome[with_unc] = res
    print("cube with UNCERTAINTIES" if with_unc else "cube without UNCERTAINTIES")
    for r in res:
        print("   ", r)

assert all('through the predictions' in r for r in outcome[True]), "unexpected: control package fails: %r" % outcome[True]
bad = [r for r in outcome[False] if 'through the predictions' not in r]
assert not bad, (
    "C17 violated (clause: for every selected fit plot() draws the model SED through the stored predictions; "
    "the number of curves is fits x apertures): fit results from a cube package whose flux.fits has no "
    "(optional) UNCERTAINTIES extension, 3 selected fits, results passed as object: " + " | ".join(bad))
print("no violation")
