"""
Not a C10/C19 violation - an aside found while comparing fit() with the object
interface.  For cube packages (models.conf version = 2) read with the default
use_memmap=True (the only mode reachable from fit()), remove_resolved=True is
silently ignored: Models.fit tests `type(self.extended) == np.ndarray`, but
the array is a np.memmap, so the "remove extended models" branch never runs.
"""
import os, sys, tempfile
sys.path.insert(0, os.path.dirname(os.path.abspath(__file__)))
from common import *
from sedfitter import Fitter
from sedfitter.source import Source

md = tempfile.mkdtemp(); build(md, 2, True, n=6)
kw = dict(extinction_law=extlaw(), distance_range=[1., 2.] * u.kpc, av_range=[0., 0.1])
aps = [1., 3., 3.] * u.arcsec
s = Source.from_ascii("s1 0.0 0.0 1 1 1 0.2 0.1 1.3 0.2 1.5 0.3")
chi = {}
for mm in (True, False):
    for rr in (True, False):
        f = quiet(Fitter, ['bob', 'alice', 'eve'], aps, md, remove_resolved=rr, use_memmap=mm, **kw)
        chi[mm, rr] = np.sort(f.fit(s).chi2)
        if rr:
            assert np.sum(f.models.extended) > 0   # some (model, distance, filter) entries are resolved
assert not np.allclose(chi[False, True], chi[False, False], rtol=1e-4), "test is vacuous"
assert not np.allclose(chi[True, True], chi[True, False], rtol=1e-4), (
    "remove_resolved=True has no effect with use_memmap=True (default): chi2 %r equals the "
    "remove_resolved=False result, whereas with use_memmap=False it gives %r" % (chi[True, True], chi[False, True]))
print("no violation")
