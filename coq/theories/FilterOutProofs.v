(* filter_output: counts, the no-threshold case, the "or" of both criteria, identifier disjointness of the two files. *)
From Coq Require Import QArith Lqa Lia List Bool Permutation ZArith.
Import ListNotations.
From SedV Require Import Xnum Misc FilterOut.
Open Scope Q_scope.

(* nothing is lost or invented: the two files together hold as many records as the input *)
Theorem fo_counts chi cpd recs :
  let '(g, b) := filter_output_m chi cpd recs in (length g + length b = length recs)%nat.
Proof.
  pose proof (C18_partition_lemma chi cpd recs) as H. destruct (filter_output_m chi cpd recs) as [g b].
  destruct H as (_ & _ & P). apply Permutation_length in P. rewrite app_length in P. exact P.
Qed.

(* without a usable threshold (None or 0 for both) every record goes to the bad file *)
Theorem fo_no_threshold chi cpd recs : thr_on chi = false -> thr_on cpd = false ->
  filter_output_m chi cpd recs = ([], recs).
Proof.
  intros H1 H2. pose proof (C18_partition_lemma chi cpd recs) as H. destruct (filter_output_m chi cpd recs) as [g b].
  destruct H as (Hg & Hb & _). subst.
  assert (E : forall r, good_m chi cpd r = false) by (intros r; unfold good_m; rewrite H1, H2; reflexivity).
  f_equal; induction recs as [|r l IH]; try reflexivity; cbn [filter]; rewrite E; cbn [negb]; [exact IH|f_equal; exact IH].
Qed.

(* with both thresholds the criteria are joined by "or" *)
Theorem fo_both chi cpd r :
  good_m chi cpd r = good_m chi None r || good_m None cpd r.
Proof. unfold good_m. cbn [thr_on andb orb]. rewrite orb_false_r. reflexivity. Qed.

(* sources with distinct identifiers: no identifier appears in both files, and each file has distinct identifiers *)
Theorem fo_ids_disjoint chi cpd recs : NoDup (map fr_id recs) ->
  let '(g, b) := filter_output_m chi cpd recs in
  NoDup (map fr_id g) /\ NoDup (map fr_id b) /\ forall i, In i (map fr_id g) -> ~ In i (map fr_id b).
Proof.
  intros Hnd. pose proof (C18_partition_lemma chi cpd recs) as H. destruct (filter_output_m chi cpd recs) as [g b].
  destruct H as (_ & _ & P).
  assert (P2 : Permutation (map fr_id g ++ map fr_id b) (map fr_id recs)) by (rewrite <- map_app; apply Permutation_map; exact P).
  apply Permutation_sym in P2. pose proof (Permutation_NoDup P2 Hnd) as N. clear - N.
  induction (map fr_id g) as [|x l IH]; cbn [app] in N.
  - split; [constructor|]. split; [exact N|]. intros i [].
  - inversion N as [|? ? Hx Hl]; subst. destruct (IH Hl) as (A & B & C). split; [|split; [exact B|]].
    + constructor; [|exact A]. intros Hin. apply Hx. apply in_app_iff. left. exact Hin.
    + intros i [E|Hi]; [subst; intros Hb; apply Hx; apply in_app_iff; right; exact Hb|apply C; exact Hi].
Qed.
