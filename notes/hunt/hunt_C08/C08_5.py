"""C08 (tolerance-dependent, "any relative photometric error"): Source.get_log_fluxes()
subtracts a de-biasing term 0.5*(err/flux)^2/ln(10) from log10(flux) for valid=1 points.
For exact synthetic photometry this is a systematic offset that grows with the quoted
relative error:
 * aperture-independent packages absorb it into the scale: scale = planted + 0.109*e^2 dex
 * distance-dependent packages cannot absorb it: the best distance moves off the planted
   grid point d0 (by several grid steps for e = 0.5), chi^2 is no longer ~0 relative to
   its e->0 value, and A_V moves if the relative errors differ between bands.
With 50% errors (S/N = 2) the reported scale is 0.027 dex off (aperture-independent) and the
reported distance is a different grid distance (distance-dependent).
"""
import os, io, tempfile, contextlib
import numpy as np
from astropy import units as u
from astropy.table import Table
from sedfitter.sed import SED
from sedfitter.filter import Filter
from sedfitter.extinction import Extinction
from sedfitter.convolve import convolve_model_dir
from sedfitter.convolved_fluxes import ConvolvedFluxes
from sedfitter.source import Source
from sedfitter.fit import Fitter
from sedfitter import write_parameters


def quiet(fn, *a, **k):
    with contextlib.redirect_stdout(io.StringIO()), contextlib.redirect_stderr(io.StringIO()):
        return fn(*a, **k)


names = ['m_b', 'm_a', 'm_10', 'm_9', 'm_c', 'M_d']
planted, av0 = 'm_10', 3.3
filters = []
frng = np.random.RandomState(1)
for name, lo, hi, cw in [('alice', 1., 5., 3.), ('bob', 10., 15., 12.), ('eve', 15., 25., 20.), ('dan', 40., 60., 50.)]:
    f = Filter()
    f.name = name
    f.central_wavelength = cw * u.micron
    f.nu = (np.linspace(hi, lo, 60) * u.micron).to(u.Hz, equivalencies=u.spectral())
    f.response = 0.5 + frng.random_sample(60)
    f.normalize()
    filters.append(f)
ext = Extinction()
ext.wav = np.logspace(-2., 3., 50) * u.micron
ext.chi = ext.wav.value ** -1.5 * u.cm ** 2 / u.g
fn = ['bob', 'alice', 'eve', 'dan']
aps = [3., 3., 3., 3.] * u.arcsec
av_law = np.asarray(ext.get_av(u.Quantity([12., 3., 20., 50.], u.micron)))

problems = []
for apdep in (False, True):
    d = tempfile.mkdtemp()
    rng = np.random.RandomState(0)
    os.mkdir(d + '/seds')
    for name in names:
        s = SED()
        s.name = name
        s.distance = 1 * u.kpc
        s.wav = np.logspace(-1, 3, 80) * u.micron
        s.nu = s.wav.to(u.Hz, equivalencies=u.spectral())
        base = (1 + rng.random_sample(80)) * s.wav.value ** rng.uniform(-1, 1)
        if apdep:
            # point-like: same flux in every aperture, so flux(d) = F * (1 kpc / d)^2 exactly
            s.apertures = np.logspace(1, 6, 6) * u.au
            s.flux = np.repeat(base[None, :], 6, axis=0) * u.mJy
        else:
            s.apertures = None
            s.flux = base[None, :] * u.mJy
        s.error = s.flux * 0.01
        s.write(d + '/seds/' + name + '_sed.fits')
    with open(d + '/models.conf', 'w') as f:
        f.write("name = test\nlength_subdir = 0\naperture_dependent = %s\nlogd_step = 0.02\n" % ('yes' if apdep else 'no'))
    t = Table()
    t['MODEL_NAME'] = np.array(names)
    t['par1'] = np.arange(6.) + 1
    t[[3, 0, 5, 1, 4, 2]].write(d + '/parameters.fits')
    quiet(convolve_model_dir, d, filters)
    fitter = quiet(Fitter, fn, aps, d, extinction_law=ext, av_range=[0., 10.], distance_range=[1., 10.] * u.kpc)
    if apdep:
        logd0 = fitter.models.logd[20]     # a distance of the fitter's own grid
    else:
        logd0 = 0.4                        # planted scale
    f0 = []
    for name in fn:
        c = ConvolvedFluxes.read(d + '/convolved/' + name + '.fits')
        i = list(np.char.strip(c.model_names)).index(planted)
        f0.append(c.flux[i, 0].to(u.mJy).value)
    flux = np.array(f0) * 10 ** (-2 * logd0) * 10 ** (av0 * av_law)
    for rel in (0.01, 0.5):
        src = Source()
        src.name = 'src'
        src.x = src.y = 0.
        src.valid = [1, 1, 1, 1]
        src.flux = flux
        src.error = flux * rel
        info = fitter.fit(src)
        out = os.path.join(d, 'pars.txt')
        write_parameters(info, out, select_format=('N', 1))
        row = open(out).read().split('\n')[4].split()
        print('distance-dependent' if apdep else 'aperture-independent', 'rel.err', rel, 'planted scale %.4f' % logd0, '->', row)
        if not (row[1] == planted and abs(float(row[4]) - logd0) < 0.01 and abs(float(row[3]) - av0) < 0.05):
            problems.append("%s package, relative error %g: planted scale/log10 d0 = %.3f and A_V0 = 3.3 but reported scale = %s (chi2 %s, A_V %s)"
                            % ('distance-dependent' if apdep else 'aperture-independent', rel, logd0, row[4], row[2], row[3]))

assert not problems, ("C08 violated (clauses 'A_V ~ A_V0' and 'scale ~ log10 d0 (or the planted scale)' for 'any relative photometric error'): "
                      + " | ".join(problems))
print('OK')
