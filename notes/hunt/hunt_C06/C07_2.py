"""
C07 - "the row labelled X holds, per aperture, the flux and error computed from SED X"
      and "a per-file package and a cube package built from the same SEDs produce the
      same fluxes".

SED.read() (used by _convolve_model_dir_1) fetches the DATA of HDU 3 by column name
(TOTAL_FLUX, TOTAL_FLUX_ERR) but the UNITS by position (columns[0], columns[1]).
docs/creating_model_packages.rst says of HDU 3: "a binary table with at least one
column ... STELLAR_FLUX, DISK_FLUX ... The order of the columns is not important".
A per-file SED whose HDU 3 is (STELLAR_FLUX [ergs/cm^2/s], TOTAL_FLUX [mJy],
TOTAL_FLUX_ERR [mJy]) is therefore a legal package member, but its TOTAL_FLUX is
interpreted in ergs/cm^2/s and silently mis-converted: the convolved flux is wrong by
~14 orders of magnitude, and differs from the cube package built from the same SEDs.
"""
import os
import tempfile

import numpy as np
from astropy import units as u
from astropy.io import fits
from astropy.table import Table

from sedfitter.filter import Filter
from sedfitter.sed import SED, SEDCube
from sedfitter.convolve import convolve_model_dir
from sedfitter.convolved_fluxes import ConvolvedFluxes


def conf(d, version):
    with open(os.path.join(d, 'models.conf'), 'w') as f:
        f.write("name = test\nlength_subdir = 0\naperture_dependent = yes\nlogd_step = 0.02\n")
        if version == 2:
            f.write("version = 2\n")


def pars(d, names):
    t = Table()
    t['MODEL_NAME'] = np.array(names, dtype='S30')
    t['par1'] = np.arange(len(names), dtype=float)
    t.write(os.path.join(d, 'parameters.fits'))


names = ['m_a', 'm_b', 'm_c']
wav = np.logspace(-1., 3., 30) * u.micron
nu = wav.to(u.Hz, equivalencies=u.spectral())
ap = np.array([100., 1000.]) * u.au
c = np.array([1., 2., 5.])                       # flat spectra F_nu = c mJy
F = np.ones((3, 2, 30)) * c[:, None, None]
E = 0.1 * F

fw = np.linspace(1., 3., 12) * u.micron
filt = Filter(name='F', central_wavelength=2. * u.micron,
              nu=fw.to(u.Hz, equivalencies=u.spectral()), response=np.ones(12))
filt.normalize()

# per-file package; HDU 3 gets an additional leading STELLAR_FLUX column
d1 = tempfile.mkdtemp()
os.mkdir(os.path.join(d1, 'seds'))
tmp = tempfile.mkdtemp()
for i, n in enumerate(names):
    s = SED()
    s.name = n
    s.distance = 1 * u.kpc
    s.wav = wav
    s.nu = nu
    s.apertures = ap
    s.flux = F[i] * u.mJy
    s.error = E[i] * u.mJy
    plain = os.path.join(tmp, n + '.fits')
    s.write(plain)
    h = fits.open(plain)
    t = Table()
    t['STELLAR_FLUX'] = np.full((2, 30), 1e-12)
    t['TOTAL_FLUX'] = h[3].data['TOTAL_FLUX']
    t['TOTAL_FLUX_ERR'] = h[3].data['TOTAL_FLUX_ERR']
    h3 = fits.BinTableHDU(np.array(t))
    h3.columns[0].unit = 'ergs/cm^2/s'
    h3.columns[1].unit = 'mJy'
    h3.columns[2].unit = 'mJy'
    h3.header['EXTNAME'] = 'SEDS'
    fits.HDUList([h[0], h[1], h[2], h3]).writeto(os.path.join(d1, 'seds', n + '_sed.fits'))
conf(d1, 1)
pars(d1, names)
convolve_model_dir(d1, [filt])
c1 = ConvolvedFluxes.read(os.path.join(d1, 'convolved', 'F.fits'))

# cube package from the same SEDs
d2 = tempfile.mkdtemp()
cube = SEDCube()
cube.names = np.array(names)
cube.distance = 1 * u.kpc
cube.wav = wav
cube.apertures = ap
cube.val = F * u.mJy
cube.unc = E * u.mJy
cube.write(os.path.join(d2, 'flux.fits'))
conf(d2, 2)
pars(d2, names)
convolve_model_dir(d2, [filt])
c2 = ConvolvedFluxes.read(os.path.join(d2, 'convolved', 'F.fits'))

print()
print("expected (flat spectrum, normalised filter):", c, "mJy")
print("cube package    :", c2.flux[:, 0])
print("per-file package:", c1.flux[:, 0])

assert np.allclose(c2.flux[:, 0].value, c, rtol=1e-12), "cube package wrong"
assert np.allclose(c1.flux[:, 0].value, c, rtol=1e-12), (
    "C07 fails for a per-file package whose SED files carry TOTAL_FLUX as the second column "
    "of HDU 3 (after STELLAR_FLUX in ergs/cm^2/s; the docs say the column order is not "
    "important): rows %s hold %s mJy instead of %s mJy (cube package from the same SEDs: %s). "
    "SED.read takes the data by column name but the unit from columns[0]."
    % (list(c1.model_names), c1.flux[:, 0].value, c, c2.flux[:, 0].value))
print("no violation")
