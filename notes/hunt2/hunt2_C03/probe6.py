import sys; sys.path.insert(0,'hunt_out')
from harness import *
from sedfitter.sed import SEDCube
from astropy.table import Table
np.seterr(all='ignore')
rng=np.random.RandomState(3)
for apdep in [False,True]:
  for mm in [True,False]:
    d=tempfile.mkdtemp()
    cube=SEDCube(); cube.names=np.array(['x%02d'%i for i in range(6)]); cube.distance=1*u.kpc
    cube.wav=np.logspace(-1,2.5,40)*u.micron
    if apdep:
        cube.apertures=np.logspace(1,6,8)*u.au
        cube.val=np.cumsum(rng.uniform(0.1,3,(6,8,40)),axis=1)*u.Jy
    else:
        cube.apertures=None
        cube.val=rng.uniform(0.5,30,(6,1,40))*u.Jy
    cube.unc=cube.val*0.01
    cube.write(d+'/flux.fits')
    open(d+'/models.conf','w').write("name = t\nlength_subdir = 0\naperture_dependent = %s\nlogd_step = 0.05\nversion = 2\n"%('yes' if apdep else 'no'))
    filt=[0.7*u.micron, 2000*u.nm, 5e-4*u.cm, 30*u.micron]
    F=Fitter(filt,[2.,3.,4.,5.]*u.arcsec,d,extinction_law=ext(),av_range=[0.,5.],distance_range=[300,2000]*u.pc,remove_resolved=apdep,use_memmap=mm)
    def out(s):
        i=F.fit(s); o=np.argsort(i.model_id); return i.av[o],i.sc[o],i.chi2[o],i.model_fluxes[o]
    nbad=0; n=4
    for flags in itertools.product([0,1,2,3,4,9],repeat=n):
        flags=np.array(flags); fit=(flags==1)|(flags==4)
        if fit.sum()<(1 if apdep else 2): continue
        flux=rng.uniform(500,40000,n); err=flux*rng.uniform(0.02,0.3,n)
        lim=(flags==2)|(flags==3); err[lim]=rng.choice([0,0.3,0.9,1.0],lim.sum())
        f4=flags==4
        lf=np.log10(flux)-0.5*(err/flux)**2/np.log(10); le=np.abs(err/flux)/np.log(10)
        fl=flux.copy(); er=err.copy(); fl[f4]=lf[f4]; er[f4]=le[f4]
        base=out(src(flags,fl,er))
        un=(flags==0)|(flags==9)
        fl2=fl.copy(); er2=er.copy(); fl2[un]=np.nan; er2[un]=-3
        if not all(np.array_equal(a,b,equal_nan=True) for a,b in zip(base,out(src(flags,fl2,er2)))): nbad+=1; print('JUNK',flags)
        fl3=fl.copy(); er3=er.copy(); flags3=flags.copy(); f1=flags==1
        fl3[f1]=lf[f1]; er3[f1]=le[f1]; flags3[f1]=4
        if not all(np.array_equal(a,b,equal_nan=True) for a,b in zip(base,out(src(flags3,fl3,er3)))): nbad+=1; print('F4',flags)
        if lim.any():
            er4=er.copy(); er4[lim]=0; flags4=flags.copy(); flags4[lim]=0
            if not all(np.array_equal(a,b,equal_nan=True) for a,b in zip(out(src(flags,fl,er4)),out(src(flags4,fl,er4)))): nbad+=1; print('C0',flags)
        av,sc,chi2,mf=base
        w=np.zeros(n); w[fit]=1/le[fit]**2
        logdata=np.where(fit,lf,np.log10(flux))
        exp=np.sum(((logdata-mf)**2*w)[:,fit],axis=1)
        for j in np.where(lim)[0]:
            viol=(mf[:,j]<logdata[j]) if flags[j]==2 else (mf[:,j]>logdata[j])
            pen=-2*np.log(1-err[j]) if err[j]<1 else 1e30
            exp=exp+np.where(viol,pen,0)
        ok=np.isclose(chi2,exp,rtol=1e-9,atol=1e-9)|np.isinf(chi2)
        if not ok.all(): nbad+=1; print('LIM',flags,chi2,exp)
    print('done',apdep,mm,nbad, 'finite', np.isfinite(base[2]).sum())
