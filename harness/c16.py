"""C16 — convolve_model_dir_monochromatic for every chunk size and window against MonoM.mono_m; nearest-wavelength slice of
cube packages against MonoM.nearest_m."""
import math
import os
import shutil
import tempfile

from common import Rng, F
import pkgcase
import fitcase

PROP = 'C16'
MODEL_OPS = 'MonoM.mono_m (Window.jlo/jhi, Mono.emit_fixed), MonoM.nearest_m'
RULE = ('per-file packages with 2-9 wavelengths, 1-3 apertures, 1-5 models (permuted parameter table, per-SED spectral order); for each package EVERY memory limit giving '
        'chunk sizes 1..n_wav crossed with EVERY window whose ends are tabulated wavelengths, midpoints between them or beyond the ends (non-empty windows; the default '
        'unbounded window included) - exhaustive for n_wav <= 4 (quick) / <= 6 (thorough), sampled to 9; cube packages fitted at requested wavelengths on, between and '
        'beyond tabulated ones. evaluations = runs of convolve_model_dir_monochromatic + wavelength requests; non-trivial = chunk size < number of wavelengths in the window.')
EXHAUSTIVE = {'quick': True, 'thorough': True}
ASSUMPTIONS = ['either reading of "inside the window" at its ends is accepted (the code includes wav_min and excludes wav_max); a window that holds a wavelength only at its upper end must still be processed without error',
               'windows that are empty even as closed intervals are outside the quantifier; requested wavelengths equidistant from two tabulated ones are not compared']


def _pkg(rng, nw):
    pkg = pkgcase.gen_package(rng, nm=rng.randint(1, 5), nap=rng.randint(1, 3), nw=nw, nfilt=1)
    wav = sorted(set(rng.dyadic(0.5, 60.0, 8) for _ in range(nw * 3)))[:nw]
    while len(wav) < nw:
        wav.append(wav[-1] * 2)
    pkg['wav'] = wav
    if rng.random() < 0.5:
        pkg['wav_dtype'] = 'float32'       # (every wavelength drawn here is a single-precision number)
        if rng.random() < 0.5:
            # the WAVELENGTH column of the files in Angstrom, whole multiples of 100 Angstrom (single-precision numbers); in micron these
            # wavelengths (0.6, 1.2, ...) are not single-precision numbers
            pkg['wav_file_unit'] = 'Angstrom'
            ks = sorted(set(rng.randint(30, 3000) for _ in range(nw * 3)))[:nw]
            if len(ks) == nw:
                pkg['wav'] = [k / 100.0 for k in ks]
    pkg['nu'] = pkg['nu'][:nw] if len(pkg['nu']) >= nw else pkg['nu']
    for n in pkg['names']:   # flux rows must have nw entries
        sd = pkg['seds'][n]
        sd['flux'] = [[rng.logdyadic(0.01, 100.0, 10) for _ in range(nw)] for _ in sd['flux']]
        sd['err'] = [[x * rng.dyadic(0.01, 0.2, 6) for x in row] for row in sd['flux']]
    return pkg


def _windows(wav):
    cands = [wav[0] / 2] + sorted(set(wav + [(a + b) / 2 for a, b in zip(wav, wav[1:])])) + [wav[-1] * 2]
    out = [None]
    for i, a in enumerate(cands):
        for b in cands[i:]:
            if any(a <= w <= b for w in wav):       # non-empty as a closed window (incl. [w, w] and windows that only reach a wavelength at their upper end)
                out.append([a, b])
    return out


def generate(tier, seed):
    rng = Rng(seed * 32452843 + 16)
    cases = []
    sizes = [2, 3, 4] if tier == 'quick' else [2, 3, 4, 5, 6]
    for nw in sizes:
        for rep in range(1 if tier == 'quick' else 2):
            pkg = _pkg(rng, nw)
            runs = [[c, w] for c in range(1, nw + 1) for w in _windows(pkg['wav'])]
            # split into pieces so that the worker pool stays busy
            for i in range(0, len(runs), 24):
                cases.append(dict(kind='mono', pkg=pkg, runs=runs[i:i + 24]))
    for nw in ([7, 9] if tier == 'quick' else [7, 8, 9, 9]):
        pkg = _pkg(rng, nw)
        ws = _windows(pkg['wav'])
        runs = [[rng.randint(1, nw), rng.choice(ws)] for _ in range(16)]
        cases.append(dict(kind='mono', pkg=pkg, runs=runs))
    for k in range(6 if tier == 'quick' else 40):
        pkg = _pkg(rng, rng.randint(2, 9))
        wav = pkg['wav']
        reqs = [w for w in wav] + [(a * 3 + b) / 4 for a, b in zip(wav, wav[1:])] + [wav[0] / 3, wav[-1] * 3]
        pkg['flux_unit'] = ['mJy', 'Jy', 'erg / (cm2 s)', 'mJy', 'erg / s'][len(cases) % 5]       # the unit the cube is stored in
        cases.append(dict(kind='cube', pkg=pkg, requests=reqs))
    return cases


def _max_ram(chunk, nm, nap):
    return (chunk + 0.5) * 8.0 * nm * nap / 1024. ** 3


def impl(case):
    import numpy as np
    from astropy import units as u
    pkg = case['pkg']
    nm, nap = len(pkg['names']), (1 if pkg['aps'] is None else len(pkg['aps']))
    if case['kind'] == 'cube':
        from sedfitter.models import Models
        out = []
        with tempfile.TemporaryDirectory() as d:
            pkgcase.write_v2(d, pkg)
            for w in case['requests']:
                theta = 3.0 if pkg['aps'] is None else pkg['aps'][1] / 1000.0      # the second tabulated aperture at 1 kpc
                filters = [{'aperture_arcsec': theta, 'wav': w * u.micron}]
                m = Models.read(d, filters, distance_range=None if pkg['aps'] is None else np.array([1.0, 1.0]) * u.kpc, use_memmap=False)
                fl = np.asarray(m.fluxes.to(u.mJy).value)
                out.append([float(x) for x in (fl[:, 0] if fl.ndim == 2 else fl[:, 0, 0])])
        return dict(fluxes=out)
    from sedfitter.convolve import convolve_model_dir_monochromatic
    res = []
    with tempfile.TemporaryDirectory() as d:
        pkgcase.write_v1(d, pkg)
        for chunk, win in case['runs']:
            cd = os.path.join(d, 'convolved')
            if os.path.exists(cd):
                shutil.rmtree(cd)
            def _q(x, k):
                # the window ends are quantities: written in micron, nm, mm, m or Angstrom (the same length, whether or not the number
                # survives the conversion back to micron exactly)
                un = [u.micron, u.nm, u.mm, u.m, u.AA, u.micron][k % 6]
                q = (x * u.micron).to(un)
                if k % 3 != 0 and abs(float(np.float32(q.value)) - q.value) <= 1e-13 * abs(q.value):
                    # the same number held in single precision (e.g. taken from the wavelength column of a file): exactly the same length
                    q = u.Quantity(np.float32(q.value), un, dtype=np.float32)
                return q
            ri = len(res)
            kw = {} if win is None else dict(wav_min=_q(win[0], ri), wav_max=_q(win[1], ri // 2 + 1))
            files_um = None
            try:
                if win is not None and (kw['wav_min'].unit != u.micron or kw['wav_max'].unit != u.micron):
                    # the same window written in micron: the set of files must not depend on the unit the window is written in
                    convolve_model_dir_monochromatic(d, max_ram=(np.inf if chunk == len(pkg['wav']) and ri % 2 == 0 else _max_ram(chunk, nm, nap)), wav_min=win[0] * u.micron, wav_max=win[1] * u.micron)
                    files_um = sorted(f[:-5] for f in os.listdir(cd))
                    shutil.rmtree(cd)
                t = convolve_model_dir_monochromatic(d, max_ram=(np.inf if chunk == len(pkg['wav']) and ri % 2 == 0 else _max_ram(chunk, nm, nap)), **kw)
            except Exception as e:
                res.append(dict(exc='%s: %s' % (type(e).__name__, str(e)[:120])))
                continue
            files = sorted(f[:-5] for f in os.listdir(cd))
            if files_um is not None and files_um != files:
                res.append(dict(unit_dep=dict(units=[str(kw['wav_min'].unit), str(kw['wav_max'].unit)], files=files, files_micron=files_um)))
                continue
            content = {f: pkgcase.read_convolved(d, f) for f in files}
            res.append(dict(files=files, content=content, table=[(x.decode() if isinstance(x, bytes) else str(x)).strip() for x in t['filter']],
                            table_wav=[float(x) for x in t['wav'].to(u.micron).value]))
    return dict(runs=res)


def model_requests(case):
    pkg = case['pkg']
    wavs = [F(w) for w in reversed(pkg['wav'])]     # decreasing, as first_sed.wav (order='nu')
    if case['kind'] == 'cube':
        cube_wavs = wavs if pkg['cube_order'] == 'incr' else list(reversed(wavs))   # as stored / read with order='nu' -> decreasing wavelength
        return [('nearest', [wavs, F(w)]) for w in case['requests']]
    reqs = []
    for chunk, win in case['runs']:
        lo, hi = (F(pkg['wav'][0]) / 4, F(pkg['wav'][-1]) * 4) if win is None else (F(win[0]), F(win[1]))
        reqs.append(('mono', [wavs, lo, hi, chunk]))
    return reqs


def judge(case, im, mo):
    pkg = case['pkg']
    nw = len(pkg['wav'])
    tags = ['kind=' + case['kind'], 'nw=%d' % nw]
    if 'exc' in im:
        return dict(disagree=['implementation raised ' + im['msg']], fail=['raised: %s' % im['msg']], nontrivial=False, tags=tags + ['raised'])
    if any(isinstance(m, tuple) for m in mo):
        return dict(disagree=['driver %r' % ([m for m in mo if isinstance(m, tuple)][:1],)], fail=[], nontrivial=False)
    disagree, fail = [], []
    dwav = list(reversed(pkg['wav']))                # index j -> wavelength (decreasing)
    if case['kind'] == 'cube':
        for w, got, j in zip(case['requests'], im['fluxes'], mo):
            dist = sorted(abs(x - w) for x in dwav)
            if len(dist) > 1 and abs(dist[1] - dist[0]) < 1e-9 * w:
                continue
            ka = 0 if pkg['aps'] is None else 1
            def mjy(x, idx):          # stored number -> mJy at that wavelength (1 kpc)
                return float(pkgcase.to_mjy(pkg, x, 299792458.0 / (dwav[idx] * 1e-6)))
            want = [mjy(pkg['seds'][n]['flux'][ka][j], j) for n in pkg['par_order']]
            near = min(range(nw), key=lambda i: abs(dwav[i] - w))
            want_doc = [mjy(pkg['seds'][n]['flux'][ka][near], near) for n in pkg['par_order']]
            if any(abs(a - b) > 1e-6 * abs(b) for a, b in zip(got, want)):
                disagree.append('requested %r micron: fluxes %r, model slice %d gives %r' % (w, got, j, want))
            if any(abs(a - b) > 1e-6 * abs(b) for a, b in zip(got, want_doc)):
                fail.append('nearest: requested %r micron: fluxes %r are not the cube slice at the nearest tabulated wavelength %r' % (w, got, dwav[near]))
        return dict(disagree=disagree[:3], fail=fail[:3], nontrivial=True, evals=len(case['requests']), tags=tags)
    nontrivial = False
    for (chunk, win), r, m in zip(case['runs'], im['runs'], mo):
        lo, hi, emitted = m
        what = 'chunk %d window %r' % (chunk, win)
        if 'unit_dep' in r:
            ud = r['unit_dep']
            fail.append('units: %s written in %s / %s gives the files %r, the same window in micron %r' % (what, ud['units'][0], ud['units'][1], ud['files'], ud['files_micron']))
            continue
        if hi < lo:
            # the window holds a wavelength only at its upper end, which the code excludes: no file is required, but the call has to return
            if 'exc' in r:
                fail.append('raised: %s (a window whose only tabulated wavelength is its upper end): %s' % (what, r['exc']))
            elif r['files']:
                a, b = win
                got = sorted(int(f[2:]) - 1 for f in r['files'])
                if not set(got) <= set(j for j in range(nw) if a <= dwav[j] <= b):
                    fail.append('files: %s: files written for wavelength indices %r outside the window' % (what, got))
            continue
        if chunk < hi - lo + 1:
            nontrivial = True
        if 'exc' in r:
            disagree.append('%s: implementation raised %s' % (what, r['exc']))
            fail.append('raised: %s: %s' % (what, r['exc']))
            continue
        got = sorted(int(f[2:]) - 1 for f in r['files'])
        if got != emitted:
            disagree.append('%s: files for indices %r, model %r' % (what, got, emitted))
        a, b = (-math.inf, math.inf) if win is None else win
        must = [j for j in range(nw) if a < dwav[j] < b]
        may = [j for j in range(nw) if a <= dwav[j] <= b]
        if not (set(must) <= set(got) <= set(may)) or len(set(got)) != len(got):
            fail.append('files: %s: files written for wavelength indices %r; wavelengths inside the window are %r (ends: %r)' % (what, got, must, may))
            continue
        # contents
        for j in got:
            c = r['content']['MO%03d' % (j + 1)]
            if c['names'] != pkg['par_order']:
                fail.append('rows: %s: file MO%03d rows %r do not follow the parameter table' % (what, j + 1, c['names']))
                break
            if c['filtwav'] is None or abs(c['filtwav'] - dwav[j]) > 1e-9 * dwav[j]:
                fail.append('wav: %s: file MO%03d has FILTWAV %r, wavelength %d is %r' % (what, j + 1, c['filtwav'], j, dwav[j]))
                break
            bad = False
            for i, n in enumerate(pkg['par_order']):
                sd = pkg['seds'][n]
                wf, we = [row[j] for row in sd['flux']], [row[j] for row in sd['err']]
                if any(abs(x - y) > 1e-9 * abs(y) for x, y in zip(c['flux'][i], wf)) or any(abs(x - y) > 1e-9 * abs(y) + 1e-300 for x, y in zip(c['error'][i], we)):
                    fail.append('cells: %s: file MO%03d row %s holds %r / %r, SED %s has %r / %r at that wavelength' % (what, j + 1, n, c['flux'][i], c['error'][i], n, wf, we))
                    bad = True
                    break
            if bad:
                break
        named = sorted(i for i, x in enumerate(r['table']) if x)
        if named != got or any(r['table'][i] != 'MO%03d' % (i + 1) for i in named):
            fail.append('table: %s: returned table names files for indices %r, files written: %r' % (what, named, got))
    return dict(disagree=disagree[:4], fail=fail[:4], nontrivial=nontrivial, evals=len(case['runs']), tags=tags)


def signature(case, im, mo, v):
    return None
