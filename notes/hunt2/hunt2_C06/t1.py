import os, sys, numpy as np
sys.path.insert(0, os.path.dirname(__file__))
from e2e3 import build
from astropy import units as u
from sedfitter.convolve import convolve_model_dir_monochromatic
rng = np.random.default_rng(0)
d, wav_um, order, seds = build(rng, 5, 1, 2)
print(wav_um)
for kw in [dict(wav_min=0), dict(wav_max=np.inf), dict(wav_min=10.), dict(wav_min=10., wav_max=300.)]:
    try:
        r = convolve_model_dir_monochromatic(d, overwrite=True, **kw)
        print(kw, 'OK', list(r['filter']))
    except Exception as e:
        print(kw, 'FAIL', type(e).__name__, e)
