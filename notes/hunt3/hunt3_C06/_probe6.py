import os, sys, tempfile, shutil
import numpy as np
from astropy import units as u
sys.path.insert(0, os.path.dirname(__file__))
from _lib import *
from sedfitter.convolve import convolve_model_dir_monochromatic
from sedfitter.convolved_fluxes import ConvolvedFluxes
from sedfitter.fit import Fitter
from sedfitter.source import Source
from sedfitter.extinction import Extinction
from sedfitter.sed import SEDCube
ext = Extinction(); ext.wav = np.logspace(-2, 4, 60) * u.micron; ext.chi = ext.wav.value ** -1.5 * u.cm**2 / u.g

rng = np.random.default_rng(7)
bad = 0
for trial in range(15):
    tmp = tempfile.mkdtemp(); d1 = os.path.join(tmp, 'v1'); d2 = os.path.join(tmp, 'v2'); os.mkdir(d1); os.mkdir(d2)
    nm = rng.integers(1, 9); nap = rng.integers(1, 6); nw = rng.integers(3, 30)
    names = ['mod_%d' % i for i in rng.permutation(50)[:nm]]
    nu = np.sort(rng.uniform(1e13, 3e13, nw)); aps = np.sort(np.concatenate([[10.], rng.uniform(100, 1e5, nap - 1)]))
    flux = np.cumsum(rng.uniform(0.1, 10, (nm, nap, nw)), axis=1); err = flux * 0.1
    funit = rng.choice(['mJy', 'ergs/cm^2/s'])
    for k, n in enumerate(names):
        write_sed_raw(os.path.join(d1, 'seds', n + '_sed.fits'), n, nu, flux[k], err[k], aps, reverse=rng.random() < 0.5, flux_unit=funit, gz=rng.random() < 0.3)
    perm = rng.permutation(nm); pnames = [names[i] for i in perm]
    apdep = bool(nap > 1)
    write_conf(d1, 1, apdep); write_params(d1, pnames)
    filt = convolve_model_dir_monochromatic(d1)
    wav = 299792458. / nu * 1e6
    fl = flux if funit == 'mJy' else flux / nu * 1e26
    for j in range(nw):
        c = ConvolvedFluxes.read(os.path.join(d1, 'convolved', 'MO%03d.fits' % (j + 1)))
        # which wavelength?
        w = c.central_wavelength.to(u.micron).value
        jj = np.argmin(np.abs(wav - w))
        ok = abs(wav[jj] - w) < 1e-9 * w and list(np.char.strip(c.model_names)) == pnames and np.allclose(c.flux.value, fl[perm][:, :, jj], rtol=1e-12)
        ok &= abs(filt['wav'][j] - w) < 1e-9 * w
        if not ok: bad += 1; print("MONO MISMATCH", trial, j)
    # compare to cube fits
    cube = SEDCube(); cube.names = np.array(pnames); cube.distance = 1 * u.kpc
    cube.nu = nu * u.Hz; cube.apertures = aps * u.au
    un = u.mJy if funit == 'mJy' else u.erg / u.cm**2 / u.s
    cube.val = flux[perm] * un; cube.unc = err[perm] * un
    cube.write(os.path.join(d2, 'flux.fits')); write_conf(d2, 2, apdep); write_params(d2, pnames)
    sel = rng.permutation(nw)[:3]
    fn1 = ['MO%03d' % (j + 1) for j in sel]
    w_of = [ConvolvedFluxes.read(os.path.join(d1, 'convolved', n + '.fits')).central_wavelength for n in fn1]
    apa = rng.uniform(1, 20, 3) * u.arcsec
    kw = dict(extinction_law=ext, av_range=[0., 10.], distance_range=[0.5, 3.] * u.kpc)
    f1 = Fitter(fn1, apa, d1, **kw); f2 = Fitter(w_of, apa, d2, use_memmap=False, **kw)
    s = Source(); s.name = 's'; s.x = 0; s.y = 0; s.valid = np.array([1, 1, 1]); s.flux = rng.uniform(1, 50, 3); s.error = s.flux * 0.1
    a = f1.fit(s); b = f2.fit(s)
    if not (list(a.model_name) == list(b.model_name) and np.allclose(a.chi2, b.chi2, rtol=1e-8) and np.allclose(a.av, b.av, atol=1e-9) and np.allclose(a.sc, b.sc, atol=1e-9)):
        bad += 1; print("FIT MISMATCH", trial, a.chi2, b.chi2, a.model_name, b.model_name)
    shutil.rmtree(tmp)
print("bad", bad)
