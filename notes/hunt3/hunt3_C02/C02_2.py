"""
C02 - with a single-precision distance range the trial distances are a
float32 grid: it does not include the ends of the requested range (the last
trial distance even lies OUTSIDE the range, 2.4e-7 beyond dmax), and the
reported scale / chi^2 are not those of the log-uniform grid between dmin and
dmax (errors ~1e-7, i.e. nine orders of magnitude above double rounding).
"""
import os
import tempfile

import numpy as np
from astropy import units as u

from sedfitter.convolved_fluxes import ConvolvedFluxes
from sedfitter.extinction import Extinction
from sedfitter.source import Source
from sedfitter.fit import Fitter

d = tempfile.mkdtemp()
os.mkdir(os.path.join(d, 'convolved'))
with open(os.path.join(d, 'models.conf'), 'w') as f:
    f.write("name = test\nlength_subdir = 0\naperture_dependent = yes\nlogd_step = 0.02\n")
aps = np.array([125., 1000., 8000.])
fl = np.array([[1., 2., 4.], [3., 3.5, 3.7]])
wavs = [3.6, 8.0]
for i, w in enumerate(wavs):
    c = ConvolvedFluxes(wavelength=w * u.micron,
                        model_names=np.array(['model_a', 'model_b']),
                        apertures=aps * u.au,
                        flux=fl * (i + 1) * u.mJy, error=fl * 0.01 * u.mJy)
    c.write(os.path.join(d, 'convolved', 'F%d.fits' % i))

ext = Extinction()
ext.wav = np.logspace(-2., 3., 50) * u.micron
ext.chi = ext.wav.value ** -1.5 * u.cm ** 2 / u.g

theta = np.array([1., 3.])
s = Source()
s.name = 'src'
s.valid = [1, 1]
s.flux = np.array([0.02, 0.09])
s.error = np.array([0.0002, 0.0009])

dmin, dmax, step = 0.25, 32., 0.02      # exactly representable in float32
res = {}
for dtype in (np.float64, np.float32):
    dr = np.array([dmin, dmax], dtype=dtype) * u.kpc
    fitter = Fitter(['F0', 'F1'], theta * u.arcsec, d, extinction_law=ext,
                    av_range=(0., 10.), distance_range=dr)
    res[dtype] = (fitter.models.distances.to(u.kpc).value.astype(float), fitter.fit(s))

n = int(np.ceil(1 + (np.log10(dmax) - np.log10(dmin)) / step))
grid = 10. ** np.linspace(np.log10(dmin), np.log10(dmax), n)

g64, i64 = res[np.float64]
assert len(g64) == n and np.max(np.abs(g64 / grid - 1)) < 1e-13
assert np.min(np.abs(i64.sc[:, None] - np.log10(grid)[None, :]), axis=1).max() < 1e-13

g32, i32 = res[np.float32]
msg = ("C02 violated for distance_range = [0.25, 32] kpc given as a float32 "
       "Quantity (logd_step 0.02): ")
assert len(g32) == n, msg + "number of trial distances %d instead of %d" % (len(g32), n)
assert g32[-1] <= dmax * (1 + 1e-12) and abs(g32[0] / dmin - 1) < 1e-12 and abs(g32[-1] / dmax - 1) < 1e-12, \
    msg + ("the grid does not include the ends of the range: first = dmin*(1%+.2e), "
           "last = dmax*(1%+.2e) (last trial distance is beyond dmax); max relative "
           "deviation from the log-uniform grid %.2e; reported scales deviate from "
           "log10 of the grid distances by up to %.2e; chi2 differs from the float64 "
           "fit by %s"
           % (g32[0] / dmin - 1, g32[-1] / dmax - 1, np.max(np.abs(g32 / grid - 1)),
              np.min(np.abs(np.asarray(i32.sc, dtype=float)[:, None] - np.log10(grid)[None, :]), axis=1).max(),
              np.asarray(i32.chi2) - np.asarray(i64.chi2)))
print("no violation")
