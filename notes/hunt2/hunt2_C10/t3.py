import sys; sys.path.insert(0, '/tmp/hunt2_C10/hunt_out')
from _helper import *
import pickle, subprocess
from sedfitter import fit, Fitter, plot, plot_params_1d, plot_params_2d, write_parameters, write_parameter_ranges, extract_parameters, filter_output
from sedfitter.source import Source
from sedfitter.fit_info import FitInfoFile
from sedfitter.sed import SEDCube
apdep = len(sys.argv) > 1
d = tempfile.mkdtemp(); md = d + '/models'; os.mkdir(md)
rng = np.random.RandomState(3)
cube = SEDCube()
names = ['zeta', 'alpha', 'alpha2', 'Beta', 'al']
cube.names = np.array(names)
cube.distance = 1 * u.kpc
cube.wav = np.logspace(-2., 3., 100) * u.micron
if apdep:
    cube.apertures = np.logspace(1., 6., 10) * u.au
    cube.val = np.cumsum(rng.random_sample((5, 10, 100)), axis=1) * u.mJy
else:
    cube.apertures = None
    cube.val = (1 + rng.random_sample((5, 1, 100))) * u.mJy
cube.unc = cube.val * 0.01
cube.write(md + '/flux.fits')
open(md + '/models.conf', 'w').write("name = test\nlength_subdir = 0\naperture_dependent = %s\nlogd_step = 0.02\nversion = 2\n" % ('yes' if apdep else 'no'))
t = Table(); t['MODEL_NAME'] = np.array(names, dtype='S'); t['par1'] = rng.random_sample(5); t['par2'] = rng.random_sample(5)
t.write(md + '/parameters.fits')
from sedfitter.convolve import convolve_model_dir
convolve_model_dir(md, filters=make_filters())
DATA = """s1 0.0 0.0 1 1 1 0.2 0.1 1.3 0.2 1.5 0.3
s2 1.0 2.0 1 0 1 0.2 0.05 1.2 0.1 1.8 0.3
s3 1.0 2.0 1 1 4 0.2 0.05 1.2 0.1 0.1 0.3
"""
open(d + '/data', 'w').write(DATA)
ext = extinction()
filt = ['bob', 3.4 * u.micron, 'eve']
out = d + '/out'
kw = dict(extinction_law=ext, distance_range=[1., 2.] * u.kpc, av_range=[0., 0.1])
fit(d + '/data', filt, [1., 3., 3.] * u.arcsec, md, out, n_data_min=2, output_format=('N', 4), output_convolved=True, **kw)
fitter = Fitter(filt, [1., 3., 3.] * u.arcsec, md, **kw)
lst = list(FitInfoFile(out, 'r'))
for l, line in zip(lst, DATA.strip().split('\n')):
    i = fitter.fit(Source.from_ascii(line)); i.keep(('N', 4))
    assert not info_eq(i, l), info_eq(i, l)
    assert i.meta == l.meta
    print(l.model_name, type(l.model_name))
def run(form, tag):
    o = d + '/' + tag; os.mkdir(o)
    write_parameters(form, o + '/wp', select_format=('N', 3))
    write_parameter_ranges(form, o + '/wpr', select_format=('F', 1.))
    os.mkdir(o + '/ex')
    extract_parameters(form, o + '/ex/', '.txt', select_format=('N', 2))
    plot(form, output_dir=o + '/plots', select_format=('N', 2), format='png', show_convolved=True, plot_mode='A', sed_type='all')
    plot_params_1d(form, 'par1', output_dir=o + '/p1', select_format=('N', 2), format='png')
    plot_params_2d(form, 'par1', 'par2', output_dir=o + '/p2', select_format=('N', 2), format='png')
    filter_output(form, output_good=o + '/good', output_bad=o + '/bad', cpd=5.)
run(out, 'file'); run(lst, 'list')
print(subprocess.run(['diff', '-r', d + '/file', d + '/list'], capture_output=True, text=True).stdout[:2000])
print(open(d + '/file/wp').read())
print("DONE")
