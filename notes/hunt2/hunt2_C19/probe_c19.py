import os, sys, tempfile, io, contextlib, pickle
sys.path.insert(0, os.path.dirname(__file__))
import numpy as np
from astropy import units as u
from common import build_models, extinction
from sedfitter import fit
from sedfitter.fit_info import FitInfoFile, FitInfo

def same(a, b):
    sa, sb = a.__getstate__(), b.__getstate__()
    for k in sa:
        if k == 'source':
            x, y = sa[k], sb[k]
            if not (x.name == y.name and x.x == y.x and x.y == y.y and np.array_equal(x.valid, y.valid) and np.array_equal(x.flux, y.flux) and np.array_equal(x.error, y.error)): return False
        else:
            if (sa[k] is None) != (sb[k] is None): return False
            if sa[k] is not None and not (np.array_equal(sa[k], sb[k]) and sa[k].dtype == sb[k].dtype and sa[k].shape==sb[k].shape): return False
    return True

def readall(fn):
    f = FitInfoFile(fn, 'r')
    out = []
    err = None
    try:
        for info in f:
            out.append(info)
    except Exception as e:
        err = e
    f.close()
    return out, err

if __name__ != "__main__": raise SystemExit
d = tempfile.mkdtemp()
build_models(d, aperture_dependent=False)
lines = ["src_a 1.0 2.0 1 1 1 0.2 0.1 1.3 0.2 1.5 0.3",
         "source_bb 0.5 0.25 1 3 1 0.2 0.05 1.2 0.1 1.8 0.3",
         "c 0 0 1 1 4 0.25 0.05 1.25 0.1 0.3 0.01",
         "dddddddddddddddddddddddddddddd 0 0 1 1 1 2.2 0.05 1.2 0.1 1.8 0.3"]
tot=0
for conv in [False, True]:
  for fmt in [('A',), ('N',1), ('N',0), ('F', 3.), ('N', 3)]:
    for nrec in range(1,5):
        data = os.path.join(d, 'data_%d_%s_%d'%(conv, fmt[0]+str(fmt[-1]), nrec)); open(data,'w').write("\n".join(lines[:nrec])+"\n")
        out = data+'.out'
        with contextlib.redirect_stdout(io.StringIO()):
            fit(data, ['alice','bob','eve'], [3.]*3*u.arcsec, d, out, n_data_min=1, extinction_law=extinction(), distance_range=[1.,2.]*u.kpc, av_range=[0.,1.], output_format=fmt, output_convolved=conv)
        full, err = readall(out)
        assert err is None and len(full)==nrec
        raw = open(out,'rb').read()
        tfn = out+'.trunc'
        hist = {}
        for k in range(len(raw)):
            open(tfn,'wb').write(raw[:k])
            try:
                recs, err = readall(tfn)
            except Exception as e:
                hist['ctor '+type(e).__name__] = hist.get('ctor '+type(e).__name__,0)+1
                continue
            assert len(recs) <= nrec
            for a,b in zip(recs, full):
                assert same(a,b), (conv, fmt, nrec, k)
            key = (len(recs), type(err).__name__)
            hist[key] = hist.get(key,0)+1
            tot+=1
        print(conv, fmt, nrec, len(raw), hist)
print('total', tot)
