"""
C02 violation: the trial-distance grid has one point too many when
(log10 dmax - log10 dmin) / logd_step is an exact integer but the floating
point subtraction log10(dmax) - log10(dmin) lands one ulp above it.

Example (no representation issue in the inputs: 0.25 is a binary fraction and
300/30 is exactly 10, so log10(dmax/dmin)/step is exactly 4):

    distance_range = [30, 300] kpc,  logd_step = 0.25
    fewest points with spacing <= 0.25 dex that include both ends: 5
        (30, 53.35, 94.87, 168.7, 300 kpc; spacing exactly 0.25 dex)
    code: np.log10(300.) - np.log10(30.) = 1.0000000000000002
          n = ceil(1 + 4.000000000000001) = 6   (spacing 0.2 dex)

The rounding is tiny but the consequence is discrete: all interior trial
distances differ from the specified grid by up to 12 %, so the reported
distances (scale) and chi^2 minima are those of another grid.

Clause violated: "trial distances form a log-uniform grid that includes both
ends of the requested range with the FEWEST points whose spacing does not
exceed the package's log-distance step".
"""
import contextlib
import io
import os
import sys
import tempfile
from fractions import Fraction

import numpy as np
from astropy import units as u

from sedfitter.convolved_fluxes import ConvolvedFluxes
from sedfitter.extinction import Extinction
from sedfitter.fit import Fitter
from sedfitter.source import Source


def quiet(func, *args, **kwargs):
    with contextlib.redirect_stdout(io.StringIO()):
        return func(*args, **kwargs)


STEP = 0.25
DMIN, DMAX = 30., 300.

tmp = tempfile.mkdtemp()
os.mkdir(os.path.join(tmp, 'convolved'))
names = np.array(['m1', 'm2'])
apertures_tab = np.array([1.e3, 1.e5, 1.e7]) * u.au
wavs = [1.25, 8.0]
flux = np.array([[[1.0, 2.0], [1.5, 2.5], [1.7, 3.5]],
                 [[0.3, 0.9], [0.6, 1.4], [0.8, 1.5]]])          # (model, aperture, band)
for i, w in enumerate(wavs):
    c = ConvolvedFluxes()
    c.model_names = names
    c.central_wavelength = w * u.micron
    c.apertures = apertures_tab
    c.flux = flux[:, :, i] * u.mJy
    c.error = flux[:, :, i] * 0. * u.mJy
    c.write(os.path.join(tmp, 'convolved', 'B%d.fits' % i))
with open(os.path.join(tmp, 'models.conf'), 'w') as f:
    f.write("name = test\nlength_subdir = 0\naperture_dependent = yes\nlogd_step = %r\n" % STEP)

ext = Extinction()
ext.wav = np.logspace(-1, 2, 40) * u.micron
ext.chi = 200. * ext.wav.value ** -1.7 * u.cm ** 2 / u.g

fitter = quiet(Fitter, ['B0', 'B1'], [1., 1.] * u.arcsec, tmp, extinction_law=ext,
               av_range=[0., 10.], distance_range=[DMIN, DMAX] * u.kpc)

# Exact arithmetic: dmax/dmin = 10 exactly, so the log range is exactly 1 dex
assert Fraction(DMAX) / Fraction(DMIN) == 10
intervals_needed = Fraction(1) / Fraction(STEP)          # = 4 exactly
assert intervals_needed.denominator == 1
n_expected = int(intervals_needed) + 1                   # 5 points, spacing exactly = step
expected_grid = DMIN * 10. ** (np.arange(n_expected) * STEP)

got = fitter.models.distances.to(u.kpc).value
print("expected %d trial distances: %s" % (n_expected, expected_grid))
print("code     %d trial distances: %s" % (len(got), got))

# a source that sits at ~95 kpc (an expected grid point) for model m1
src = Source()
src.name = 'src'
src.valid = [1, 1]
src.flux = np.array([1.5, 2.5]) / 94.86832980505137 ** 2
src.error = 0.05 * src.flux
info = fitter.fit(src)
print("reported log10(d/kpc):", np.asarray(info.sc), " i.e. d =", 10 ** np.asarray(info.sc), "kpc")

if len(got) != n_expected:
    on_grid = [bool(np.any(np.isclose(10 ** float(s), expected_grid, rtol=1e-9))) for s in info.sc]
    print()
    print("C02 VIOLATED: distance_range=[30, 300] kpc, logd_step=0.25 -> %d trial distances (spacing %.3f dex) "
          "instead of the fewest possible, %d (spacing exactly 0.25 dex). Reported distances on the specified grid: %s"
          % (len(got), np.diff(np.log10(got))[0], n_expected, on_grid))
    sys.exit("C02 violated: the trial-distance grid does not have the fewest points whose spacing does not exceed "
             "logd_step (6 instead of 5 for [30, 300] kpc with step 0.25)")

print("C02 holds on this input")
