import numpy as np, os, tempfile, sys
from astropy import units as u
from sedfitter.convolved_fluxes import ConvolvedFluxes
from sedfitter.sed import SED, SEDCube
d = tempfile.mkdtemp()
for k, un in enumerate([u.au, u.pc, u.kpc, u.cm, u.m, u.km, u.mm, u.lyr, u.Rsun, u.micron, u.AA, u.Mpc, u.imperial.inch if hasattr(u,'imperial') else u.m, u.earthRad, u.jupiterRad]):
    try:
        c = ConvolvedFluxes(wavelength=2 * u.micron, model_names=np.array(['a', 'b']), apertures=np.array([1., 2.]) * un, initialize_arrays=True)
        c.flux = np.ones((2, 2)) * u.mJy; c.error = np.ones((2, 2)) * u.mJy
        c.write(d + '/c%d.fits' % k)
        c2 = ConvolvedFluxes.read(d + '/c%d.fits' % k)
        ok = np.allclose(c2.apertures.to(u.cm).value, c.apertures.to(u.cm).value, rtol=1e-14)
        print(un, c2.apertures.unit, ok)
    except Exception as e:
        print(un, 'EXC', repr(e)[:150])
for k, un in enumerate([u.micron, u.mm, u.AA, u.nm, u.m, u.cm]):
    try:
        c = ConvolvedFluxes(wavelength=(2 * u.micron).to(un), model_names=np.array(['a', 'b']), apertures=np.array([1., 2.]) * u.au, initialize_arrays=True)
        c.write(d + '/w%d.fits' % k)
        c2 = ConvolvedFluxes.read(d + '/w%d.fits' % k)
        print(un, c2.central_wavelength)
    except Exception as e:
        print(un, 'EXC', repr(e)[:150])
