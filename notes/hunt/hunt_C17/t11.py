import sys; sys.path.insert(0, 'hunt_out')
from harness import *
from astropy.io import fits
def go(mod=None, wavconv=None, apunit=u.arcsec, st='interp', memmap=True):
    d = tempfile.mkdtemp()
    cube = make_pkg(d, n_ap=8)
    if mod: mod(d)
    wavs = [cube.wav[i] for i in (5, 12, 20, 30)]
    if wavconv: wavs = [w.to(wavconv) for w in wavs]
    aps = (np.array([3., 5., 3., 8.]) * u.arcsec).to(apunit)
    fitter = quiet(Fitter, wavs, aps, d, extinction_law=make_ext(), av_range=(0., 10.), distance_range=(0.5, 3.) * u.kpc, use_memmap=memmap)
    info = fitter.fit(make_source(4))
    figs = plot(info, select_format=('N', 3), sed_type=st, memmap=memmap)
    segs = figs['src']['lines'].get_segments()
    wav = np.array([w.to(u.micron).value for w in wavs]); ap = aps.to(u.arcsec).value
    nper = len(segs) // 3
    worst = 0
    for k in range(3):
        i = 2 - k
        for j in range(nper):
            seg = segs[k * nper + j]
            for f in range(4):
                if st == 'all' and ap[f] != np.unique(ap)[j]: continue
                idx = np.argmin(np.abs(np.log(seg[:, 0]) - np.log(wav[f])))
                assert abs(seg[idx, 0] / wav[f] - 1) < 1e-6
                pred = 10. ** (info.model_fluxes[i, f] - 26. + np.log10(2.99792458e8 / (wav[f] * 1e-6)))
                worst = max(worst, abs(seg[idx, 1] / pred - 1))
    return worst
def f32(d):
    h = fits.open(os.path.join(d, 'flux.fits'))
    h['VALUES'].data = h['VALUES'].data.astype('>f4'); h['UNCERTAINTIES'].data = h['UNCERTAINTIES'].data.astype('>f4')
    h.writeto(os.path.join(d, 'flux.fits'), overwrite=True)
def invalid(d):
    h = fits.open(os.path.join(d, 'flux.fits'))
    h[0].data[:] = 0
    h.writeto(os.path.join(d, 'flux.fits'), overwrite=True)
for st in ['interp', 'all']:
    for mm in [True, False]:
        print(st, mm, 'f32', go(f32, st=st, memmap=mm))
    print(st, 'invalid', go(invalid, st=st))
    print(st, 'AA', go(wavconv=u.AA, st=st))
    print(st, 'm', go(wavconv=u.m, st=st))
    print(st, 'arcmin', go(apunit=u.arcmin, st=st))
    print(st, 'rad', go(apunit=u.rad, st=st))
