#!/bin/bash
# run_seeds.sh — every independently written fault in seeded/<id>/patch.diff against the quick check of its target property
# (the id's prefix); expected: a VIOLATION line with a failing input (not "no-failing-input-found") for every one.
cd /verif
one() {
  id=$1; p=${id%%_*}
  out=$(./selftest/with_patch.sh seeded/$id/patch.diff $p quick 2>&1 | grep -E "^VIOLATION|patch does not apply" | head -1)
  if [ -z "$out" ]; then echo "MISSED $id"; elif echo "$out" | grep -q "does not apply"; then echo "STALE $id"; elif echo "$out" | grep -q "no-failing-input-found"; then echo "NOTSHOWN $id"; else echo "ok $id"; fi
}
export -f one
ls seeded | grep -v README | xargs -P 4 -I{} bash -c 'one {}'
