"""C12: 'optional parts (apertures, uncertainties) may be absent' / quantifier
'with/without apertures and uncertainties': an SED without uncertainties cannot
be written at all (ValueError 'Errors are not set'), in particular the SED that
SEDCube.get_sed hands out for a cube stored without uncertainties."""
import os, tempfile
import numpy as np
from astropy import units as u
from sedfitter.sed import SED, SEDCube

tmp = tempfile.mkdtemp()
wav = np.array([1., 2., 5.]) * u.micron

# (a) an SED built directly, without uncertainties
s = SED(); s.name = 'm'; s.distance = 1 * u.kpc
s.wav = wav; s.nu = wav.to(u.Hz, equivalencies=u.spectral())
s.apertures = [10., 20.] * u.au
s.flux = np.array([[1., 2., 3.], [4., 5., 6.]]) * u.mJy

# (b) the SED extracted from a cube that has no uncertainties (round trip through a file)
c = SEDCube(names=['a', 'b'], distance=1 * u.kpc, wav=wav, apertures=[10., 20.] * u.au,
            val=np.arange(12.).reshape(2, 2, 3) * u.mJy + 1 * u.mJy)
fn = os.path.join(tmp, 'cube.fits'); c.write(fn)
s2 = SEDCube.read(fn).get_sed('b')
assert s2.error is None

problems = []
for label, sed in (('SED built without error', s), ('SED from get_sed of a cube without unc', s2)):
    out = os.path.join(tmp, label.replace(' ', '_') + '.fits')
    try:
        sed.write(out)
        r = SED.read(out, unit_flux=u.mJy, order='wav')
        assert np.allclose(r.flux.value, sed.flux.to(u.mJy).value[:, np.argsort(sed.wav.value)])
    except Exception as e:
        problems.append('%s: %r' % (label, e))
assert not problems, ("C12 'optional parts (apertures, uncertainties) may be absent': SED.write refuses an SED "
                      "without uncertainties, so it cannot be written and read back: %s" % problems)
