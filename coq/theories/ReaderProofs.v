(* Reading a cut file: the number of complete pickles is monotone in the cut position, maximal for the uncut file, and exactly the number of leading pickles that fit before the cut. *)
From Coq Require Import List Arith Lia.
Import ListNotations.
From SedV Require Import Reader StreamM.

(* a later cut never yields fewer complete pickles *)
Theorem prefix_count_mono lens : forall k k', k <= k' -> prefix_count lens k <= prefix_count lens k'.
Proof.
  induction lens as [|l r IH]; intros k k' H; cbn [prefix_count]; [lia|].
  destruct (l <=? k) eqn:E1; destruct (l <=? k') eqn:E2; try lia.
  - apply le_n_S. apply IH. lia.
  - apply Nat.leb_le in E1. apply Nat.leb_gt in E2. lia.
Qed.

(* an uncut file (or a cut at or past its end) yields every pickle *)
Theorem prefix_count_full lens : forall k, list_sum lens <= k -> prefix_count lens k = length lens.
Proof.
  induction lens as [|l r IH]; intros k H; [reflexivity|]. change (list_sum (l :: r)) with (l + list_sum r) in H. cbn [prefix_count length].
  destruct (l <=? k) eqn:E; [f_equal; apply IH; apply Nat.leb_le in E; lia|apply Nat.leb_gt in E; lia].
Qed.

(* the count is exactly the number of leading pickles that fit entirely before the cut *)
Lemma list_sum_cons l r : list_sum (l :: r) = l + list_sum r.
Proof. reflexivity. Qed.

Theorem prefix_count_spec lens : forall k,
  list_sum (firstn (prefix_count lens k) lens) <= k /\
  (prefix_count lens k < length lens -> k < list_sum (firstn (S (prefix_count lens k)) lens)).
Proof.
  induction lens as [|l r IH]; intros k; cbn [prefix_count]; [cbn; lia|].
  destruct (l <=? k) eqn:E.
  - apply Nat.leb_le in E. destruct (IH (k - l)) as [A B]. cbn [firstn length]. rewrite !list_sum_cons. split; [lia|].
    intros H. specialize (B ltac:(lia)). cbn [firstn] in B. rewrite ?list_sum_cons in B. lia.
  - apply Nat.leb_gt in E. cbn [firstn length]. rewrite list_sum_cons. cbn [list_sum fold_right]. split; [lia|]. intros _. lia.
Qed.

(* reading: a later cut never yields fewer records, and once the file opens it keeps opening *)
Theorem reader_mono lens k k' n : k <= k' -> reader_m lens k = Some n -> exists n', reader_m lens k' = Some n' /\ n <= n'.
Proof.
  unfold reader_m. intros H. pose proof (prefix_count_mono lens k k' H) as M.
  destruct (prefix_count lens k <? 3) eqn:E1; [discriminate|]. intros E; inversion E; subst.
  apply Nat.ltb_ge in E1. destruct (prefix_count lens k' <? 3) eqn:E2; [apply Nat.ltb_lt in E2; lia|].
  eexists; split; [reflexivity|lia].
Qed.

(* the uncut file yields every record written after the three header pickles *)
Theorem reader_full lens k : 3 <= length lens -> list_sum lens <= k -> reader_m lens k = Some (length lens - 3).
Proof.
  intros H3 H. unfold reader_m. rewrite (prefix_count_full lens k H).
  destruct (length lens <? 3) eqn:E; [apply Nat.ltb_lt in E; lia|reflexivity].
Qed.
