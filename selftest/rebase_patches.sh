#!/bin/bash
# rebase_patches.sh — after a "fix:" commit in /repo: re-base every stored patch (seeds, mutants, neutral rewrites) that no longer
# applies onto /repo HEAD with a three-way merge; conflicts are reported and left for hand editing.
cd /repo
for f in /verif/seeded/*/patch.diff /verif/selftest/mutants/*.diff /verif/selftest/refactors/*/patch.diff; do
  git apply --check "$f" 2>/dev/null && continue
  D=$(mktemp -d /tmp/sedreb.XXXXXX); git worktree add --detach "$D" HEAD >/dev/null 2>&1
  ( cd "$D" && git apply -3 "$f" >/dev/null 2>&1; if git diff --name-only --diff-filter=U | grep -q . || [ -z "$(git diff HEAD --name-only)" ]; then echo "CONFLICT $f"; else git diff HEAD -- sedfitter > "$f"; echo "rebased $f"; fi )
  git worktree remove --force "$D"
done
