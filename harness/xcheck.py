"""Extraction cross-check: a sample of the requests answered by the extracted OCaml model is re-evaluated inside Coq
(`Eval vm_compute`) on the same arguments and the two answers are compared.  This exercises the ExtrOcamlZBigInt /
ExtrOcamlBasic directives and the driver's conversions on real inputs at every run (they are in the trusted base)."""
import math
import os
import re
import shutil
import subprocess
import tempfile
from fractions import Fraction

from common import VERIF, WORK


def q(x):
    x = Fraction(x)
    return '(%d # %d)%%Q' % (x.numerator, x.denominator) if x.numerator >= 0 else '(-(%d) # %d)%%Q' % (-x.numerator, x.denominator)


def xnum(x):
    if isinstance(x, float) and math.isnan(x):
        return 'NaN'
    if isinstance(x, float) and math.isinf(x):
        return 'PInf' if x > 0 else 'NInf'
    return '(Fin %s)' % q(x)


def lst(f, l):
    return '[' + '; '.join(f(x) for x in l) + ']'


def z(n):
    return '(%d)%%Z' % n


def nat(n):
    return '%d%%nat' % n


def pt(p):
    return '(%s, %s)' % (q(p[0]), q(p[1]))


def sel(s):
    if s[0] == 'A':
        return 'SelA'
    if s[0] == 'N':
        return '(SelN %s)' % nat(s[1])
    return '(Sel%s %s)' % (s[0], q(s[1]))


NORMQ = 'map Qred'

# op -> (imports, term builder, canonicaliser of the driver's decoded answer)
def _nkeep(a):
    return 'nkeepN %s %d%%N %s' % (sel(a[0]), a[1], lst(xnum, a[2]))


def _rebin(a):
    return 'map qz (rebin_m %s %s)' % (lst(pt, a[0]), lst(q, a[1]))


def _interp_clamp(a):
    return 'map (fun r => option_map qz (interp_clamp_m %s r)) %s' % (lst(pt, a[0]), lst(q, a[1]))


def _mono(a):
    return 'mono_m %s %s %s %s' % (lst(q, a[0]), q(a[1]), q(a[2]), z(a[3]))


def _filter_table(a):
    return 'filter_table_m Z (-1)%%Z (prep_table_m Z (-1)%%Z %s) %s' % (lst(lambda r: '(%s, %s)' % (z(r[0]), z(r[1])), a[0]), lst(z, a[1]))


def _rank(a):
    return 'rank_m %s' % lst(xnum, a[0])


def _sed_roundtrip(a):
    return 'sed_roundtrip Z 0%%Z %s %s %s' % ('true' if a[0] else 'false', lst(z, a[1]), lst(z, a[2]))


def _isub(a):
    return 'qz (isub_full %s %s %s)' % (lst(pt, a[0]), q(a[1]), q(a[2]))


def _ndist(a):
    return 'ndist %s %s' % (q(a[0]), q(a[1]))


def _nearest(a):
    return 'nearest_m %s %s' % (lst(q, a[0]), q(a[1]))


def _get_av(a):
    return 'map (fun t => qz (get_av_m %s %s t)) %s' % (lst(pt, a[0]), q(a[1]), lst(q, a[2]))


def _normalize(a):
    return 'map (fun p => qz (snd p)) (normalize_m %s)' % lst(pt, a[0])


def _conv(a):
    return 'qz (conv_m %s %s)' % (lst(q, a[0]), lst(q, a[1]))


def _fmt_f(a):
    return 'fmt_f %s %s' % (nat(a[0]), q(a[1]))


def _gridlog(a):
    return 'map qz (gridlog_m %s %s %s)' % (q(a[0]), q(a[1]), nat(a[2]))


def _read_files(a):
    row = lambda r: '(%s, %s)' % (z(r[0]), lst(q, r[1]))
    return 'option_map (map (map (fun r => (fst r, map qz (snd r))))) (read_files (list Q) [] %s)' % lst(lambda f: lst(row, f), a[0])


def _radius_sigma(a):
    return 'qz (RadiusM.radius_sigma_m %s %s %s)' % (q(a[0]), lst(q, a[1]), lst(q, a[2]))


def _radius_cumul(a):
    return 'qz (RadiusM.radius_cumul_m %s %s %s)' % (q(a[0]), lst(q, a[1]), lst(q, a[2]))


def _ndist_g(a):
    return 'GridGuard.ndist_g %s %s %s' % (q(a[0]), q(a[1]), q(a[2]))


OPS = {'ndist_g': _ndist_g, 'radius_sigma': _radius_sigma, 'radius_cumul': _radius_cumul, 'read_files': _read_files, 'get_av': _get_av, 'normalize': _normalize, 'conv': _conv, 'fmt_f': _fmt_f, 'gridlog': _gridlog, 'nkeep': _nkeep, 'rebin': _rebin, 'interp_clamp': _interp_clamp, 'mono': _mono, 'filter_table': _filter_table, 'rank': _rank,
       'sed_roundtrip': _sed_roundtrip, 'isub': _isub, 'ndist': _ndist, 'nearest': _nearest}

HEADER = '''From Coq Require Import QArith ZArith List.
Import ListNotations.
From SedV Require Import Xnum Keep Keep0 PLin FilterOut FitModel Grid Table FTable TableProofs ConvolveM MonoM SedIO SedIOM Fmt ReadM.
From SedV Require RadiusM GridGuard.
Definition qz (x : Q) : Z * Z := let y := Qred x in (Qnum y, Zpos (Qden y)).
'''


def _tokens(s):
    s = re.sub(r'%[A-Za-z_]+', '', s)
    return re.findall(r'-?\d+|[A-Za-z_][A-Za-z_0-9.]*|[\[\]();,#]', s)


def _parse(toks):
    """Coq's printed value -> nested python (ints, Fractions, lists, tuples, None, 'NaN'...)"""
    pos = [0]

    def atom():
        t = toks[pos[0]]
        pos[0] += 1
        if t == '[':
            out = []
            while toks[pos[0]] != ']':
                out.append(expr())
                if toks[pos[0]] == ';':
                    pos[0] += 1
            pos[0] += 1
            return out
        if t == '(':
            items = [expr()]
            while toks[pos[0]] == ',':
                pos[0] += 1
                items.append(expr())
            assert toks[pos[0]] == ')', toks[pos[0]:pos[0] + 5]
            pos[0] += 1
            return items[0] if len(items) == 1 else tuple(items)
        if re.fullmatch(r'-?\d+', t):
            return int(t)
        if t in ('Some', 'Fin', 'Z.pos', 'Z.neg'):
            v = atom()
            return ('Some', v) if t == 'Some' else v
        return t       # None, NaN, PInf, NInf, true, false ...

    def expr():
        v = atom()
        while pos[0] < len(toks) and toks[pos[0]] == '#':
            pos[0] += 1
            d = atom()
            v = Fraction(v, d)
        return v
    return expr()


def _canon(x):
    """common normal form of a driver answer and of a parsed Coq value"""
    if isinstance(x, bool):
        return 'true' if x else 'false'
    if isinstance(x, float):
        return 'NaN' if math.isnan(x) else ('PInf' if x > 0 else 'NInf')
    if isinstance(x, Fraction):
        return [x.numerator, x.denominator]       # Q results are printed by Coq as (numerator, denominator) pairs (qz)
    if isinstance(x, int):
        return x
    if isinstance(x, tuple) and len(x) == 2 and x[0] == 'Some':
        return [_canon(x[1])]
    if x == 'None':
        return []
    if isinstance(x, (list, tuple)):
        return [_canon(v) for v in x]
    return x


def _flat(x):
    """pairs/tuples and lists are both sequences here; flatten nesting differences ((a,b),c) vs [a,b,c]"""
    if isinstance(x, list):
        out = []
        for v in x:
            out.append(_flat(v))
        return out
    return x


def cross_check(requests, answers, limit=6):
    """returns (n_checked, list of mismatch descriptions)"""
    picked = [(op, a, ans) for (op, a), ans in zip(requests, answers) if op in OPS and not isinstance(ans, tuple)]
    if not picked:
        return 0, []
    step = max(1, len(picked) // limit)
    picked = picked[::step][:limit]
    os.makedirs(WORK, exist_ok=True)
    d = tempfile.mkdtemp(prefix='xchk_', dir=WORK)
    try:
        body = HEADER
        for i, (op, a, ans) in enumerate(picked):
            body += 'Goal True. idtac "@@X %d". exact I. Qed.\nEval vm_compute in (%s).\n' % (i, OPS[op](a))
        body += 'Goal True. idtac "@@END". exact I. Qed.\n'
        f = os.path.join(d, 'X.v')
        open(f, 'w').write(body)
        p = subprocess.run(['timeout', '600', 'coqc', '-Q', os.path.join(VERIF, 'coq', 'theories'), 'SedV', f],
                           stdout=subprocess.PIPE, stderr=subprocess.STDOUT, text=True, cwd=d)
    finally:
        shutil.rmtree(d, ignore_errors=True)
    if p.returncode != 0:
        return 0, ['extraction cross-check could not be evaluated by coqc: %s' % p.stdout[-400:]]
    chunks = re.split(r'@@X (\d+)\n', p.stdout)
    bad = []
    n = 0
    for k in range(1, len(chunks), 2):
        i = int(chunks[k])
        txt = chunks[k + 1].split('@@END')[0]
        m = re.search(r'=\s*(.*?)\n\s*:\s', txt, re.S)
        if not m:
            bad.append('extraction cross-check: cannot read Coq output for %s' % picked[i][0])
            continue
        try:
            coqv = _canon(_parse(_tokens(m.group(1))))
        except Exception as e:
            bad.append('extraction cross-check: cannot parse Coq output for %s (%s)' % (picked[i][0], e))
            continue
        drv = _canon(picked[i][2])
        n += 1
        if _flatten(coqv) != _flatten(drv):
            bad.append('extraction cross-check: op %s: Coq vm_compute gives %r, extracted OCaml gives %r' % (picked[i][0], str(coqv)[:200], str(drv)[:200]))
    return n, bad


def _flatten(x):
    out = []

    def go(y):
        if isinstance(y, list):
            out.append('[')
            for v in y:
                go(v)
            out.append(']')
        else:
            out.append(y)
    go(x)
    # nesting of pairs differs between Coq's ((a, b), c) printing and the driver's flat lists: compare leaves only
    return [v for v in out if v not in ('[', ']')]
