"""
C18 - filter_output crashes (IndexError) on a legal results file in which one source
carries no fit at all.  fit(..., output_format=('C', 3.)) - the documented way to keep
only the good fits - stores a record with zero fits for every source whose best
chi^2 is above 3.  filter_output reads info.chi2[0] unconditionally, so neither output
file is completed: the sources after the offending one appear in no file, instead of
'every source of the input appears in exactly one of the two output files'
(a source without a fit whose chi^2 is below the threshold belongs to the 'bad' file).
The same happens for a list of results on which keep(('C', x)) was applied.
"""
import os, sys, io, tempfile, contextlib
import numpy as np
from astropy.table import Table
from astropy import units as u

from sedfitter import fit, filter_output, write_parameters
from sedfitter.convolved_fluxes import ConvolvedFluxes
from sedfitter.extinction import Extinction

d = tempfile.mkdtemp()
os.mkdir(os.path.join(d, 'convolved'))
names = ['m3', 'm1', 'm2', 'm0']
rng = np.random.RandomState(1)
for i in range(3):
    c = ConvolvedFluxes()
    c.central_wavelength = (1. + i) * u.micron
    c.model_names = np.array(names)
    c.apertures = None
    c.flux = (1 + rng.random_sample((4, 1))) * u.mJy
    c.error = c.flux * 0.01
    c.write(os.path.join(d, 'convolved', 'f%d.fits' % i))
open(os.path.join(d, 'models.conf'), 'w').write(
    "name = test\nlength_subdir = 0\naperture_dependent = no\nlogd_step = 0.02\n")
t = Table()
t['MODEL_NAME'] = np.array(names, dtype='S30')
t['par1'] = [3., 1., 2., 0.]
t.write(os.path.join(d, 'parameters.fits'))

e = Extinction()
e.wav = np.logspace(-2., 3.) * u.micron
e.chi = e.wav.value ** -2 * u.cm ** 2 / u.g

out = tempfile.mkdtemp()
data = os.path.join(out, 'data')
open(data, 'w').write(
    "s1 0 0 1 1 1 1.2 0.1 1.3 0.2 1.5 0.3\n"      # well fitted
    "s2 0 0 1 1 1 0.2 0.01 5.2 0.1 0.1 0.01\n"    # fitted by no model: best chi^2 >> 3
    "s3 0 0 1 1 1 1.3 0.1 1.2 0.2 1.6 0.3\n")     # well fitted
fits = os.path.join(out, 'fits')
with contextlib.redirect_stdout(io.StringIO()):
    fit(data, ['f0', 'f1', 'f2'], [1., 1., 1.] * u.arcsec, d, fits,
        extinction_law=e, av_range=[0., 0.1], output_format=('C', 3.))

# the file is a legal input of the other post-processing functions: 3 sources, n_fits = 3, 0, 3
write_parameters(fits, os.path.join(out, 'p.txt'), select_format=('A',))
hdr = [l.split() for l in open(os.path.join(out, 'p.txt')).read().split('\n')[3:] if l.split() and l.split()[0].startswith('s')]
assert [h[0] for h in hdr] == ['s1', 's2', 's3'], hdr
assert int(hdr[1][2]) == 0 and int(hdr[0][2]) > 0 and int(hdr[2][2]) > 0, hdr

try:
    filter_output(fits, chi=2.5)
except Exception as exc:
    raise AssertionError(
        "C18 (every source of the input appears in exactly one of the two output files): "
        "filter_output raised %s: %s on a 3-source file written by fit(output_format=('C', 3.)) "
        "whose second source has no stored fit; s1 was written to %s_good, s2 and s3 appear in "
        "neither file (sizes: good=%d bytes, bad=%d bytes)"
        % (type(exc).__name__, exc, fits, os.path.getsize(fits + '_good'), os.path.getsize(fits + '_bad')))
print("no violation")
