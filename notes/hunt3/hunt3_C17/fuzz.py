import sys; sys.path.insert(0, '/tmp/hunt3_C17/hunt_out')
from harness import *
import io, contextlib, traceback

rng = np.random.RandomState(int(sys.argv[1]) if len(sys.argv) > 1 else 0)
nfail = 0
for trial in range(60):
    d = tempfile.mkdtemp()
    ad = rng.rand() < 0.7
    n_ap = rng.choice([1, 2, 3, 6]) if ad else rng.choice([1, None])
    n_wav = rng.choice([2, 3, 8, 25])
    n_models = rng.choice([1, 2, 5, 9])
    vu = [u.mJy, u.Jy, u.erg / u.cm**2 / u.s, 1e40 * u.erg / u.s, u.W / u.m**2, u.uJy][rng.randint(6)]
    wu = [u.micron, u.mm, u.AA, u.m][rng.randint(4)]
    au = [u.au, u.cm, u.pc, u.km][rng.randint(4)]
    cfg = dict(n_models=n_models, n_ap=n_ap, n_wav=n_wav, aperture_dependent=ad, val_unit=vu, wav_unit=wu, ap_unit=au, seed=trial, reverse_wav=rng.rand() < 0.5)
    try:
        cube = make_package(d, **cfg)
        cw = np.sort(cube.wav.to(u.micron))
        nf = rng.randint(1, min(6, n_wav) + 1)
        idx = rng.choice(n_wav, nf, replace=False)
        filters = [cw[i] if rng.rand() < 0.5 else cube.wav[np.argmin(np.abs(cube.wav - cw[i]))] for i in idx]
        fit_ap = 10 ** rng.uniform(0.3, 3, nf)
        if rng.rand() < 0.3: fit_ap[:] = fit_ap[0]
        e = make_ext()
        lo = 10 ** rng.uniform(-0.5, 1.5); hi = lo * 10 ** rng.choice([0, 0.01, 0.5, 1])
        with contextlib.redirect_stdout(io.StringIO()):
            fitter = Fitter(filters, fit_ap * u.arcsec, d, extinction_law=e, av_range=[0., 10 ** rng.uniform(-1, 1.5)], distance_range=[lo, hi] * u.kpc if ad else None, use_memmap=False, remove_resolved=bool(ad and n_ap and n_ap > 1 and rng.rand() < 0.3))
        infos = []
        for k in range(rng.randint(1, 4)):
            s = Source(); s.name = 'src%d' % k; s.x = 0; s.y = 0
            v = rng.choice([1, 1, 1, 0, 9, 2, 3, 4], nf)
            if nf >= 2:
                v[:2] = 1
            else:
                v[:] = 1
            if not ad and nf < 2: continue
            s.valid = list(v)
            fl = 10 ** rng.uniform(-1, 2, nf); er = fl * rng.uniform(0.05, 0.3, nf)
            for j in range(nf):
                if v[j] in (2, 3): er[j] = rng.uniform(0, 1)
                if v[j] == 4: fl[j] = np.log10(fl[j]); er[j] = 0.1
            s.flux = list(fl); s.error = list(er)
            infos.append(fitter.fit(s))
        if not infos: continue
        inp = infos
        if rng.rand() < 0.5:
            fn = os.path.join(d, 'o.fitinfo'); fo = FitInfoFile(fn, 'w')
            for i in infos: fo.write(i)
            fo.close(); inp = fn
        elif len(infos) == 1:
            inp = infos[0]
        for mode in ['interp', 'largest', 'largest+smallest', 'all']:
            nsel = rng.randint(1, 6)
            # skip fits with non-finite chi2 (zero flux etc.)
            r = check(inp, mode, nsel, memmap=bool(rng.rand() < 0.5))
    except Exception as ex:
        nfail += 1
        print('TRIAL', trial, cfg, 'FAIL', type(ex).__name__, str(ex)[:300])
        traceback.print_exc(limit=-2)
print('done, fails', nfail)
