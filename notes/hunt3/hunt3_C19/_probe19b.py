import os, tempfile, sys, io, contextlib
import numpy as np
from astropy import units as u
from astropy.table import Table
from sedfitter.sed import SEDCube
from sedfitter.extinction import Extinction
from sedfitter.filter import Filter
from sedfitter.convolve import convolve_model_dir
from sedfitter.fit import fit
from sedfitter.fit_info import FitInfo, FitInfoFile

tmp = tempfile.mkdtemp()
md = os.path.join(tmp, 'models'); os.mkdir(md)
np.random.seed(1)
for apdep in (False, True):
  md = os.path.join(tmp, 'models%d' % apdep); os.mkdir(md)
  cube = SEDCube()
  cube.names = np.array(['model_{0:04d}'.format(i) for i in range(6)])
  cube.distance = 1 * u.kpc
  cube.wav = np.logspace(-2., 3., 100) * u.micron
  if apdep:
      cube.apertures = np.logspace(1., 6., 10) * u.au
      cube.val = np.cumsum(np.random.random((6, 10, 100)), axis=1) * u.mJy
  else:
      cube.apertures = None
      cube.val = (1 + np.random.random((6, 1, 100))) * u.mJy
  cube.unc = cube.val * 0.01
  cube.write(os.path.join(md, 'flux.fits'))
  open(os.path.join(md, 'models.conf'), 'w').write("name = test\nlength_subdir = 0\naperture_dependent = %s\nlogd_step = 0.02\nversion = 2\n" % ('yes' if apdep else 'no'))
  t = Table(); t['MODEL_NAME'] = np.array(cube.names, dtype='S'); t['par1'] = np.random.random(6); t.write(os.path.join(md, 'parameters.fits'))
  fs = []
  for nm, lo, hi in [('alice', 1, 5), ('bob', 10, 15), ('eve', 15, 25)]:
      f = Filter(); f.name = nm; w = np.linspace(hi, lo, 50) * u.micron
      f.central_wavelength = 0.5 * (lo + hi) * u.micron
      f.nu = w.to(u.Hz, equivalencies=u.spectral()); f.response = np.ones(50); f.normalize(); fs.append(f)
  with contextlib.redirect_stdout(io.StringIO()):
      convolve_model_dir(md, filters=fs)

ext = Extinction(); ext.wav = np.logspace(-2., 3.) * u.micron; ext.chi = ext.wav.value ** -2 * u.cm ** 2 / u.g
LINES = ["s1 0.0 0.0 1 1 1 0.2 0.1 1.3 0.2 1.5 0.3",
         "s2 1.0 2.0 1 3 1 0.2 0.05 1.2 0.1 1.8 0.3",
         "source_three_with_long_name 1.0 2.0 1 1 0 0.2 0.05 1.2 0.1 -999 -999",
         "s4 1.0 2.0 1 4 2 0.2 0.05 0.1 0.1 1.8 0.3"]

def same(a, b):
    sa, sb = a.__getstate__(), b.__getstate__()
    for k in sa:
        if k == 'source':
            da, db = sa[k].to_dict(), sb[k].to_dict()
            for kk in da:
                if not np.array_equal(np.asarray(da[kk]), np.asarray(db[kk])): return False
        else:
            if (sa[k] is None) != (sb[k] is None): return False
            if sa[k] is not None:
                if sa[k].dtype != sb[k].dtype or sa[k].shape != sb[k].shape or not np.array_equal(sa[k], sb[k]): return False
    return True

bad = 0; outcomes = {}; k = 0
for apdep in (False, True):
  md = os.path.join(tmp, 'models%d' % apdep)
  for conv in (False, True):
    for nrec in (1, 2, 3, 4):
      for fmt in [('A',), ('N', 1), ('F', 3.), ('C', 0.)]:
        k += 1
        dat = os.path.join(tmp, 'data%d' % k); open(dat, 'w').write("\n".join(LINES[:nrec]) + "\n")
        out = os.path.join(tmp, 'out%d' % k)
        with contextlib.redirect_stdout(io.StringIO()):
            fit(dat, ['bob', 'alice', 'eve'], [1., 3., 3.] * u.arcsec, md, out, extinction_law=ext,
                distance_range=[1., 2.] * u.kpc, av_range=[0., 0.1], output_format=fmt, output_convolved=conv, n_data_min=2)
        fin = FitInfoFile(out, 'r'); full = list(fin); fin.close()
        assert len(full) == nrec
        data = open(out, 'rb').read()
        q = os.path.join(tmp, 'trunc')
        for cut in range(len(data)):
            open(q, 'wb').write(data[:cut])
            try:
                fin = FitInfoFile(q, 'r'); got = list(fin); fin.close()
            except Exception as e:
                outcomes[type(e).__name__] = outcomes.get(type(e).__name__, 0) + 1
                continue
            outcomes['ok%d' % len(got)] = outcomes.get('ok%d' % len(got), 0) + 1
            if len(got) > nrec or not all(same(a, b) for a, b in zip(got, full)):
                bad += 1; print("BAD", apdep, conv, nrec, fmt, cut, len(got))
        print(apdep, conv, nrec, fmt, len(data), [f.n_fits for f in full], file=sys.stderr)
print(outcomes, bad)
