import os, tempfile, itertools, warnings
import numpy as np
from astropy import units as u
from sedfitter.convolved_fluxes import ConvolvedFluxes
from sedfitter.extinction import Extinction
from sedfitter.fit import Fitter
from sedfitter.source import Source

def make_models(d, nmod=7, nf=5, apdep=False, seed=1, nap=6):
    rng = np.random.RandomState(seed)
    os.makedirs(os.path.join(d, 'convolved'))
    names = np.array(['m%03d' % i for i in range(nmod)])
    wavs = np.array([0.5, 1.2, 3.6, 8., 24., 70.])[:nf]
    for k in range(nf):
        c = ConvolvedFluxes()
        c.central_wavelength = wavs[k] * u.micron
        c.model_names = names
        if apdep:
            c.apertures = np.logspace(1, 6, nap) * u.au
            c.flux = np.cumsum(rng.uniform(0.1, 5, (nmod, nap)), axis=1) * u.mJy
        else:
            c.apertures = None
            c.flux = rng.uniform(0.1, 50, (nmod, 1)) * u.mJy
        c.error = c.flux * 0.01
        c.write(os.path.join(d, 'convolved', 'f%d.fits' % k))
    with open(os.path.join(d, 'models.conf'), 'w') as f:
        f.write("name = test\nlength_subdir = 0\naperture_dependent = %s\nlogd_step = 0.05\n" % ('yes' if apdep else 'no'))
    return ['f%d' % k for k in range(nf)]

def ext():
    e = Extinction()
    e.wav = np.logspace(-2., 3., 60) * u.micron
    e.chi = e.wav.value ** -1.5 * u.cm ** 2 / u.g
    return e

def src(valid, flux, error, name='s'):
    s = Source(); s.name = name; s.x = 0.; s.y = 0.
    s.valid = np.array(valid); s.flux = np.array(flux, float); s.error = np.array(error, float)
    return s
