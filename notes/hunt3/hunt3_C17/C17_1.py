"""
C17, clause "reddened by the reported A_V with the stored extinction law, so
that ... the curve passes through the predicted flux stored with the fit".

A fit result passed as an OBJECT does not keep its own copy of the extinction
law: info.meta.extinction_law is the very object that was handed to Fitter().
The Fitter evaluates the law once (Fitter.av_law) when it is built.  If the
Extinction object is re-used afterwards (new opacities loaded into it for the
next run - the same kind of re-use that was repaired for Source), then

  (a) plot() of a result obtained BEFORE the change reddens the model with the
      new law, and
  (b) every result the same Fitter produces AFTER the change was fitted with
      the old law but carries (and, through FitInfoFile.write, stores) the new
      one,

so the drawn SED misses the predicted fluxes stored with the fit by far more
than the rounding of the constants.
"""
import sys, os

# ---- helpers (a small cube package, a 4-band fit, curves vs predicted fluxes) ----
import os
import tempfile
import io
import contextlib
import numpy as np
import matplotlib
matplotlib.use('Agg')
from astropy import units as u
from astropy.table import Table


def make_package(d, names, n_ap=5, n_wav=30, seed=1):
    from sedfitter.sed import SEDCube
    rng = np.random.RandomState(seed)
    cube = SEDCube()
    cube.names = np.array(names)
    n_models = len(names)
    cube.distance = 1 * u.kpc
    cube.wav = np.logspace(-1, 2.5, n_wav) * u.micron
    cube.apertures = np.logspace(1.5, 5.5, n_ap) * u.au
    cube.val = np.cumsum(0.1 + rng.random_sample((n_models, n_ap, n_wav)), axis=1) * u.mJy
    cube.unc = cube.val * 0.01
    cube.write(os.path.join(d, 'flux.fits'))
    with open(os.path.join(d, 'models.conf'), 'w') as f:
        f.write("name = test\nlength_subdir = 0\naperture_dependent = yes\nlogd_step = 0.02\nversion = 2\n")
    t = Table()
    t['MODEL_NAME'] = np.array(cube.names, dtype='S')
    t['par1'] = rng.random_sample(n_models)
    t.write(os.path.join(d, 'parameters.fits'))
    return cube


def make_fit(names=('m000', 'm001', 'm002', 'm003', 'm004', 'm005'), fluxes=(1., 2., 2.5, 3.)):
    """Returns (fitter, info, extinction law): a 4-band fit at tabulated wavelengths."""
    from sedfitter.extinction import Extinction
    from sedfitter.fit import Fitter
    from sedfitter.source import Source
    d = tempfile.mkdtemp()
    cube = make_package(d, list(names))
    cw = np.sort(cube.wav.to(u.micron))
    filters = [cw[i] for i in (5, 12, 20, 25)]
    law = Extinction()
    law.wav = np.logspace(-2., 3., 60) * u.micron
    law.chi = law.wav.value ** -1.5 * u.cm ** 2 / u.g
    with contextlib.redirect_stdout(io.StringIO()):
        fitter = Fitter(filters, [1., 3., 3., 8.] * u.arcsec, d, extinction_law=law,
                        av_range=[0., 10.], distance_range=[0.5, 3.] * u.kpc, use_memmap=False)
    s = Source()
    s.name = 'src'
    s.x = 0.
    s.y = 0.
    s.valid = [1, 1, 1, 1]
    s.flux = list(fluxes)
    s.error = [0.1, 0.1, 0.1, 0.1]
    info = fitter.fit(s)
    return fitter, info, law


def worst_deviation(info, n_sel=3, sed_type='interp'):
    """Largest relative deviation |drawn / predicted - 1| over the selected fits
    and the fitted wavelengths (composite curve of the default display mode).
    The predicted flux is the one stored with the fit (log10 mJy), turned into
    nu F_nu; the rounded constants of plot.py (KPC = 3.086e21) are allowed for
    by the caller's tolerance."""
    from sedfitter.plot import plot
    figs = plot(info, select_format=('N', n_sel), sed_type=sed_type)
    segs = figs[info.source.name]['lines'].get_segments()
    wav = np.array([f['wav'].to(u.micron).value for f in info.meta.filters])
    n = min(n_sel, info.n_fits)
    assert len(segs) == n
    worst = 0.
    for k, i in enumerate(range(n - 1, -1, -1)):   # worst first, best last
        pred = 10. ** np.asarray(info.model_fluxes[i]) * 1e-26 * (299792458. / (wav * 1e-6))
        for j in range(len(wav)):
            idx = np.argmin(np.abs(np.log(segs[k][:, 0]) - np.log(wav[j])))
            worst = max(worst, abs(segs[k][idx, 1] / pred[j] - 1.))
    return worst

# ---- the test proper ----

fitter, info, law = make_fit()
assert float(info.av[0]) > 0.3, "test needs a reddened best fit"

before = worst_deviation(info)
assert before < 1e-3, "sanity: before the law is touched the curves pass through the predicted fluxes (%g)" % before

# The user re-uses the Extinction object for another law (same table, other slope)
law.chi = law.wav.value ** -0.3 * u.cm ** 2 / u.g

after_old_result = worst_deviation(info)

# a new result of the SAME fitter: fitted with the old law, labelled with the new
from sedfitter.source import Source
s = Source(); s.name = 'src2'; s.x = 0.; s.y = 0.
s.valid = [1, 1, 1, 1]; s.flux = [1., 2., 2.5, 3.]; s.error = [0.1] * 4
info2 = fitter.fit(s)
after_new_result = worst_deviation(info2)

print("deviation before: %.2e   old result after re-use: %.2e   new result after re-use: %.2e"
      % (before, after_old_result, after_new_result))

assert after_old_result < 1e-3 and after_new_result < 1e-3, (
    "C17 violated (results passed as object): after the Extinction object given to Fitter() is "
    "re-used for another law, plot() reddens the fitted models with a law they were not fitted with; "
    "the drawn curve misses the stored predicted flux by a factor %.3f (result obtained before the "
    "change) / %.3f (result obtained after it, same Fitter), A_V = %.2f"
    % (1 + after_old_result, 1 + after_new_result, float(info.av[0])))
