From Coq Require Import List Arith Lia Bool QArith Lqa.
Import ListNotations.

(* ---------- C10: the fit() driver loop ---------- *)
Section Driver.
Variables line source record : Type.
Inductive parsed := PSource (s : source) | PEof | PError.
Variable parse : line -> parsed.               (* Source.from_ascii: C20 model *)
Variable n_data : source -> nat.
Variable process : source -> record.           (* fit, strip fluxes unless requested, keep(output_format) *)
Variable nmin : nat.

(* while True: try: s = from_ascii(readline()) except EOFError: break; if s.n_data >= n_data_min: write(process s) *)
Fixpoint fit_file (lines : list line) : option (list record) :=      (* None = an exception propagates *)
  match lines with
  | [] => Some []                                (* readline() returns '' -> EOFError *)
  | l :: rest => match parse l with
                 | PEof => Some []
                 | PError => None
                 | PSource s => match fit_file rest with
                                | None => None
                                | Some recs => Some (if nmin <=? n_data s then process s :: recs else recs)
                                end
                 end
  end.

(* spec: sources parsed until the first end-of-input line *)
Fixpoint sources_until_eof (lines : list line) : option (list source) :=
  match lines with
  | [] => Some []
  | l :: rest => match parse l with
                 | PEof => Some [] | PError => None
                 | PSource s => option_map (cons s) (sources_until_eof rest)
                 end
  end.

Theorem C10_records lines :
  fit_file lines = option_map (fun ss => map process (filter (fun s => nmin <=? n_data s) ss)) (sources_until_eof lines).
Proof.
  induction lines as [|l rest IH]; simpl; [reflexivity|].
  destruct (parse l); try reflexivity. rewrite IH.
  destruct (sources_until_eof rest) as [ss|]; simpl; [|reflexivity].
  destruct (nmin <=? n_data s); reflexivity.
Qed.
End Driver.

(* ---------- np.argmin over the distance axis ---------- *)
Open Scope Q_scope.
Fixpoint argmin_from (best : nat) (bv : Q) (i : nat) (l : list Q) : nat :=
  match l with [] => best | x :: r => if Qlt_le_dec x bv then argmin_from i x (S i) r else argmin_from best bv (S i) r end.
Definition argmin (l : list Q) : nat := match l with [] => 0%nat | x :: r => argmin_from 0 x 1 r end.

Lemma argmin_from_spec l : forall best bv i d, (best < i)%nat ->
  let k := argmin_from best bv i l in
  (k = best /\ (forall x, In x l -> bv <= x)) \/
  ((i <= k < i + length l)%nat /\ nth (k - i) l d < bv /\ forall x, In x l -> nth (k - i) l d <= x).
Proof.
  induction l as [|x r IH]; intros best bv i d Hb; simpl.
  - left. split; [reflexivity|intros ? []].
  - destruct (Qlt_le_dec x bv) as [L|G].
    + destruct (IH i x (S i) d ltac:(lia)) as [[E H]|[Hk [Hlt H]]].
      * right. rewrite E. replace (i - i)%nat with 0%nat by lia. simpl. split; [lia|]. split; [exact L|].
        intros y [<-|Hy]; [lra|now apply H].
      * right. set (k := argmin_from i x (S i) r) in *. split; [lia|].
        destruct (k - i)%nat as [|j] eqn:Ej; [lia|]. replace (k - S i)%nat with j in * by lia. simpl.
        split; [lra|]. intros y [<-|Hy]; [lra|now apply H].
    + destruct (IH best bv (S i) d ltac:(lia)) as [[E H]|[Hk [Hlt H]]].
      * left. split; [exact E|]. intros y [<-|Hy]; [exact G|now apply H].
      * right. set (k := argmin_from best bv (S i) r) in *. split; [lia|].
        destruct (k - i)%nat as [|j] eqn:Ej; [lia|]. replace (k - S i)%nat with j in * by lia. simpl.
        split; [exact Hlt|]. intros y [<-|Hy]; [lra|now apply H].
Qed.

Theorem C02_min l d : l <> [] -> (argmin l < length l)%nat /\ forall x, In x l -> nth (argmin l) l d <= x.
Proof.
  destruct l as [|x r]; [congruence|]. intros _. unfold argmin.
  destruct (argmin_from_spec r 0%nat x 1%nat d ltac:(lia)) as [[E H]|[Hk [Hlt H]]]; cbv zeta in *.
  - rewrite E. simpl. split; [lia|]. intros y [<-|Hy]; [lra|now apply H].
  - set (k := argmin_from 0 x 1 r) in *. simpl length. split; [lia|].
    destruct k as [|j]; [lia|]. simpl. replace (S j - 1)%nat with j in * by lia.
    intros y [<-|Hy]; [lra|now apply H].
Qed.
Print Assumptions C10_records.
Print Assumptions C02_min.
