#!/bin/bash
# eval_seed.sh <src seed_out dir> <seed id, e.g. C06_a> <property> [more properties...]
# 1. copies patch.diff / demo.py / meta.json to /verif/seeded/<id>/ ; 2. confirms in a fresh scratch worktree that the demo passes
# without the patch and fails with it and that the test suite still passes with it; 3. runs the named checks against the patched copy.
set -u
SRC=$1; ID=$2; shift 2
DST=/verif/seeded/$ID
mkdir -p "$DST"
[ "$(realpath "$SRC")" = "$(realpath "$DST")" ] || cp "$SRC/patch.diff" "$SRC/demo.py" "$SRC/meta.json" "$DST/" || exit 2
D=$(mktemp -d /tmp/sedseed.XXXXXX)
git -C /repo worktree add --detach "$D" HEAD >/dev/null 2>&1 || { echo "worktree failed"; exit 2; }
run_demo() { ( cd "$D" && mkdir -p seed_out && cp "$DST/demo.py" seed_out/demo.py && PYTHONPATH="$D" PYTHONDONTWRITEBYTECODE=1 timeout 300 /venv/bin/python -W ignore seed_out/demo.py >$D.demo.out 2>&1; echo $? ); }
sed -i "s|/tmp/seed[0-9]*_[A-Za-z0-9]*|$D|g" "$DST/demo.py" 2>/dev/null   # demos that hard-code their worktree path
rc0=$(run_demo)
( cd "$D" && git apply "$DST/patch.diff" ) || { echo "patch does not apply"; git -C /repo worktree remove --force "$D"; exit 2; }
rc1=$(run_demo); tail -3 $D.demo.out | cut -c1-300 > $D.demo.tail
tests=$( cd "$D" && PYTHONPATH="$D" timeout 1500 /venv/bin/python -m pytest -q -p no:cacheprovider --timeout=900 sedfitter 2>&1 | grep -E "passed|failed" | tail -1 )
sed -i "s|$D|<worktree>|g" "$DST/demo.py"
echo "demo without patch: rc=$rc0   with patch: rc=$rc1   tests with patch: $tests"
res=""
for P in "$@"; do
  out=$(VERIF_REPO="$D" /verif/check "$P" quick 2>&1 | grep -E "^VIOLATION|^$P quick" | cut -c1-160)
  echo "$out"
  if echo "$out" | grep -q "^VIOLATION"; then
    if echo "$out" | grep -q "no-failing-input-found"; then res="$res $P:not-shown"; else res="$res $P:VIOLATION"; fi
  else res="$res $P:quiet"; fi
done
git -C /repo worktree remove --force "$D"; rm -rf "$D" "$D.demo.out" "$D.demo.tail"
python3 - "$DST/meta.json" "$rc0" "$rc1" "$tests" "$res" <<'PY'
import json, sys
p, rc0, rc1, tests, res = sys.argv[1:6]
try:
    m = json.load(open(p))
except Exception:
    m = {}
m['confirmed'] = dict(demo_rc_without_patch=int(rc0), demo_rc_with_patch=int(rc1), test_suite_with_patch=tests,
                      how='selftest/eval_seed.sh: fresh scratch worktree of /repo HEAD; demo run before and after git apply; pytest sedfitter with the patch')
m['checks_run'] = {x.split(':')[0]: x.split(':')[1] for x in res.split()}
json.dump(m, open(p, 'w'), indent=1)
print(m['checks_run'])
PY
