"""
C02 - "trial distances form a log-uniform grid that includes both ends of the
requested range with the FEWEST points whose spacing does not exceed the
package's log-distance step ... all distance ranges ... any log-distance step".

The number of trial distances is computed as
    ceil(1 + (log10(dmax) - log10(dmin)) / logd_step)
i.e. from the DIFFERENCE OF TWO ROUNDED LOGARITHMS.  For a range that spans
exactly one decade (dmax = 10 * dmin, all numbers exactly representable) that
difference comes out as 1.0000000000000002 for many dmin (30, 40, 80 kpc;
90 pc; 6 or 9 Mpc; 13, 14, 17, 23 kpc ...), so that with logd_step = 0.1 the
grid gets 12 points with a spacing of 1/11 = 0.0909 dex where 11 points with a
spacing of exactly 0.1 dex (<= the step) are the fewest that satisfy the
statement; with logd_step = 0.5 it gets 4 points instead of 3.  Every interior
trial distance - and with it the reported scale of every source - differs from
the grid the statement describes.  (np.log10(dmax / dmin) is exactly 1 for the
ranges given in kpc and Mpc; for [90, 900] pc the conversion to kpc adds its own
rounding, the range as requested is exactly one decade all the same.)  The same happens in both package formats; the range
[2, 20] kpc, for which the two logarithms happen to differ by exactly 1, gets
the 11 points.
"""
import io
import os
import sys
import tempfile
import contextlib
from fractions import Fraction

import numpy as np
from astropy import units as u
from astropy.table import Table

from sedfitter import Fitter
from sedfitter.extinction import Extinction
from sedfitter.convolved_fluxes import ConvolvedFluxes
from sedfitter.sed import SEDCube


def make_package(version, logd_step):
    rng = np.random.default_rng(11)
    d = tempfile.mkdtemp(prefix='hunt5_T2_C02_')
    os.mkdir(os.path.join(d, 'convolved'))
    names = np.array(['m_%02d' % i for i in range(3)])
    ap = np.array([1., 30., 2000., 1e5, 1e9])
    for j, w in enumerate([0.55, 2.2]):
        val = np.cumsum(rng.uniform(0.5, 2., (3, 5)), axis=1)
        c = ConvolvedFluxes(wavelength=w * u.micron, model_names=names, apertures=ap * u.au,
                            flux=val * u.mJy, error=0.01 * val * u.mJy)
        c.write(os.path.join(d, 'convolved', 'F%d.fits' % j))
    with open(os.path.join(d, 'models.conf'), 'w') as f:
        f.write("name = test\nlength_subdir = 0\naperture_dependent = yes\nlogd_step = %s\n" % logd_step)
        if version == 2:
            f.write("version = 2\n")
    t = Table()
    t['MODEL_NAME'] = np.array(names, dtype='S')
    t['par1'] = rng.uniform(size=3)
    t.write(os.path.join(d, 'parameters.fits'))
    if version == 2:
        cube = SEDCube()
        cube.names = names
        cube.distance = 1 * u.kpc
        cube.wav = np.array([0.3, 1., 10., 100.]) * u.micron
        cube.val = np.ones((3, 1, 4)) * u.mJy
        cube.unc = cube.val * 0.1
        cube.write(os.path.join(d, 'flux.fits'))
    return d


law = Extinction()
law.wav = np.array([0.1, 0.3, 0.55, 1.0, 2.2, 5.]) * u.micron
law.chi = np.array([900., 400., 220., 90., 30., 12.]) * u.cm ** 2 / u.g

failures = []

for version in (1, 2):
    for logd_step in ('0.1', '0.5'):
        model_dir = make_package(version, logd_step)
        step = Fraction(float(logd_step))          # the step as the package states it (exact value of the double)
        for dr in ([2., 20.] * u.kpc, [30., 300.] * u.kpc, [90., 900.] * u.pc, [6., 60.] * u.Mpc):
            # the range as given is exactly one decade: the log-distance span is 1
            assert Fraction(float(dr.value[1])) == 10 * Fraction(float(dr.value[0])), dr
            # fewest number of points n with spacing 1 / (n - 1) <= step
            n_expected = 2
            while Fraction(1, n_expected - 1) > step:
                n_expected += 1
            with contextlib.redirect_stdout(io.StringIO()):
                fitter = Fitter(['F0', 'F1'], [1., 1.] * u.arcsec, model_dir, extinction_law=law,
                                av_range=[0., 5.], distance_range=dr, use_memmap=False)
            n = len(fitter.models.distances)
            spacing = np.diff(np.log10(fitter.models.distances.to(u.kpc).value))
            if n != n_expected:
                failures.append("format %i, logd_step = %s, distance_range = %s: %i trial distances (spacing %.4f dex) "
                                "but %i points (spacing %.4f dex <= step) are the fewest that cover the range"
                                % (version, logd_step, dr, n, spacing[0], n_expected, 1. / (n_expected - 1)))

if failures:
    print("C02 VIOLATED: the distance grid does not have the fewest points allowed by the log-distance step")
    for f in failures:
        print(" -", f)
    sys.exit(1)
print("no violation")
