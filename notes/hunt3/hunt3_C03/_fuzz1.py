import sys, itertools
sys.path.insert(0, '/tmp/hunt3_C03/hunt_out')
from _common import *
from sedfitter.fit import Fitter
rng = np.random.default_rng(1)
nm, nf = 12, 5
names = ['m%03d' % i for i in range(nm)]
wavs = [0.5, 1.2, 3.6, 8.0, 24.]
fn = ['f%d' % i for i in range(nf)]
aps = np.logspace(1, 6, 8) * u.au
fl_ind = 10 ** rng.uniform(-1, 2, (nm, 1, nf))
fl_dep = np.cumsum(10 ** rng.uniform(-1, 1, (nm, 8, nf)), axis=1)
d1 = write_v1(names, fl_ind, wavs, fn)
d2 = write_v1(names, fl_dep, wavs, fn, apertures=aps)
ext = extinction()
F1 = quiet(Fitter, fn, [3.] * nf * u.arcsec, d1, extinction_law=ext, av_range=[0., 10.])
F2 = quiet(Fitter, fn, [3.] * nf * u.arcsec, d2, extinction_law=ext, av_range=[0., 10.], distance_range=[0.5, 3.] * u.kpc)
F3 = quiet(Fitter, fn, [3.] * nf * u.arcsec, d2, extinction_law=ext, av_range=[0., 10.], distance_range=[0.5, 3.] * u.kpc, remove_resolved=True)

def same(a, b, tol=1e-10):
    da, db = result_dict(a), result_dict(b)
    assert set(da) == set(db)
    for k in da:
        for x, y in zip(da[k], db[k]):
            if not (x == y or abs(x - y) <= tol * max(1, abs(x), abs(y)) or (np.isnan(x) and np.isnan(y))):
                return False, (k, da[k], db[k])
    return True, None

bad = 0
for n in range(1, 6):
    for flags in itertools.product([0, 1, 2, 3, 4, 9], repeat=n):
        flags = np.array(flags)
        if np.sum((flags == 1) | (flags == 4)) < 2:
            continue
        # embed in 5 filters: pad with zeros
        full = np.zeros(nf, dtype=int); full[:n] = flags
        perm = rng.permutation(nf); full = full[perm]
        flux = 10 ** rng.uniform(-1, 2, nf); err = flux * rng.uniform(0.02, 0.3, nf)
        lim = (full == 2) | (full == 3)
        err[lim] = rng.choice([0., 1., rng.uniform(0.01, 0.99)], size=lim.sum())
        f4 = full == 4
        lf = np.log10(flux) - 0.5 * (err / flux) ** 2 / np.log(10); le = np.abs(err / flux) / np.log(10)
        fluxA = flux.copy(); errA = err.copy()
        fluxA[f4] = lf[f4]; errA[f4] = le[f4]
        sA = mksource(full, fluxA, errA)
        # all flag-4 -> flag 1 equivalent
        fullB = full.copy(); fullB[f4] = 1
        sB = mksource(fullB, flux, err)
        # junk in 0/9
        un = (full == 0) | (full == 9)
        fluxC = fluxA.copy(); errC = errA.copy()
        fluxC[un] = rng.choice([np.nan, -999., 0., np.inf, -np.inf, 1e300], size=un.sum())
        errC[un] = rng.choice([np.nan, -999., 0., np.inf, 1e-300], size=un.sum())
        sC = mksource(full, fluxC, errC)
        # conf 0 -> flag 0
        fullD = full.copy(); fullD[lim & (err == 0)] = 0
        sD = mksource(fullD, fluxA, errA)
        for F in (F1, F2, F3):
            rA = F.fit(sA); rB = F.fit(sB); rC = F.fit(sC); rD = F.fit(sD)
            for lab, r in (('4vs1', rB), ('junk', rC), ('conf0', rD)):
                ok, why = same(rA, r)
                if not ok:
                    bad += 1
                    if bad < 20:
                        print("DIFF", lab, full, err, why, F is F1, F is F2)
            # check chi2 decomposition
            for F_ in [F]:
                pass
print("bad", bad)
