(* C15 — flux unit conversions are mutually consistent and invertible.
   Model: Misc.convert (sed.helpers.convert_flux: to erg/cm^2/s by family, then to the target family; a unit = family +
   exact rational scale factor).  Proofs: Misc (field). *)
From Coq Require Import QArith.
From SedV Require Import Misc.
Open Scope Q_scope.

(* F(erg/cm^2/s) = nu * F_nu and L = F * d^2 *)
Theorem C15_relations : forall nu d x, ~ nu == 0 -> ~ d == 0 ->
  convert Fnu 1 Fint 1 nu d x == nu * x /\ convert Fint 1 Lum 1 nu d x == x * (d * d).
Proof. exact Misc.C15_relations. Qed.

(* A -> B -> A is the identity *)
Theorem C15_roundtrip : forall fa ka fb kb nu d x, ~ ka == 0 -> ~ kb == 0 -> ~ nu == 0 -> ~ d == 0 ->
  convert fb kb fa ka nu d (convert fa ka fb kb nu d x) == x.
Proof. exact Misc.C15_roundtrip. Qed.

(* A -> B -> C equals A -> C *)
Theorem C15_compose : forall fa ka fb kb fc kc nu d x, ~ ka == 0 -> ~ kb == 0 -> ~ kc == 0 -> ~ nu == 0 -> ~ d == 0 ->
  convert fb kb fc kc nu d (convert fa ka fb kb nu d x) == convert fa ka fc kc nu d x.
Proof. exact Misc.C15_compose. Qed.

Example C15_example : convert Fnu (1#1000) Lum 1 2 3 5 == 5 * (1#1000) * 2 * (3 * 3).
Proof. vm_compute. reflexivity. Qed.
