(* C19 — a fit output file cut short by a crash never yields a wrong record.
   Model: Frame.scan (framing model of a pickle stream: opcode classes Fixed n / LenPre w / Line2 / Stop), Reader.read_all
   (the iteration of FitInfoFile), StreamM.reader_m (three header pickles, then records).
   That CPython's unpickler never returns a value before STOP and reports an incomplete pickle as an error is pickle's
   contract: assumed, and exercised at every truncation offset by the correspondence run. *)
From Coq Require Import List Arith.
Import ListNotations.
From SedV Require Import Frame Reader StreamM ReaderProofs.

(* every proper prefix of one pickle is reported as truncated: no value is produced from an incomplete pickle *)
Theorem C19_prefix_free : forall classify stopb ops, Forall (wf_inst classify) ops -> forall k fuel,
  k < length (enc stopb ops) -> scan classify fuel (firstn k (enc stopb ops)) = Truncated.
Proof. exact Frame.C19_prefix_free. Qed.

(* a complete pickle is consumed exactly, whatever follows it *)
Theorem C19_complete : forall classify stopb, classify stopb = Some Stop ->
  forall ops, Forall (wf_inst classify) ops -> forall rest fuel,
  length ops < fuel -> scan classify fuel (enc stopb ops ++ rest) = Complete rest.
Proof. exact scan_complete. Qed.

(* cutting a file anywhere: the reader yields exactly the pickles that lie wholly before the cut, then stops (end of file
   at a boundary, a truncation error inside a pickle); it never yields anything else *)
Theorem C19_truncation : forall classify stopb, classify stopb = Some Stop ->
  forall frames, Forall (Forall (wf_inst classify)) frames -> forall k fuel, length frames < fuel ->
  read_all classify fuel (firstn k (file stopb frames)) =
  (map (enc stopb) (firstn (prefix_count (map (fun f => length (enc stopb f)) frames) k) frames),
   cut_status (map (fun f => length (enc stopb f)) frames) k).
Proof. exact C19_truncation_exact. Qed.

(* with the three header pickles in front: the records yielded are an exact prefix of the records written *)
Theorem C19_records_prefix : forall (A : Type) (h1 h2 h3 : A) (recs : list A) m, 3 <= m ->
  skipn 3 (firstn m (h1 :: h2 :: h3 :: recs)) = firstn (m - 3) recs.
Proof. exact @reader_prefix. Qed.

Theorem C19_count_bounded : forall lens k, prefix_count lens k <= length lens.
Proof. exact prefix_count_le. Qed.

(* the count is exactly the number of leading pickles that lie entirely before the cut: they fit, and one more would not *)
Theorem C19_count_exact : forall lens k,
  list_sum (firstn (prefix_count lens k) lens) <= k /\
  (prefix_count lens k < length lens -> k < list_sum (firstn (S (prefix_count lens k)) lens)).
Proof. exact prefix_count_spec. Qed.

(* a later cut never yields fewer records, and a file that opens at one cut opens at every later one *)
Theorem C19_monotone : forall lens k k' n, k <= k' -> reader_m lens k = Some n ->
  exists n', reader_m lens k' = Some n' /\ n <= n'.
Proof. exact reader_mono. Qed.

(* the uncut file (three header pickles and the records) yields every record *)
Theorem C19_uncut : forall lens k, 3 <= length lens -> list_sum lens <= k -> reader_m lens k = Some (length lens - 3).
Proof. exact reader_full. Qed.

Example C19_example : reader_m [10; 20; 30; 100; 120] 175 = Some 1 /\ reader_m [10; 20; 30; 100; 120] 59 = None
                      /\ cut_status [10; 20; 30; 100; 120] 160 = Eof /\ cut_status [10; 20; 30; 100; 120] 175 = Trunc.
Proof. repeat split. Qed.
