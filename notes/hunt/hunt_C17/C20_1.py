"""C20 violation: a flag vector held as floats is accepted by the valid setter (which
explicitly tests value.astype(int) == value, i.e. it is meant to accept integral floats),
is used happily by n_data / get_log_fluxes / to_dict / pickle, but Source.to_ascii() formats
every flag with '{0:1d}' and raises ValueError for a float -> the source cannot be formatted,
so the format/parse round trip promised by C20 does not exist for it."""
import pickle
import numpy as np
from sedfitter.source import Source

s = Source()
s.name = 'src_1'
s.x = 10.5
s.y = -3.25
s.valid = [1., 0., 9., 4.]          # e.g. flags read from a float table column; all in {0,1,2,3,4,9}
s.flux = [1.5, -999., 2.5e-3, 0.3]
s.error = [0.1, -999., 1e-4, 0.02]

# the object is a perfectly valid Source for everything else
assert s.n_wav == 4 and s.n_data == 2
assert Source.from_dict(s.to_dict()) == s
assert pickle.loads(pickle.dumps(s)) == s
s.get_log_fluxes()

try:
    line = s.to_ascii()
except ValueError as e:
    raise AssertionError("C20 'formatting a source and parsing it back preserves name, flags and every value' fails: "
                         "Source.valid = [1., 0., 9., 4.] is accepted by the setter but to_ascii() raises ValueError(%s)" % e)
s2 = Source.from_ascii(line)
assert s2.name == s.name and np.all(s2.valid == s.valid)
