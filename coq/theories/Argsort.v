From Coq Require Import List Arith Lia Permutation Sorted Bool ZArith.
Import ListNotations.

Section Argsort.
Variable A : Type.
Variable leb : A -> A -> bool.
Variable d : A.

Definition gather (l : list A) (idx : list nat) : list A := map (fun i => nth i l d) idx.

(* insertion sort of indices by key, stable *)
Fixpoint ins (k : nat -> A) (i : nat) (l : list nat) : list nat :=
  match l with
  | [] => [i]
  | j :: r => if leb (k j) (k i) then j :: ins k i r else i :: j :: r
  end.
Fixpoint isort (k : nat -> A) (l : list nat) : list nat :=
  match l with [] => [] | i :: r => ins k i (isort k r) end.
(* process indices from the right so that equal keys keep index order *)
Definition argsort (l : list A) : list nat := isort (fun i => nth i l d) (seq 0 (length l)).

Lemma ins_perm k i l : Permutation (ins k i l) (i :: l).
Proof. induction l as [|j r IH]; simpl; [reflexivity|].
  destruct (leb (k j) (k i)); [|reflexivity].
  rewrite IH. apply perm_swap. Qed.
Lemma isort_perm k l : Permutation (isort k l) l.
Proof. induction l as [|i r IH]; simpl; [reflexivity|]. rewrite ins_perm. now constructor. Qed.
Lemma argsort_perm l : Permutation (argsort l) (seq 0 (length l)).
Proof. apply isort_perm. Qed.

Lemma gather_gather l p q : (forall i, In i q -> i < length p) ->
  gather (gather l p) q = gather l (map (fun i => nth i p 0) q).
Proof.
  intros H. unfold gather. rewrite map_map. apply map_ext_in. intros i Hi.
  specialize (H i Hi).
  transitivity (nth i (map (fun i0 => nth i0 l d) p) ((fun i0 => nth i0 l d) 0)).
  - apply nth_indep. rewrite map_length; exact H.
  - apply (map_nth (fun i0 => nth i0 l d)).
Qed.
End Argsort.

(* sorted permutation of seq 0 n is seq 0 n *)
Lemma sorted_perm_unique (l1 l2 : list nat) :
  StronglySorted lt l1 -> StronglySorted lt l2 -> Permutation l1 l2 -> l1 = l2.
Proof.
  revert l2. induction l1 as [|a r IH]; intros l2 S1 S2 P.
  - now apply Permutation_nil in P.
  - destruct l2 as [|b r2]; [apply Permutation_sym, Permutation_nil in P; discriminate|].
    inversion S1 as [|? ? S1r F1]; inversion S2 as [|? ? S2r F2]; subst.
    assert (a = b).
    { assert (Ha : In a (b :: r2)) by (eapply Permutation_in; [exact P|now left]).
      assert (Hb : In b (a :: r)) by (eapply Permutation_in; [apply Permutation_sym; exact P|now left]).
      destruct Ha as [->|Ha]; [reflexivity|]. destruct Hb as [->|Hb]; [reflexivity|].
      rewrite Forall_forall in F1, F2. specialize (F1 _ Hb). specialize (F2 _ Ha). lia. }
    subst b. f_equal. apply IH; auto. now apply Permutation_cons_inv in P.
Qed.

Lemma seq_ssorted s n : StronglySorted lt (seq s n).
Proof. revert s; induction n as [|n IH]; intros s; simpl; constructor; [apply IH|].
  apply Forall_forall. intros x Hx. apply in_seq in Hx. lia. Qed.

(* ---- specialised to nat keys: argsort of a permutation is its inverse ---- *)
Section NatKeys.
Definition gathern := gather nat 0.
Definition argsortn := argsort nat Nat.leb 0.

Lemma ins_sorted k i l :
  StronglySorted (fun a b => k a <= k b) l -> StronglySorted (fun a b => k a <= k b) (ins nat Nat.leb k i l).
Proof.
  induction 1 as [|j r S IH F]; simpl.
  - constructor; constructor.
  - destruct (Nat.leb (k j) (k i)) eqn:E.
    + apply Nat.leb_le in E. constructor; [exact IH|].
      apply Forall_forall. intros x Hx.
      eapply Permutation_in in Hx; [|apply ins_perm].
      destruct Hx as [<-|Hx]; [exact E|]. rewrite Forall_forall in F. now apply F.
    + apply Nat.leb_gt in E. constructor; [constructor; assumption|].
      constructor; [lia|]. rewrite Forall_forall in F |- *. intros x Hx. specialize (F x Hx). lia.
Qed.
Lemma isort_sorted k l : StronglySorted (fun a b => k a <= k b) (isort nat Nat.leb k l).
Proof. induction l; simpl; [constructor|now apply ins_sorted]. Qed.

Lemma gather_map_sorted (p : list nat) :
  StronglySorted (fun a b => nth a p 0 <= nth b p 0) (argsortn p).
Proof. apply isort_sorted. Qed.


Lemma map_nth_seq {A} (d : A) (l : list A) : map (fun i => nth i l d) (seq 0 (length l)) = l.
Proof.
  induction l as [|x r IH]; [reflexivity|].
  simpl. f_equal. rewrite <- seq_shift, map_map. exact IH.
Qed.

Lemma gather_perm {A} (d : A) (l : list A) idx :
  Permutation idx (seq 0 (length l)) -> Permutation (gather A d l idx) l.
Proof.
  intros P. unfold gather. rewrite (Permutation_map (fun i => nth i l d) P).
  now rewrite map_nth_seq.
Qed.

Lemma sorted_le_nodup_lt l : StronglySorted le l -> NoDup l -> StronglySorted lt l.
Proof.
  induction 1 as [|a r S IH F]; intros N; constructor.
  - apply IH. now inversion N.
  - inversion N as [|? ? Hn Hr]; subst. rewrite Forall_forall in F |- *. intros x Hx.
    specialize (F x Hx). assert (a <> x) by (intros ->; contradiction). lia.
Qed.

Lemma ssorted_map {A B} (f : A -> B) (R : B -> B -> Prop) l :
  StronglySorted (fun a b => R (f a) (f b)) l -> StronglySorted R (map f l).
Proof.
  induction 1 as [|a r S IH F]; simpl; constructor; [exact IH|].
  rewrite Forall_forall in F |- *. intros y Hy. apply in_map_iff in Hy. destruct Hy as [x [<- Hx]]. now apply F.
Qed.

(* if p is a permutation of seq 0 n then gather p (argsort p) = seq 0 n *)
Lemma gather_argsort_perm (p : list nat) n :
  Permutation p (seq 0 n) -> gathern p (argsortn p) = seq 0 n.
Proof.
  intros P.
  assert (Hlen : length p = n) by (rewrite (Permutation_length P); apply seq_length).
  assert (PG : Permutation (gathern p (argsortn p)) p).
  { apply gather_perm. apply argsort_perm. }
  apply sorted_perm_unique.
  - apply sorted_le_nodup_lt.
    + unfold gathern, gather. apply ssorted_map. apply gather_map_sorted.
    + eapply Permutation_NoDup; [apply Permutation_sym; exact PG|].
      eapply Permutation_NoDup; [apply Permutation_sym; exact P|apply seq_NoDup].
  - apply seq_ssorted.
  - now rewrite PG.
Qed.
End NatKeys.

(* the identity FitInfo.filter_table relies on:  sort(k)[argsort(argsort(k))] = k *)
Section RankOfRank.
Variable A : Type. Variable leb : A -> A -> bool. Variable d : A.
Lemma rank_of_rank (k : list A) :
  let p := argsort A leb d k in
  gather A d (gather A d k p) (argsortn p) = k.
Proof.
  intros p.
  assert (Pp : Permutation p (seq 0 (length k))) by apply argsort_perm.
  rewrite gather_gather.
  - change (map (fun i => nth i p 0) (argsortn p)) with (gathern p (argsortn p)).
    rewrite (gather_argsort_perm p (length k) Pp). unfold gather. apply map_nth_seq.
  - intros i Hi. unfold argsortn in Hi.
    assert (Hin : In i (seq 0 (length p))) by (eapply Permutation_in; [apply argsort_perm|exact Hi]).
    apply in_seq in Hin. lia.
Qed.
End RankOfRank.
Print Assumptions rank_of_rank.
