import os, sys, tempfile, numpy as np
sys.path.insert(0, os.path.dirname(__file__))
from e2e1 import write_sed
from fuzz_rebin_lib import ref_rebin
from astropy import units as u
from astropy.table import Table
from sedfitter.filter import Filter
from sedfitter.convolve import convolve_model_dir
from sedfitter.convolved_fluxes import ConvolvedFluxes
d = tempfile.mkdtemp(); os.mkdir(d + '/seds')
base = np.float32(1e14); ulp = float(np.spacing(base))
n = 40
nuA = (float(base) + np.arange(n) * 150 * ulp)
nuB = nuA + 60 * ulp
assert np.all(nuA.astype(np.float32) == nuA) and np.all(nuB.astype(np.float32) == nuB)
flux = np.where(np.arange(n) % 2 == 0, 1., 3.)[None, :]
err = 0.1 * flux
write_sed(d + '/seds/a_sed.fits', 'a', nuA, flux, err, np.array([100.]), dtype='f4')
write_sed(d + '/seds/b_sed.fits', 'b', nuB, flux, err, np.array([100.]), dtype='f4')
open(d + '/models.conf', 'w').write("name = test\nlength_subdir = 0\naperture_dependent = no\nlogd_step = 0.02\n")
t = Table(); t['MODEL_NAME'] = np.array(['a', 'b'], dtype='S30'); t['p'] = [1., 2.]; t.write(d + '/parameters.fits')
fnu = np.array([nuA[3], nuA[3] + 1, nuA[30], nuA[30] + 1])
f = Filter(name='F', central_wavelength=3 * u.micron, nu=fnu * u.Hz, response=np.array([0., 1., 1., 0.]))
f.normalize()
convolve_model_dir(d, [f])
c = ConvolvedFluxes.read(d + '/convolved/F.fits')
for row, nu in enumerate([nuA, nuB]):
    R = ref_rebin(fnu, f.response, nu)
    print(c.model_names[row], c.flux[row].value, (flux * R).sum())
