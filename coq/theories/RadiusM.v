(* RadiusM — ConvolvedFluxes.find_radius_sigma and find_radius_cumul as they are written, over exact rationals, and the
   `extended` mask Models.read derives from the first one when remove_resolved is set.

   find_radius_sigma(fraction):  sigma[0] = F[0]/a[0]^2,  sigma[j] = (F[j]-F[j-1])/(a[j]^2-a[j-1]^2);  thr = fraction*max(sigma);
     radius = 0;  for ia = n-2 .. 0:  if sigma[ia] > thr and radius == 0:  radius = (sigma[ia]-thr)/(sigma[ia]-sigma[ia+1])*(a[ia+1]-a[ia]) + a[ia];
     if sigma[n-1] > thr: radius = a[n-1].
   find_radius_cumul(fraction):  req = fraction*F[n-1];  radius = 0;  for ia = 0 .. n-2: if F[ia] <= req < F[ia+1]: radius = linear;
     if req < F[0]: radius = a[0];  if req >= F[n-1]: radius = a[n-1].

   No property states what remove_resolved should remove (DESIGN 0.2); these are theorems about what the code computes. *)
From Coq Require Import QArith List Bool Lia Lqa.
Import ListNotations.
Open Scope Q_scope.

(* ---------- surface-brightness radius ---------- *)

Fixpoint sigma_rest (a0 f0 : Q) (aps fl : list Q) : list Q :=
  match aps, fl with
  | a1 :: ar, f1 :: fr => ((f1 - f0) / (a1 * a1 - a0 * a0)) :: sigma_rest a1 f1 ar fr
  | _, _ => []
  end.

Definition sigma_m (aps fl : list Q) : list Q :=
  match aps, fl with
  | a0 :: ar, f0 :: fr => (f0 / (a0 * a0)) :: sigma_rest a0 f0 ar fr
  | _, _ => []
  end.

Fixpoint qmax_l (m : Q) (l : list Q) : Q :=
  match l with [] => m | x :: r => qmax_l (if Qlt_le_dec m x then x else m) r end.

Definition qmax (l : list Q) : Q := match l with [] => 0 | x :: r => qmax_l x r end.

Definition cross (thr a a' s s' : Q) : Q := (s - thr) / (s - s') * (a' - a) + a.

(* the backwards loop: the value of `radius` once the indices from the end of the list down to this position were visited *)
Fixpoint scan (thr : Q) (aps sg : list Q) : Q :=
  match aps, sg with
  | a :: ((a' :: _) as ar), s :: ((s' :: _) as sr) =>
      let r := scan thr ar sr in
      if Qlt_le_dec thr s then (if Qeq_bool r 0 then cross thr a a' s s' else r) else r
  | _, _ => 0
  end.

Definition radius_thr (thr : Q) (aps sg : list Q) : Q :=
  if Qlt_le_dec thr (last sg 0) then last aps 0 else scan thr aps sg.

Definition radius_sigma_m (frac : Q) (aps fl : list Q) : Q :=
  let sg := sigma_m aps fl in radius_thr (frac * qmax sg) aps sg.

(* Models.read: extended[m, i, band] = apertures_au[i] < radius *)
Definition ext_mask (aps : list Q) (radius : Q) : list bool :=
  map (fun a => if Qlt_le_dec a radius then true else false) aps.

(* ---------- radius containing a fraction of the flux ---------- *)

Fixpoint cumul_scan (req : Q) (aps fl : list Q) (r : Q) : Q :=
  match aps, fl with
  | a :: ((a' :: _) as ar), f :: ((f' :: _) as fr) =>
      cumul_scan req ar fr (if Qlt_le_dec req f then r else if Qlt_le_dec req f' then (req - f) / (f' - f) * (a' - a) + a else r)
  | _, _ => r
  end.

Definition radius_cumul_m (frac : Q) (aps fl : list Q) : Q :=
  let req := frac * last fl 0 in
  let r := cumul_scan req aps fl 0 in
  let r := if Qlt_le_dec req (hd 0 fl) then hd 0 aps else r in
  if Qlt_le_dec req (last fl 0) then r else last aps 0.

(* ---------- what the loop finds ---------- *)

Inductive increasing : list Q -> Prop :=
| inc_nil : increasing []
| inc_one a : increasing [a]
| inc_cons a a' r : a < a' -> increasing (a' :: r) -> increasing (a :: a' :: r).

(* `crossing thr aps sg a a' s s'`: (a, s), (a', s') are neighbours in the two lists, s is above the threshold and nothing after it is *)
Inductive crossing (thr : Q) : list Q -> list Q -> Q -> Q -> Q -> Q -> Prop :=
| cross_here a a' ar s s' sr : thr < s -> Forall (fun x => x <= thr) (s' :: sr) ->
    crossing thr (a :: a' :: ar) (s :: s' :: sr) a a' s s'
| cross_later a0 ar s0 sr a a' s s' : crossing thr ar sr a a' s s' -> crossing thr (a0 :: ar) (s0 :: sr) a a' s s'.

Lemma cross_bounds thr a a' s s' : thr < s -> s' <= thr -> a < a' -> a < cross thr a a' s s' /\ cross thr a a' s s' <= a'.
Proof.
  intros H1 H2 H3. unfold cross.
  set (f := (s - thr) / (s - s')).
  assert (D : ~ s - s' == 0) by lra.
  assert (E : f * (s - s') == s - thr) by (unfold f; field; exact D).
  assert (F0 : 0 < f).
  { destruct (Qlt_le_dec 0 f) as [L|L]; [exact L|]. exfalso. nra. }
  assert (F1 : f <= 1).
  { destruct (Qlt_le_dec 1 f) as [L|L]; [|exact L]. exfalso. nra. }
  split; nra.
Qed.

Lemma crossing_in_aps thr aps sg a a' s s' : crossing thr aps sg a a' s s' -> In a aps /\ In a' aps.
Proof. induction 1 as [| ? ? ? ? ? ? ? ? ? IH]; [split; simpl; auto|]. destruct IH; split; right; assumption. Qed.

Lemma increasing_tail a r : increasing (a :: r) -> increasing r.
Proof. inversion 1; subst; [constructor|assumption]. Qed.

Lemma increasing_lt_hd a r x : increasing (a :: r) -> In x r -> a < x.
Proof.
  revert a. induction r as [|b r IH]; intros a H I; [destruct I|].
  inversion H as [| |? ? ? L T]; subst. destruct I as [<-|I]; [exact L|]. specialize (IH b T I). lra.
Qed.

Lemma crossing_adjacent thr aps sg a a' s s' : increasing aps -> crossing thr aps sg a a' s s' -> a < a'.
Proof.
  intros I C. induction C as [? ? ? ? ? ? ? ?|? ? ? ? ? ? ? ? ? IH].
  - inversion I; subst; assumption.
  - apply IH. eapply increasing_tail; exact I.
Qed.

Lemma crossing_below thr aps sg a a' s s' : crossing thr aps sg a a' s s' -> thr < s /\ s' <= thr.
Proof. induction 1 as [? ? ? ? ? ? L F|]; [|assumption]. split; [exact L|]. now inversion F. Qed.

(* the backwards loop finds the outermost crossing of the threshold, or nothing at all *)
Theorem scan_spec thr aps sg : increasing aps -> (forall a, In a aps -> 0 < a) -> length sg = length aps -> last sg 0 <= thr ->
  (Forall (fun x => x <= thr) sg /\ scan thr aps sg = 0) \/
  (exists a a' s s', crossing thr aps sg a a' s s' /\ scan thr aps sg = cross thr a a' s s').
Proof.
  revert sg. induction aps as [|a ar IH]; intros sg I P L La.
  - destruct sg; [|discriminate]. left. split; [constructor|reflexivity].
  - destruct sg as [|s sr]; [discriminate|].
    destruct ar as [|a' ar'].
    + destruct sr; [|discriminate]. simpl in La. left. split; [repeat constructor; exact La|reflexivity].
    + destruct sr as [|s' sr']; [discriminate|].
      assert (La' : last (s' :: sr') 0 <= thr) by exact La.
      assert (L' : length (s' :: sr') = length (a' :: ar')) by (simpl in *; lia).
      specialize (IH (s' :: sr') (increasing_tail _ _ I) (fun x Hx => P x (or_intror Hx)) L' La').
      change (scan thr (a :: a' :: ar') (s :: s' :: sr')) with
        (let r := scan thr (a' :: ar') (s' :: sr') in if Qlt_le_dec thr s then (if Qeq_bool r 0 then cross thr a a' s s' else r) else r).
      cbv zeta.
      destruct IH as [[F E]|(xa & xa' & xs & xs' & C & E)].
      * rewrite E. destruct (Qlt_le_dec thr s) as [Hs|Hs].
        -- right. exists a, a', s, s'. split; [constructor; assumption|reflexivity].
        -- left. split; [constructor; assumption|reflexivity].
      * assert (R : ~ scan thr (a' :: ar') (s' :: sr') == 0).
        { rewrite E. destruct (crossing_below _ _ _ _ _ _ _ C) as [B1 B2].
          pose proof (crossing_adjacent _ _ _ _ _ _ _ (increasing_tail _ _ I) C) as Adj.
          destruct (cross_bounds thr xa xa' xs xs' B1 B2 Adj) as [Lo _].
          destruct (crossing_in_aps _ _ _ _ _ _ _ C) as [Ia _].
          pose proof (P xa (or_intror Ia)). lra. }
        assert (Rb : Qeq_bool (scan thr (a' :: ar') (s' :: sr')) 0 = false).
        { destruct (Qeq_bool _ 0) eqn:Q; [|reflexivity]. apply Qeq_bool_eq in Q. contradiction. }
        rewrite Rb. right. exists xa, xa', xs, xs'. split; [constructor; exact C|].
        destruct (Qlt_le_dec thr s); exact E.
Qed.

(* ---------- the radius ---------- *)

Lemma last_in (l : list Q) d : l <> [] -> In (last l d) l.
Proof.
  induction l as [|x r IH]; [congruence|]. intros _. destruct r as [|y r']; [left; reflexivity|].
  right. apply IH. discriminate.
Qed.

Lemma increasing_le_last a r : increasing (a :: r) -> a <= last (a :: r) 0.
Proof.
  intro I. destruct r as [|b r']; [simpl; lra|].
  assert (In (last (a :: b :: r') 0) (b :: r')) by (change (last (a :: b :: r') 0) with (last (b :: r') 0); apply last_in; discriminate).
  pose proof (increasing_lt_hd a (b :: r') _ I H). lra.
Qed.

Lemma crossing_le_last thr aps sg a a' s s' : increasing aps -> crossing thr aps sg a a' s s' -> a' <= last aps 0.
Proof.
  intros I C. induction C as [a a' ar s s' sr ? ?|a0 ar s0 sr a a' s s' C IH].
  - change (last (a :: a' :: ar) 0) with (last (a' :: ar) 0). apply increasing_le_last. eapply increasing_tail; exact I.
  - specialize (IH (increasing_tail _ _ I)). destruct ar as [|x ar']; [inversion C|]. exact IH.
Qed.

Lemma crossing_ge_hd thr aps sg a a' s s' : increasing aps -> crossing thr aps sg a a' s s' -> hd 0 aps <= a.
Proof.
  intros I C. induction C as [a a' ar s s' sr ? ?|a0 ar s0 sr a a' s s' C IH].
  - simpl. lra.
  - specialize (IH (increasing_tail _ _ I)). simpl. destruct (crossing_in_aps _ _ _ _ _ _ _ C) as [Ia _].
    pose proof (increasing_lt_hd a0 ar a I Ia). lra.
Qed.

(* what find_radius_sigma returns for a given threshold *)
Theorem radius_thr_spec thr aps sg : increasing aps -> (forall a, In a aps -> 0 < a) -> length sg = length aps ->
  (thr < last sg 0 /\ radius_thr thr aps sg = last aps 0) \/
  (Forall (fun x => x <= thr) sg /\ radius_thr thr aps sg = 0) \/
  (exists a a' s s', crossing thr aps sg a a' s s' /\ radius_thr thr aps sg = cross thr a a' s s' /\
                     a < radius_thr thr aps sg /\ radius_thr thr aps sg <= a' /\
                     (radius_thr thr aps sg - a) * (s - s') == (s - thr) * (a' - a)).
Proof.
  intros I P L. unfold radius_thr. destruct (Qlt_le_dec thr (last sg 0)) as [H|H]; [left; split; [exact H|reflexivity]|].
  right. destruct (scan_spec thr aps sg I P L H) as [[F E]|(a & a' & s & s' & C & E)]; [left; split; assumption|].
  right. exists a, a', s, s'. rewrite E.
  destruct (crossing_below _ _ _ _ _ _ _ C) as [B1 B2].
  pose proof (crossing_adjacent _ _ _ _ _ _ _ I C) as Adj.
  destruct (cross_bounds thr a a' s s' B1 B2 Adj) as [Lo Hi].
  repeat split; try assumption. unfold cross. field. lra.
Qed.

Lemma qmax_l_ge l : forall m, m <= qmax_l m l /\ forall x, In x l -> x <= qmax_l m l.
Proof.
  induction l as [|y r IH]; intro m; [split; [simpl; lra|intros ? []]|].
  simpl. destruct (Qlt_le_dec m y) as [H|H].
  - destruct (IH y) as [A B]. split; [lra|]. intros x [<-|Hx]; [exact A|exact (B x Hx)].
  - destruct (IH m) as [A B]. split; [exact A|]. intros x [<-|Hx]; [lra|exact (B x Hx)].
Qed.

Lemma qmax_l_in l : forall m, qmax_l m l = m \/ In (qmax_l m l) l.
Proof.
  induction l as [|y r IH]; intro m; [left; reflexivity|].
  simpl. destruct (Qlt_le_dec m y).
  - destruct (IH y) as [->|H]; [right; left; reflexivity|right; right; exact H].
  - destruct (IH m) as [->|H]; [left; reflexivity|right; right; exact H].
Qed.

Lemma qmax_ge l x : In x l -> x <= qmax l.
Proof. destruct l as [|y r]; [intros []|]. intros [E|H]; unfold qmax; [subst x; exact (proj1 (qmax_l_ge r y))|exact (proj2 (qmax_l_ge r y) x H)]. Qed.

Lemma qmax_in l : l <> [] -> In (qmax l) l.
Proof. destruct l as [|y r]; [congruence|]. intros _. unfold qmax. destruct (qmax_l_in r y) as [->|H]; [left; reflexivity|right; exact H]. Qed.

(* with a fraction below one and a positive peak, the radius is never 0: it lies between the first and the last aperture *)
Theorem radius_sigma_range frac aps fl : increasing aps -> (forall a, In a aps -> 0 < a) -> length fl = length aps -> aps <> [] ->
  0 < frac -> frac < 1 -> 0 < hd 0 fl ->
  hd 0 aps <= radius_sigma_m frac aps fl /\ radius_sigma_m frac aps fl <= last aps 0.
Proof.
  intros I P L NE F0 F1 Hf. unfold radius_sigma_m.
  set (sg := sigma_m aps fl). set (thr := frac * qmax sg).
  assert (Ls : length sg = length aps).
  { unfold sg, sigma_m. destruct aps as [|a0 ar]; [congruence|]. destruct fl as [|f0 fr]; [discriminate|].
    simpl. f_equal. simpl in L. injection L as L. clear -L. revert a0 f0 fr L. induction ar as [|a1 ar IH]; intros a0 f0 fr L.
    - destruct fr; [reflexivity|discriminate].
    - destruct fr as [|f1 fr]; [discriminate|]. simpl. f_equal. apply IH. simpl in L. lia. }
  assert (S0 : 0 < hd 0 sg).
  { unfold sg, sigma_m. destruct aps as [|a0 ar]; [congruence|]. destruct fl as [|f0 fr]; [discriminate|]. simpl in *.
    pose proof (P a0 (or_introl eq_refl)) as Pa. apply Qlt_shift_div_l; nra. }
  assert (NEs : sg <> []) by (destruct sg; [destruct aps; [congruence|discriminate]|discriminate]).
  assert (M0 : 0 < qmax sg).
  { assert (In (hd 0 sg) sg) by (destruct sg; [congruence|left; reflexivity]). pose proof (qmax_ge sg _ H). lra. }
  assert (T : thr < qmax sg) by (unfold thr; nra).
  destruct (radius_thr_spec thr aps sg I P Ls) as [[_ E]|[[F _]|(a & a' & s & s' & C & _ & Lo & Hi & _)]].
  - rewrite E. split; [|lra]. destruct aps as [|a0 ar]; [congruence|]. simpl hd. apply increasing_le_last. exact I.
  - exfalso. rewrite Forall_forall in F. specialize (F _ (qmax_in sg NEs)). lra.
  - pose proof (crossing_ge_hd _ _ _ _ _ _ _ I C). pose proof (crossing_le_last _ _ _ _ _ _ _ I C). split; lra.
Qed.

(* the distances at which a model counts as resolved form an initial segment of the distance grid *)
Theorem ext_mask_initial aps radius i j : increasing aps -> (i <= j)%nat -> nth j (ext_mask aps radius) false = true ->
  nth i (ext_mask aps radius) false = true.
Proof.
  intros I. revert i j. induction aps as [|a r IH]; intros i j Hij H; [destruct j; discriminate|].
  destruct j as [|j].
  - assert (i = 0)%nat by lia. subst. exact H.
  - destruct i as [|i].
    + simpl in *. destruct (Qlt_le_dec a radius) as [|Ge]; [reflexivity|]. exfalso.
      assert (In (nth j r 0) r -> False).
      { intro Hin. pose proof (increasing_lt_hd a r _ I Hin) as Lt.
        assert (X : nth j (ext_mask r radius) false = false).
        { unfold ext_mask. destruct (Nat.lt_ge_cases j (length r)) as [Lj|Lj].
          - rewrite (nth_indep _ false (if Qlt_le_dec 0 radius then true else false)) by (rewrite map_length; exact Lj).
            rewrite (map_nth (fun a => if Qlt_le_dec a radius then true else false) r 0 j).
            destruct (Qlt_le_dec (nth j r 0) radius); [lra|reflexivity].
          - apply nth_overflow. rewrite map_length. exact Lj. }
        unfold ext_mask in X, H. rewrite X in H. discriminate. }
      destruct (Nat.lt_ge_cases j (length r)) as [Lj|Lj]; [apply H0, nth_In, Lj|].
      unfold ext_mask in H. rewrite nth_overflow in H by (rewrite map_length; exact Lj). discriminate.
    + simpl. apply (IH (increasing_tail _ _ I) i j); [lia|exact H].
Qed.

(* ---------- cumulative radius: the single-interval case written out ---------- *)

(* two apertures: the radius is where the linearly interpolated curve of growth reaches the requested share *)
Theorem radius_cumul_two frac a a' f f' : a < a' -> 0 < f -> f < f' -> f <= frac * f' -> frac < 1 ->
  let r := radius_cumul_m frac [a; a'] [f; f'] in
  a <= r /\ r < a' /\ (r - a) * (f' - f) == (frac * f' - f) * (a' - a).
Proof.
  intros Ha Hf Hff Hreq Hfr. unfold radius_cumul_m. simpl.
  destruct (Qlt_le_dec (frac * f') f) as [X|_]; [lra|].
  destruct (Qlt_le_dec (frac * f') f') as [_|X]; [|nra].
  set (g := (frac * f' - f) / (f' - f)).
  assert (E : g * (f' - f) == frac * f' - f) by (unfold g; field; lra).
  assert (G0 : 0 <= g) by (destruct (Qlt_le_dec g 0) as [Lt|Ge]; [exfalso; nra|exact Ge]).
  assert (G1 : g < 1) by (destruct (Qlt_le_dec g 1) as [Lt|Ge]; [exact Lt|exfalso; nra]).
  repeat split; try nra.
Qed.

(* any number of apertures, strictly growing curve of growth: the radius lies in the one interval that brackets the requested share *)
Inductive bracket (req : Q) : list Q -> list Q -> Q -> Q -> Q -> Q -> Prop :=
| br_here a a' ar f f' fr : f <= req -> req < f' -> bracket req (a :: a' :: ar) (f :: f' :: fr) a a' f f'
| br_later a0 ar f0 fr a a' f f' : bracket req ar fr a a' f f' -> bracket req (a0 :: ar) (f0 :: fr) a a' f f'.

Definition lin (req a a' f f' : Q) : Q := (req - f) / (f' - f) * (a' - a) + a.

Lemma cumul_scan_spec req aps : forall fl r0, increasing fl -> length fl = length aps ->
  (req < hd 0 fl -> cumul_scan req aps fl r0 = r0) /\
  (hd 0 fl <= req -> req < last fl 0 -> exists a a' f f', bracket req aps fl a a' f f' /\ cumul_scan req aps fl r0 = lin req a a' f f').
Proof.
  induction aps as [|a ar IH]; intros fl r0 I L.
  - destruct fl; [|discriminate]. split; [reflexivity|]. simpl. intros; lra.
  - destruct fl as [|f fr]; [discriminate|]. destruct ar as [|a' ar'].
    + destruct fr; [|discriminate]. split; [reflexivity|]. simpl. intros; lra.
    + destruct fr as [|f' fr']; [discriminate|].
      assert (L' : length (f' :: fr') = length (a' :: ar')) by (simpl in *; lia).
      pose proof (increasing_tail _ _ I) as I'.
      assert (Hff : f < f') by (inversion I; subst; assumption).
      change (cumul_scan req (a :: a' :: ar') (f :: f' :: fr') r0) with
        (cumul_scan req (a' :: ar') (f' :: fr')
           (if Qlt_le_dec req f then r0 else if Qlt_le_dec req f' then (req - f) / (f' - f) * (a' - a) + a else r0)).
      split.
      * simpl hd. intro H. destruct (Qlt_le_dec req f) as [_|X]; [|lra].
        apply (proj1 (IH (f' :: fr') r0 I' L')). simpl. lra.
      * simpl hd. change (last (f :: f' :: fr') 0) with (last (f' :: fr') 0). intros H1 H2.
        destruct (Qlt_le_dec req f) as [X|_]; [lra|].
        destruct (Qlt_le_dec req f') as [Y|Y].
        -- exists a, a', f, f'. split; [constructor; assumption|].
           apply (proj1 (IH (f' :: fr') _ I' L')). simpl. exact Y.
        -- destruct (proj2 (IH (f' :: fr') r0 I' L') Y H2) as (xa & xa' & xf & xf' & B & E).
           exists xa, xa', xf, xf'. split; [constructor; exact B|exact E].
Qed.

Lemma bracket_adjacent req aps fl a a' f f' : increasing aps -> bracket req aps fl a a' f f' -> a < a'.
Proof.
  intros I B. induction B as [? ? ? ? ? ? ? ?|? ? ? ? ? ? ? ? ? IH]; [inversion I; subst; assumption|].
  apply IH. eapply increasing_tail; exact I.
Qed.

Lemma bracket_req req aps fl a a' f f' : bracket req aps fl a a' f f' -> f <= req /\ req < f'.
Proof. induction 1; [split; assumption|assumption]. Qed.

Theorem radius_cumul_spec frac aps fl : increasing aps -> increasing fl -> length fl = length aps ->
  hd 0 fl <= frac * last fl 0 -> frac * last fl 0 < last fl 0 ->
  exists a a' f f', bracket (frac * last fl 0) aps fl a a' f f' /\
    a <= radius_cumul_m frac aps fl /\ radius_cumul_m frac aps fl < a' /\
    (radius_cumul_m frac aps fl - a) * (f' - f) == (frac * last fl 0 - f) * (a' - a).
Proof.
  intros Ia If L H1 H2. unfold radius_cumul_m.
  destruct (Qlt_le_dec (frac * last fl 0) (hd 0 fl)) as [X|_]; [lra|].
  destruct (Qlt_le_dec (frac * last fl 0) (last fl 0)) as [_|X]; [|lra].
  destruct (proj2 (cumul_scan_spec (frac * last fl 0) aps fl 0 If L) H1 H2) as (a & a' & f & f' & B & E).
  exists a, a', f, f'. split; [exact B|]. rewrite E.
  destruct (bracket_req _ _ _ _ _ _ _ B) as [R1 R2]. pose proof (bracket_adjacent _ _ _ _ _ _ _ Ia B) as Adj.
  unfold lin. set (req := frac * last fl 0) in *.
  set (g := (req - f) / (f' - f)).
  assert (E' : g * (f' - f) == req - f) by (unfold g; field; lra).
  assert (G0 : 0 <= g) by (destruct (Qlt_le_dec g 0) as [Lt|Ge]; [exfalso; nra|exact Ge]).
  assert (G1 : g < 1) by (destruct (Qlt_le_dec g 1) as [Lt|Ge]; [exact Lt|exfalso; nra]).
  repeat split; nra.
Qed.

(* below the first aperture's share the first aperture is returned, at or above the total the last one *)
Theorem radius_cumul_ends frac aps fl :
  (frac * last fl 0 < hd 0 fl -> frac * last fl 0 < last fl 0 -> radius_cumul_m frac aps fl = hd 0 aps) /\
  (last fl 0 <= frac * last fl 0 -> radius_cumul_m frac aps fl = last aps 0).
Proof.
  unfold radius_cumul_m. split.
  - intros H1 H2. destruct (Qlt_le_dec (frac * last fl 0) (hd 0 fl)) as [_|X]; [|lra].
    destruct (Qlt_le_dec (frac * last fl 0) (last fl 0)) as [_|X]; [reflexivity|lra].
  - intro H. destruct (Qlt_le_dec (frac * last fl 0) (last fl 0)) as [X|_]; [lra|reflexivity].
Qed.

(* ---------- repeated apertures ----------
   Models.read hands find_radius_sigma the apertures ConvolvedFluxes.interpolate left behind: those beyond the table have been reset
   to the largest tabulated one, so the tail of the list repeats it.  There the code divides a negative flux step (the same flux,
   scaled by a larger distance) by zero: sigma = -inf, which is never above the threshold and, as the outer neighbour of a crossing,
   makes the interpolation weight 0.  `None` below is that -inf; +inf and nan (a non-negative flux step over a zero step in
   aperture) are outside the model: the whole result is None. *)

Definition dsig (a0 f0 a1 f1 : Q) : option (option Q) :=
  let da := a1 * a1 - a0 * a0 in
  if Qeq_bool da 0 then (if Qlt_le_dec (f1 - f0) 0 then Some None else None) else Some (Some ((f1 - f0) / da)).

Fixpoint sigma_rest_o (a0 f0 : Q) (aps fl : list Q) : option (list (option Q)) :=
  match aps, fl with
  | a1 :: ar, f1 :: fr => match dsig a0 f0 a1 f1, sigma_rest_o a1 f1 ar fr with Some x, Some r => Some (x :: r) | _, _ => None end
  | _, _ => Some []
  end.

Definition sigma_o (aps fl : list Q) : option (list (option Q)) :=
  match aps, fl with
  | a0 :: ar, f0 :: fr => option_map (cons (Some (f0 / (a0 * a0)))) (sigma_rest_o a0 f0 ar fr)
  | _, _ => Some []
  end.

Fixpoint somes (l : list (option Q)) : list Q :=
  match l with [] => [] | Some x :: r => x :: somes r | None :: r => somes r end.

Definition crosso (thr a a' s : Q) (s' : option Q) : Q := match s' with Some q => cross thr a a' s q | None => a end.

Fixpoint scano (thr : Q) (aps : list Q) (sg : list (option Q)) : Q :=
  match aps, sg with
  | a :: ((a' :: _) as ar), s :: ((s' :: _) as sr) =>
      let r := scano thr ar sr in
      match s with
      | Some sq => if Qlt_le_dec thr sq then (if Qeq_bool r 0 then crosso thr a a' sq s' else r) else r
      | None => r
      end
  | _, _ => 0
  end.

Definition above (thr : Q) (s : option Q) : bool := match s with Some q => if Qlt_le_dec thr q then true else false | None => false end.

Definition radius_thr_o (thr : Q) (aps : list Q) (sg : list (option Q)) : Q :=
  if above thr (last sg None) then last aps 0 else scano thr aps sg.

Definition radius_sigma_o (frac : Q) (aps fl : list Q) : option Q :=
  match sigma_o aps fl with
  | Some sg => Some (radius_thr_o (frac * qmax (somes sg)) aps sg)
  | None => None
  end.

(* strictly increasing apertures: nothing is infinite and this is radius_sigma_m *)
Lemma increasing_sq a a' : 0 < a -> a < a' -> ~ a' * a' - a * a == 0.
Proof. intros. nra. Qed.

Lemma sigma_rest_o_some a0 f0 aps fl : 0 < a0 -> increasing (a0 :: aps) ->
  sigma_rest_o a0 f0 aps fl = Some (map Some (sigma_rest a0 f0 aps fl)).
Proof.
  revert a0 f0 fl. induction aps as [|a1 ar IH]; intros a0 f0 fl P I; [destruct fl; reflexivity|].
  destruct fl as [|f1 fr]; [reflexivity|]. simpl.
  assert (L : a0 < a1) by (inversion I; subst; assumption).
  unfold dsig. destruct (Qeq_bool (a1 * a1 - a0 * a0) 0) eqn:E.
  - apply Qeq_bool_eq in E. exfalso. exact (increasing_sq a0 a1 P L E).
  - rewrite (IH a1 f1 fr); [reflexivity|lra|eapply increasing_tail; exact I].
Qed.

Lemma sigma_o_some aps fl : (forall a, In a aps -> 0 < a) -> increasing aps -> sigma_o aps fl = Some (map Some (sigma_m aps fl)).
Proof.
  intros P I. destruct aps as [|a0 ar]; [reflexivity|]. destruct fl as [|f0 fr]; [reflexivity|].
  unfold sigma_o, sigma_m. rewrite sigma_rest_o_some; [reflexivity|apply P; left; reflexivity|exact I].
Qed.

Lemma somes_map_some l : somes (map Some l) = l.
Proof. induction l as [|x r IH]; [reflexivity|]. simpl. now rewrite IH. Qed.

Lemma scano_map_some thr aps sg : scano thr aps (map Some sg) = scan thr aps sg.
Proof.
  revert sg. induction aps as [|a ar IH]; intros sg; [destruct sg; reflexivity|].
  destruct sg as [|s sr]; [destruct ar; reflexivity|]. destruct ar as [|a' ar']; [reflexivity|].
  destruct sr as [|s' sr']; [reflexivity|].
  change (scano thr (a :: a' :: ar') (map Some (s :: s' :: sr'))) with
    (let r := scano thr (a' :: ar') (map Some (s' :: sr')) in
     if Qlt_le_dec thr s then (if Qeq_bool r 0 then cross thr a a' s s' else r) else r).
  change (scan thr (a :: a' :: ar') (s :: s' :: sr')) with
    (let r := scan thr (a' :: ar') (s' :: sr') in if Qlt_le_dec thr s then (if Qeq_bool r 0 then cross thr a a' s s' else r) else r).
  cbv zeta. rewrite (IH (s' :: sr')). reflexivity.
Qed.

Lemma last_map_some (l : list Q) : l <> [] -> last (map Some l) None = Some (last l 0).
Proof.
  induction l as [|x r IH]; [congruence|]. intros _. destruct r as [|y r']; [reflexivity|].
  change (last (map Some (x :: y :: r')) None) with (last (map Some (y :: r')) None).
  change (last (x :: y :: r') 0) with (last (y :: r') 0). apply IH. discriminate.
Qed.

Theorem radius_sigma_o_increasing frac aps fl : (forall a, In a aps -> 0 < a) -> increasing aps -> length fl = length aps -> aps <> [] ->
  radius_sigma_o frac aps fl = Some (radius_sigma_m frac aps fl).
Proof.
  intros P I L NE. unfold radius_sigma_o, radius_sigma_m. rewrite (sigma_o_some aps fl P I). rewrite somes_map_some.
  f_equal. unfold radius_thr_o, radius_thr. rewrite scano_map_some.
  assert (NEs : sigma_m aps fl <> []).
  { destruct aps as [|a0 ar]; [congruence|]. destruct fl as [|f0 fr]; [discriminate|]. discriminate. }
  rewrite (last_map_some _ NEs). unfold above. destruct (Qlt_le_dec _ _); reflexivity.
Qed.

(* whatever the surface brightnesses: the radius never exceeds the largest of the (non-decreasing) apertures it was given when the
   outer neighbour of every crossing is at or below the threshold - in particular a model is not marked as resolved at a distance
   whose aperture was reset to the largest tabulated one (ResolvedM) *)
Inductive nondecreasing : list Q -> Prop :=
| nd_nil : nondecreasing []
| nd_one a : nondecreasing [a]
| nd_cons a a' r : a <= a' -> nondecreasing (a' :: r) -> nondecreasing (a :: a' :: r).

Lemma nd_tail a r : nondecreasing (a :: r) -> nondecreasing r.
Proof. inversion 1; subst; [constructor|assumption]. Qed.

Lemma nd_le_last a r : nondecreasing (a :: r) -> a <= last (a :: r) 0.
Proof.
  revert a. induction r as [|b r IH]; intros a H; [simpl; lra|].
  inversion H as [| |? ? ? L T]; subst. specialize (IH b T). change (last (a :: b :: r) 0) with (last (b :: r) 0). lra.
Qed.

Lemma cross_bounds_weak thr a a' s s' : thr < s -> s' <= thr -> a <= a' -> a <= cross thr a a' s s' /\ cross thr a a' s s' <= a'.
Proof.
  intros H1 H2 H3. unfold cross.
  set (f := (s - thr) / (s - s')).
  assert (D : ~ s - s' == 0) by lra.
  assert (E : f * (s - s') == s - thr) by (unfold f; field; exact D).
  assert (F0 : 0 < f) by (destruct (Qlt_le_dec 0 f) as [L|L]; [exact L|exfalso; nra]).
  assert (F1 : f <= 1) by (destruct (Qlt_le_dec 1 f) as [L|L]; [exfalso; nra|exact L]).
  split; nra.
Qed.

Lemma scano_range thr aps : forall sg, nondecreasing aps -> (forall a, In a aps -> 0 < a) -> length sg = length aps ->
  above thr (last sg None) = false ->
  0 <= scano thr aps sg /\ scano thr aps sg <= last aps 0 /\ (above thr (hd None sg) = true -> 0 < scano thr aps sg).
Proof.
  induction aps as [|a ar IH]; intros sg N P L La.
  - destruct sg; [|discriminate]. simpl. repeat split; try lra; try (intro X; discriminate X).
  - destruct sg as [|s sr]; [discriminate|]. destruct ar as [|a' ar'].
    + destruct sr; [|discriminate]. pose proof (P a (or_introl eq_refl)). simpl in *. repeat split; try lra.
      intro H'. rewrite La in H'. discriminate.
    + destruct sr as [|s' sr']; [discriminate|].
      assert (La' : above thr (last (s' :: sr') None) = false) by exact La.
      assert (L' : length (s' :: sr') = length (a' :: ar')) by (simpl in *; lia).
      destruct (IH (s' :: sr') (nd_tail _ _ N) (fun x Hx => P x (or_intror Hx)) L' La') as (R0 & R1 & R2).
      change (last (a :: a' :: ar') 0) with (last (a' :: ar') 0).
      change (scano thr (a :: a' :: ar') (s :: s' :: sr')) with
        (let r := scano thr (a' :: ar') (s' :: sr') in
         match s with
         | Some sq => if Qlt_le_dec thr sq then (if Qeq_bool r 0 then crosso thr a a' sq s' else r) else r
         | None => r
         end).
      cbv zeta. simpl hd.
      assert (Aa : a <= a') by (inversion N; subst; assumption).
      pose proof (nd_le_last _ _ (nd_tail _ _ N)) as Al.
      pose proof (P a (or_introl eq_refl)) as Pa.
      destruct s as [sq|]; [|repeat split; try assumption; discriminate].
      unfold above. destruct (Qlt_le_dec thr sq) as [Hs|Hs]; [|repeat split; try assumption; discriminate].
      destruct (Qeq_bool (scano thr (a' :: ar') (s' :: sr')) 0) eqn:E.
      * apply Qeq_bool_eq in E.
        assert (NA : above thr s' = false).
        { destruct (above thr s') eqn:A; [|reflexivity]. specialize (R2 A). lra. }
        destruct s' as [q'|]; simpl crosso.
        -- unfold above in NA. destruct (Qlt_le_dec thr q') as [|Hq]; [discriminate|].
           destruct (cross_bounds_weak thr a a' sq q' Hs Hq Aa) as [Lo Hi]. repeat split; try lra.
        -- repeat split; try lra.
      * assert (NZ : ~ scano thr (a' :: ar') (s' :: sr') == 0) by (apply Qeq_bool_neq; exact E).
        repeat split; try assumption; intros; lra.
Qed.

Theorem radius_thr_o_le_last thr aps sg : nondecreasing aps -> (forall a, In a aps -> 0 < a) -> length sg = length aps ->
  radius_thr_o thr aps sg <= last aps 0.
Proof.
  intros N P L. unfold radius_thr_o. destruct (above thr (last sg None)) eqn:A; [lra|].
  apply (scano_range thr aps sg N P L A).
Qed.

Lemma sigma_rest_o_length a0 f0 aps : forall fl sg, length fl = length aps -> sigma_rest_o a0 f0 aps fl = Some sg -> length sg = length aps.
Proof.
  revert a0 f0. induction aps as [|a1 ar IH]; intros a0 f0 fl sg L H.
  - destruct fl; [|discriminate]. injection H as <-. reflexivity.
  - destruct fl as [|f1 fr]; [discriminate|]. simpl in H.
    destruct (dsig a0 f0 a1 f1) as [x|]; [|discriminate].
    destruct (sigma_rest_o a1 f1 ar fr) as [r|] eqn:E; [|discriminate]. injection H as <-.
    simpl. f_equal. apply (IH a1 f1 fr r); [simpl in L; lia|exact E].
Qed.

(* the radius never exceeds the largest aperture it was given *)
Theorem radius_sigma_o_le_last frac aps fl r : nondecreasing aps -> (forall a, In a aps -> 0 < a) -> length fl = length aps ->
  radius_sigma_o frac aps fl = Some r -> r <= last aps 0.
Proof.
  intros N P L H. unfold radius_sigma_o in H. destruct (sigma_o aps fl) as [sg|] eqn:E; [|discriminate]. injection H as <-.
  apply radius_thr_o_le_last; [exact N|exact P|].
  unfold sigma_o in E. destruct aps as [|a0 ar]; [destruct fl; [injection E as <-; reflexivity|discriminate]|].
  destruct fl as [|f0 fr]; [discriminate|].
  destruct (sigma_rest_o a0 f0 ar fr) as [rs|] eqn:Er; [|discriminate]. injection E as <-.
  simpl. f_equal. apply (sigma_rest_o_length a0 f0 ar fr rs); [simpl in L; lia|exact Er].
Qed.

Example radius_sigma_clamped :
  (* apertures 2, 3, and 3 again (reset to the largest tabulated one); the flux at the repeated aperture is the same one scaled by a
     larger distance: sigma = 1, 2, -inf; the crossing next to the -inf lands exactly on the inner aperture *)
  option_map Qred (radius_sigma_o (1#2) [2; 3; 3] [4; 14; 5]) = Some 3 /\ ext_mask [2; 3; 4] 3 = [true; false; false] /\
  option_map Qred (radius_sigma_o (1#2) [2; 3; 3; 3] [8; 9; 4; 1]) = Some (23 # 9).
Proof. repeat split; vm_compute; reflexivity. Qed.

Example radius_sigma_example :
  (* a = 1,2,3; F = 4,10,12 -> sigma = 4, 2, 2/5; thr = 2; outermost crossing between a=1 (4 > 2) and a=2 (2 <= 2): radius = 2 *)
  radius_sigma_m (1#2) [1; 2; 3] [4; 10; 12] == 2 /\ ext_mask [1; 2; 3] 2 = [true; false; false].
Proof. split; vm_compute; reflexivity. Qed.

Example radius_sigma_last :
  (* the brightest ring is the outermost one: everything inside the last aperture counts as resolved *)
  radius_sigma_m (1#2) [1; 2; 3] [1; 2; 30] == 3.
Proof. vm_compute. reflexivity. Qed.

Example radius_cumul_example : radius_cumul_m (1#2) [1; 2; 3] [2; 6; 12] == 2 /\ radius_cumul_m (1#10) [1; 2; 3] [2; 6; 12] == 1.
Proof. split; vm_compute; reflexivity. Qed.
