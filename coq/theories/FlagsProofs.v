(* What the data flags mean, on the fit model: unused and limit bands never enter the least-squares solution,
   penalties are added exactly when violated, confidence 0 / 1, flag 4 = transformed flag 1. *)
From Coq Require Import QArith Lqa Lia List Bool ZArith.
Import ListNotations.
Open Scope Q_scope.
From SedV Require Import Clamp FitCore Flags Fit3 Xnum FitModel FitModelProofs.

(* the (A_V, scale) part of the 2-D fit is a function of the five moments *)
Lemma fit2_of_moments lo hi rows rows' :
  c1 rows == c1 rows' -> c2 rows == c2 rows' -> m11 rows == m11 rows' -> m12 rows == m12 rows' -> m22 rows == m22 rows' ->
  let '(av, sc) := fit2_avsc lo hi rows in let '(av', sc') := fit2_avsc lo hi rows' in av == av' /\ sc == sc'.
Proof.
  intros E1 E2 E11 E12 E22.
  unfold fit2_avsc, linreg_m, det.
  set (A := (m22 rows * c1 rows - m12 rows * c2 rows) * (1 / (m11 rows * m22 rows - m12 rows * m12 rows))).
  set (A' := (m22 rows' * c1 rows' - m12 rows' * c2 rows') * (1 / (m11 rows' * m22 rows' - m12 rows' * m12 rows'))).
  assert (EA : A == A') by (unfold A, A'; now rewrite E1, E2, E11, E12, E22).
  assert (EO : forall a, optscale_sc_m a rows == optscale_sc_m a rows').
  { intros a. rewrite !optscale_is_sopt. unfold sopt. now rewrite E2, E12, E22. }
  destruct (Qlt_le_dec A lo), (Qlt_le_dec A' lo); try lra.
  - split; [reflexivity|apply EO].
  - destruct (Qlt_le_dec hi A), (Qlt_le_dec hi A'); try lra.
    + split; [reflexivity|apply EO].
    + split; [exact EA|]. now rewrite E1, E2, E11, E12, E22.
Qed.

(* two row lists that agree on everything the fitted bands carry; bands that are not fitted (flags 0, 2, 3, 9)
   may carry anything *)
Definition same_fitted (r r' : row) : Prop :=
  b_flag (r_b r) = b_flag (r_b r') /\ r_a r = r_a r' /\ r_s r = r_s r' /\ r_lm r = r_lm r' /\
  b_w (r_b r) = b_w (r_b r') /\
  (fitted r = true -> b_lf (r_b r) = b_lf (r_b r')).

Lemma wsum_blind (g : row -> Q) rows rows' :
  Forall2 same_fitted rows rows' -> Forall wf_row rows ->
  (forall r r', same_fitted r r' -> fitted r = true -> g r = g r') ->
  qsum (fun r => g r * w r) rows == qsum (fun r => g r * w r) rows'.
Proof.
  intros H W G. apply qsum_ext2. induction H as [|r r' l l' Hr _ IH]; constructor.
  - inversion W as [|? ? Wr _]; subst. pose proof Hr as (Hf & Ha & Hs & Hl & Hw & Hd).
    destruct (fitted r) eqn:U.
    + unfold w. rewrite <- Hw. rewrite (G r r' Hr U). reflexivity.
    + assert (w r == 0) by (apply Wr, U).
      assert (w r' == 0) by (unfold w in *; rewrite <- Hw; assumption).
      rewrite H, H0. ring.
  - apply IH. now inversion W.
Qed.

Theorem lsq_blind_to_unfitted lo hi rows rows' :
  Forall2 same_fitted rows rows' -> Forall wf_row rows ->
  let '(av, sc) := fit2_avsc lo hi rows in let '(av', sc') := fit2_avsc lo hi rows' in av == av' /\ sc == sc'.
Proof.
  intros H W. apply fit2_of_moments; unfold c1, c2, m11, m12, m22.
  - apply (wsum_blind (fun r => resid r * r_a r)); auto.
    intros r r' (Hf & Ha & Hs & Hl & Hw & Hd) U. unfold resid. now rewrite (Hd U), Hl, Ha.
  - apply (wsum_blind (fun r => resid r * r_s r)); auto.
    intros r r' (Hf & Ha & Hs & Hl & Hw & Hd) U. unfold resid. now rewrite (Hd U), Hl, Hs.
  - apply (wsum_blind (fun r => r_a r * r_a r)); auto. intros r r' (Hf & Ha & _) _. now rewrite Ha.
  - apply (wsum_blind (fun r => r_a r * r_s r)); auto. intros r r' (Hf & Ha & Hs & _) _. now rewrite Ha, Hs.
  - apply (wsum_blind (fun r => r_s r * r_s r)); auto. intros r r' (Hf & Ha & Hs & _) _. now rewrite Hs.
Qed.

(* the one-distance A_V of the aperture-dependent branch is blind to unfitted bands as well *)
Theorem lsq3_blind_to_unfitted rows rows' :
  Forall2 same_fitted rows rows' -> Forall wf_row rows -> optscale_av_m rows == optscale_av_m rows'.
Proof.
  intros H W. unfold optscale_av_m.
  assert (E1 : c1 rows == c1 rows').
  { unfold c1. apply (wsum_blind (fun r => resid r * r_a r)); auto.
    intros r r' (Hf & Ha & Hs & Hl & Hw & Hd) U. unfold resid. now rewrite (Hd U), Hl, Ha. }
  assert (E11 : m11 rows == m11 rows').
  { unfold m11. apply (wsum_blind (fun r => r_a r * r_a r)); auto. intros r r' (Hf & Ha & _) _. now rewrite Ha. }
  now rewrite E1, E11.
Qed.

Section Chi.
Variable pen : Q -> option Q.

(* chi_term respects == of the fitted model value *)
Lemma chi_term_proper r m m' : m == m' -> chi_term pen r m == chi_term pen r m'.
Proof.
  intros E. unfold chi_term.
  destruct (b_flag (r_b r)) as [|p|p]; [reflexivity| |now rewrite E].
  split_pos; try (now rewrite E);
    destruct (Qlt_le_dec _ _), (Qlt_le_dec _ _); try lra; try reflexivity; now rewrite E.
Qed.

Lemma chi2_proper rows av av' sc sc' : av == av' -> sc == sc' -> chi2_m pen rows av sc == chi2_m pen rows av' sc'.
Proof.
  intros Ea Es. unfold chi2_m. induction rows as [|r rs IH]; simpl; [reflexivity|].
  rewrite IH. apply Qplus_inj_r. apply chi_term_proper. now rewrite Ea, Es.
Qed.

(* rows that differ only in what flag-0 / flag-9 bands carry give the same chi^2 at the same (A_V, scale) *)
Lemma chi2_blind_to_unused rows rows' av sc :
  Forall2 same_but_unused rows rows' -> Forall wf_row rows ->
  chi2_m pen rows av sc == chi2_m pen rows' av sc.
Proof.
  intros H W. unfold chi2_m. apply qsum_ext2.
  induction H as [|r r' l l' Hr _ IH]; constructor; [|apply IH; now inversion W].
  inversion W as [|? ? Wr _]; subst. destruct Hr as (Hf & Ha & Hs & Hl & Hw & Hd).
  rewrite <- Ha, <- Hs. set (m := av * r_a r + sc * r_s r).
  destruct (unused r) eqn:U.
  - assert (W0 : w r == 0) by (apply Wr, unused_notfitted, U).
    assert (W0' : w r' == 0) by (unfold w in *; rewrite <- Hw; exact W0).
    unfold chi_term. rewrite <- Hf. unfold unused in U.
    destruct (b_flag (r_b r)) as [|p|p]; [reflexivity| |discriminate].
    split_pos; cbn in U; try discriminate. rewrite W0, W0'. ring.
  - destruct (Hd eq_refl) as [Hlf Hle]. unfold chi_term, resid, w. now rewrite <- Hf, <- Hlf, <- Hle, <- Hl, <- Hw.
Qed.

(* a limit with confidence 0 contributes nothing, like flag 0 *)
Lemma conf0_is_unused r m : wf_row r -> (b_flag (r_b r) = 2 \/ b_flag (r_b r) = 3)%Z ->
  b_le (r_b r) = 0 -> pen 0 = Some 0 -> chi_term pen r m == 0.
Proof.
  intros W F L P. assert (W0 : w r == 0). { apply W. unfold fitted. destruct F as [F|F]; rewrite F; reflexivity. }
  unfold chi_term, penv. destruct F as [F|F]; rewrite F, L, P; destruct (Qlt_le_dec _ _); try reflexivity; rewrite W0; ring.
Qed.

(* a violated limit with confidence 1 (infinite penalty) contributes 1e30 *)
Lemma conf1_violated r m : ((b_flag (r_b r) = 2)%Z /\ m < resid r \/ (b_flag (r_b r) = 3)%Z /\ resid r < m) ->
  pen (b_le (r_b r)) = None -> chi_term pen r m = big.
Proof.
  intros F P. unfold chi_term, penv. destruct F as [[F V]|[F V]]; rewrite F, P; destruct (Qlt_le_dec _ _); try reflexivity; lra.
Qed.

Lemma chi_term_nonneg r m : 0 <= w r -> (forall c q, pen c = Some q -> 0 <= q) -> 0 <= chi_term pen r m.
Proof.
  intros Hw Hp. assert (B : 0 <= (resid r - m) * (resid r - m) * w r) by (apply Qmult_le_0_compat; [apply sqnn|exact Hw]).
  assert (PV : forall c, 0 <= penv pen c).
  { intros c. unfold penv. destruct (pen c) eqn:E; [eapply Hp; eauto|unfold big; lra]. }
  unfold chi_term. destruct (b_flag (r_b r)) as [|p|p]; [lra| |exact B].
  split_pos; try exact B; destruct (Qlt_le_dec _ _); try exact B; apply PV.
Qed.

Theorem conf1_gives_huge rows av sc r : In r rows ->
  Forall (fun x => 0 <= w x) rows -> (forall c q, pen c = Some q -> 0 <= q) ->
  ((b_flag (r_b r) = 2)%Z /\ av * r_a r + sc * r_s r < resid r \/ (b_flag (r_b r) = 3)%Z /\ resid r < av * r_a r + sc * r_s r) ->
  pen (b_le (r_b r)) = None -> big <= chi2_m pen rows av sc.
Proof.
  intros Hin Hw Hp V P. unfold chi2_m. induction rows as [|x xs IH]; [contradiction|]. simpl.
  inversion Hw as [|? ? Hx Hxs]; subst. destruct Hin as [->|Hin].
  - rewrite (conf1_violated r _ V P).
    assert (0 <= qsum (fun r0 => chi_term pen r0 (av * r_a r0 + sc * r_s r0)) xs).
    { apply qsum_nonneg. intros y Hy. apply chi_term_nonneg; [|exact Hp]. rewrite Forall_forall in Hxs. now apply Hxs. }
    lra.
  - specialize (IH Hin Hxs). pose proof (chi_term_nonneg x (av * r_a x + sc * r_s x) Hx Hp). lra.
Qed.
End Chi.
