"""Shared helpers for the hunt scripts: build small model packages with the public API."""
import os
import tempfile

import numpy as np
from astropy import units as u
from astropy.table import Table
from astropy import log

log.setLevel('ERROR')


def build_per_file_package(wav_micron, n_ap, names, par_order=None, name_width=30):
    from sedfitter.sed import SED
    rng = np.random.RandomState(42)
    d = tempfile.mkdtemp()
    os.mkdir(os.path.join(d, 'seds'))
    seds = {}
    for nm in names:
        s = SED()
        s.name = nm
        s.distance = 1 * u.kpc
        s.wav = np.array(wav_micron, dtype=float) * u.micron
        s.nu = s.wav.to(u.Hz, equivalencies=u.spectral())
        s.apertures = np.linspace(10., 1000., n_ap) * u.au
        s.flux = rng.uniform(1, 100, (n_ap, len(wav_micron))) * u.mJy
        s.error = rng.uniform(1, 100, (n_ap, len(wav_micron))) * u.mJy
        s.write(os.path.join(d, 'seds', nm + '_sed.fits'))
        seds[nm] = s
    with open(os.path.join(d, 'models.conf'), 'w') as f:
        f.write("name = test\nlength_subdir = 0\naperture_dependent = yes\nlogd_step = 0.02\n")
    pn = list(names) if par_order is None else [names[i] for i in par_order]
    t = Table()
    t['MODEL_NAME'] = np.array(pn, dtype='S%d' % name_width)
    t['par1'] = rng.uniform(size=len(pn))
    t.write(os.path.join(d, 'parameters.fits'))
    return d, seds, pn
