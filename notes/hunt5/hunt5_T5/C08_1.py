"""
C08, clause "ranks m first with chi^2 ~ 0, reports A_V ~ A_V0" under the
quantifier "any relative photometric error".

Source.get_log_fluxes() does not fit log10(F) but
    log10(F) - 0.5 * (sigma/F)**2 / ln(10)
so photometry that IS the model (F = model flux, reddened by A_V0 and scaled),
given with a relative error r, is moved away from the model by r/2 standard
deviations in that band.  With unequal relative errors (here 60% in one band,
2% in the others - ordinary for a catalogue mixing a faint detection with
bright ones) the shift cannot be absorbed by A_V and the scale.  A second,
clearly different model of the package (16% fainter in that band, not related
to the first by any reddening + scaling) is then ranked first, and the planted
model is second with chi^2 = 0.09 (its parameter row is not the one printed).

Whether this is called a defect of the code or an over-statement of C08 is a
matter of judgement: the bias term is deliberate (mean of the log of a
log-normal), but the statement as quantified does not hold.
"""
import os
import io
import tempfile
import contextlib

import numpy as np
from astropy import units as u
from astropy.table import Table

from sedfitter import Fitter, write_parameters
from sedfitter.convolved_fluxes import ConvolvedFluxes
from sedfitter.extinction import Extinction
from sedfitter.source import Source

rel = np.array([0.02, 0.02, 0.6, 0.02, 0.02])
bias = -0.5 * rel ** 2 / np.log(10.)

d = tempfile.mkdtemp()
names = np.array(['planted', 'other'])
with open(os.path.join(d, 'models.conf'), 'w') as f:
    f.write("name = test\nlength_subdir = 0\naperture_dependent = no\nlogd_step = 0.02\n")
t = Table()
t['MODEL_NAME'] = names.astype('S30')
t['par1'] = [111., 222.]
t.write(os.path.join(d, 'parameters.fits'))
os.mkdir(os.path.join(d, 'convolved'))
wavs = [0.5, 1.2, 2.2, 3.6, 8.0]
planted = np.array([1., 2., 3., 4., 2.5])
other = planted * 10 ** bias          # 16% lower in the third band only
fl = np.array([planted, other])
for j in range(5):
    c = ConvolvedFluxes()
    c.model_names = names
    c.central_wavelength = wavs[j] * u.micron
    c.flux = fl[:, j:j + 1] * u.mJy
    c.error = fl[:, j:j + 1] * 0.01 * u.mJy
    c.write(os.path.join(d, 'convolved', 'f%d.fits' % j))

ext = Extinction()
ext.wav = np.logspace(-1., 2., 30) * u.micron
ext.chi = ext.wav.value ** -1.5 * u.cm ** 2 / u.g

with contextlib.redirect_stdout(io.StringIO()):
    F = Fitter(['f%d' % j for j in range(5)], [3.] * 5 * u.arcsec, d,
               extinction_law=ext, av_range=[0., 20.])

av0, sc0 = 5., 0.3
av_law = np.asarray(F.av_law)
flux = planted * 10 ** (av0 * av_law - 2. * sc0)     # exactly the model
s = Source()
s.name = 'src'
s.x = s.y = 0.
s.valid = [1, 1, 1, 1, 1]
s.flux = flux
s.error = rel * flux
info = F.fit(s)

out = os.path.join(d, 'pars.txt')
write_parameters(info, out, select_format=('N', 1))
row = open(out).read().splitlines()[4].split()

k = list(info.model_name).index('planted')
ok = (info.model_name[0] == 'planted' and info.chi2[0] < 1e-6
      and abs(info.av[0] - av0) < 1e-3 and abs(info.sc[0] - sc0) < 1e-3 and row[1] == 'planted')
assert ok, ("C08 violated for relative errors (2%%, 2%%, 60%%, 2%%, 2%%): photometry equal to model 'planted' at "
            "A_V = 5, scale = 0.3 is fitted best by model '%s' (chi2 = %.2e, A_V = %.3f, scale = %.3f; "
            "write_parameters prints par1 = %s); 'planted' is rank %d with chi2 = %.3f, A_V = %.3f, scale = %.3f"
            % (info.model_name[0], info.chi2[0], info.av[0], info.sc[0], row[5], k + 1,
               info.chi2[k], info.av[k], info.sc[k]))
print("no violation")
