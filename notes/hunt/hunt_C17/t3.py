import sys; sys.path.insert(0, 'hunt_out')
from t1 import *
cases = [
 dict(wav_idx=tuple(range(3, 39, 3)), aps=tuple(2. + 0.5 * np.arange(12))),
 dict(wav_idx=tuple(range(3, 36, 3)), aps=tuple(2. + 0.5 * np.arange(11))),
 dict(wav_idx=(7,), aps=(3.,)),
 dict(wav_idx=(7, 9), aps=(3., 4.)),
 dict(wav_idx=(7, 7, 20), aps=(3., 6., 4.)),
 dict(n_ap=1),
 dict(n_ap=2),
 dict(wav_idx=(30, 5, 20, 12), aps=(3., 5., 3., 8.)),
 dict(wav_idx=(0, 39), aps=(3., 5.)),
 dict(aps=(3., 3., 3., 3.)),
 dict(aps=(3000., 3000., 3000., 5000.)),
 dict(nsel=1), dict(nsel=5), dict(nsel=6),
]
for c in cases:
    for st in ['interp', 'largest', 'largest+smallest', 'all']:
        try:
            w = run(sed_type=st, verbose=False, **c)
            print('CASE', c, st, 'worst', w, 'BAD' if not w < 2e-3 else '')
        except Exception as e:
            print('CASE', c, st, 'EXC', type(e).__name__, str(e)[:200])
