#!/bin/bash
# with_patch.sh <patch.diff> <property> [tier]   — run a check against a scratch worktree of /repo with the patch applied
# (the worktree lives outside /repo and /verif and is removed afterwards; /repo itself is never touched)
set -u
PATCH=$(realpath "$1"); PROP=$2; TIER=${3:-quick}
D=$(mktemp -d /tmp/sedmut.XXXXXX)
git -C /repo worktree add --detach "$D" HEAD >/dev/null 2>&1 || { echo "worktree failed"; exit 2; }
( cd "$D" && git apply "$PATCH" ) || { echo "patch does not apply"; git -C /repo worktree remove --force "$D"; exit 2; }
VERIF_REPO="$D" /verif/check "$PROP" "$TIER"; rc=$?
git -C /repo worktree remove --force "$D"; rm -rf "$D"
exit $rc
