import numpy as np
def cumint(x, y, t):
    # integral of piecewise-linear (x increasing) from x[0] to t
    t = np.clip(t, x[0], x[-1])
    seg = 0.5 * (x[1:] - x[:-1]) * (y[1:] + y[:-1])
    cum = np.concatenate([[0], np.cumsum(seg)])
    k = np.clip(np.searchsorted(x, t, side='right') - 1, 0, len(x) - 2)
    yt = y[k] + (y[k + 1] - y[k]) * (t - x[k]) / (x[k + 1] - x[k])
    return cum[k] + 0.5 * (t - x[k]) * (y[k] + yt)


def ref_R(fnu, fr, snu):
    if fnu[0] > fnu[-1]:
        fnu, fr = fnu[::-1], fr[::-1]
    rev = snu[0] > snu[-1]
    s = snu[::-1] if rev else snu
    edges = np.concatenate([[s[0]], 0.5 * (s[1:] + s[:-1]), [s[-1]]])
    R = np.array([cumint(fnu, fr, edges[i + 1]) - cumint(fnu, fr, edges[i]) for i in range(len(s))])
    return R[::-1] if rev else R


