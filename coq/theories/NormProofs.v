(* NormProofs — Filter.normalize: the normalised response integrates to 1 in absolute value in either storage order, and a
   normalised non-negative filter lying inside the SED range returns c for a flat spectrum F_nu = c (property C06). *)
From Coq Require Import QArith Qminmax Qabs Lqa Lia List Bool.
Import ListNotations.
From SedV Require Import PLin Xnum Slice Interp Isub IsubProofs Rebin ConvolveM ConvolveProofs.
Open Scope Q_scope.

Definition scale_y (t : Q) (l : list pt) : list pt := map (fun p => (fst p, snd p / t)) l.

Lemma area_scale t p q : ~ t == 0 -> area (fst p, snd p / t) (fst q, snd q / t) == area p q / t.
Proof. intro H. unfold area; simpl. field. exact H. Qed.

Lemma trapz_scale t l : ~ t == 0 -> trapz (scale_y t l) == trapz l / t.
Proof.
  intro H. induction l as [|p r IH]; [simpl; field; exact H|].
  destruct r as [|q r']; [simpl; field; exact H|].
  change (trapz (scale_y t (p :: q :: r'))) with (area (fst p, snd p / t) (fst q, snd q / t) + trapz (scale_y t (q :: r'))).
  change (trapz (p :: q :: r')) with (area p q + trapz (q :: r')).
  pose proof (area_scale t p q H) as A. unfold pt in *.
  rewrite IH, A. field. exact H.
Qed.

Lemma trapz_snoc l : forall p q, trapz ((l ++ [p]) ++ [q]) == trapz (l ++ [p]) + area p q.
Proof.
  induction l as [|a r IH]; intros p q.
  - simpl. ring.
  - destruct r as [|b r'].
    + simpl. ring.
    + change (((a :: b :: r') ++ [p]) ++ [q]) with (a :: ((b :: r') ++ [p]) ++ [q]).
      change ((a :: b :: r') ++ [p]) with (a :: (b :: r') ++ [p]).
      assert (E1 : ((b :: r') ++ [p]) ++ [q] = b :: (r' ++ [p]) ++ [q]) by reflexivity.
      assert (E2 : (b :: r') ++ [p] = b :: r' ++ [p]) by reflexivity.
      rewrite E1, E2. rewrite !trapz_cons2. rewrite <- E1, <- E2. rewrite IH. ring.
Qed.

Lemma area_swap p q : area q p == - area p q.
Proof. unfold area. field. Qed.

Lemma trapz_rev l : trapz (rev l) == - trapz l.
Proof.
  induction l as [|p r IH]; [simpl; ring|].
  destruct r as [|q r']; [simpl; ring|].
  rewrite trapz_cons2. cbn [rev] in *.
  rewrite trapz_snoc, IH, area_swap. ring.
Qed.

Lemma x0_scale t l : x0 (scale_y t l) = x0 l.
Proof. destruct l; reflexivity. Qed.
Lemma xn_scale t l : xn (scale_y t l) = xn l.
Proof.
  unfold xn, scale_y. induction l as [|p r IH]; [reflexivity|].
  destruct r as [|q r']; [reflexivity|]. exact IH.
Qed.
Lemma scale_rev t l : scale_y t (rev l) = rev (scale_y t l).
Proof. unfold scale_y. apply map_rev. Qed.
Lemma orient_scale t l : orient (scale_y t l) = scale_y t (orient l).
Proof. unfold orient. rewrite x0_scale, xn_scale. destruct (Qle_bool (x0 l) (xn l)); [reflexivity|]. symmetry. apply scale_rev. Qed.
Lemma incr_scale t l : incr l -> incr (scale_y t l).
Proof.
  induction l as [|p r IH]; [trivial|]. destruct r as [|q r']; [trivial|].
  intros [H Hi]. split; [exact H|]. apply IH. exact Hi.
Qed.

(* G at the last node is the whole integral *)
Lemma G_total l : incr l -> (2 <= length l)%nat -> G l (xn l) == trapz l.
Proof.
  induction l as [|p0 r IH]; intros Hi L; [simpl in L; lia|].
  destruct r as [|p1 r']; [simpl in L; lia|].
  destruct Hi as [H01 Hi].
  destruct r' as [|p2 r''].
  - unfold xn. cbn [last G trapz].
    assert (E : Qle_bool (fst p1) (fst p1) = true) by (apply Qle_bool_iff; apply Qle_refl).
    rewrite E. unfold area, lin; simpl. field. lra.
  - assert (X : xn (p0 :: p1 :: p2 :: r'') = xn (p1 :: p2 :: r'')) by reflexivity.
    rewrite X. cbn [G].
    assert (Lt : fst p1 < xn (p1 :: p2 :: r'')).
    { clear IH L H01 X. revert p1 p2 Hi. induction r'' as [|p3 r3 IH3]; intros p1 p2 [H12 Hi].
      - unfold xn; simpl. exact H12.
      - assert (Y : xn (p1 :: p2 :: p3 :: r3) = xn (p2 :: p3 :: r3)) by reflexivity. rewrite Y.
        specialize (IH3 p2 p3 Hi). lra. }
    assert (E : Qle_bool (xn (p1 :: p2 :: r'')) (fst p1) = false) by (apply nle_bool; exact Lt).
    rewrite E. rewrite (trapz_cons2 p0 p1 (p2 :: r'')). rewrite IH; [reflexivity|exact Hi|simpl; lia].
Qed.

Lemma G_x0 l : incr l -> (2 <= length l)%nat -> G l (x0 l) == 0.
Proof.
  destruct l as [|p0 [|p1 r]]; intros Hi L; try (simpl in L; lia).
  destruct Hi as [H _]. unfold x0; simpl hd. apply G_first. exact H.
Qed.

Lemma Qabs_m_abs x : Qabs_m x == Qabs x.
Proof.
  unfold Qabs_m. destruct (Qle_bool 0 x) eqn:E.
  - apply Qle_bool_iff in E. rewrite Qabs_pos by exact E. reflexivity.
  - assert (x <= 0). { destruct (Qlt_le_dec 0 x) as [L|L]; [|exact L]. apply Qlt_le_weak, Qle_bool_iff in L. congruence. }
    rewrite Qabs_neg by assumption. reflexivity.
Qed.

(* the normalised response integrates to +-1, whatever the storage order *)
Theorem normalize_unit l : ~ trapz l == 0 -> Qabs (trapz (normalize_m l)) == 1.
Proof.
  intro H. unfold normalize_m. fold (scale_y (Qabs_m (trapz l)) l).
  assert (T : ~ Qabs_m (trapz l) == 0).
  { rewrite Qabs_m_abs. intro Z. apply H. destruct (Qlt_le_dec (trapz l) 0) as [L|L].
    - rewrite Qabs_neg in Z by lra. lra.
    - rewrite Qabs_pos in Z by lra. exact Z. }
  rewrite trapz_scale by exact T. rewrite Qabs_m_abs in *.
  unfold Qdiv. rewrite Qabs_Qmult. rewrite Qabs_Qinv, (Qabs_pos (Qabs (trapz l))) by apply Qabs_nonneg. field. exact T.
Qed.

(* ---- a normalised non-negative filter inside the SED range: flat spectrum c -> c ---- *)
Definition nonneg (l : list pt) : Prop := Forall (fun p => 0 <= snd p) l.

Lemma trapz_nonneg l : incr l -> nonneg l -> 0 <= trapz l.
Proof.
  induction l as [|p r IH]; intros Hi Hn; [simpl; lra|].
  destruct r as [|q r']; [simpl; lra|].
  destruct Hi as [H Hi]. inversion Hn as [|? ? Hp Hr]; subst. inversion Hr as [|? ? Hq Hr']; subst.
  rewrite trapz_cons2. specialize (IH Hi Hr).
  assert (0 <= area p q). { unfold area. apply Qle_shift_div_l; [lra|]. rewrite Qmult_0_l. apply Qmult_le_0_compat; lra. }
  lra.
Qed.

Lemma hd_rev {A} (l : list A) d : hd d (rev l) = last l d.
Proof.
  destruct l as [|a r] using rev_ind; [reflexivity|].
  rewrite rev_unit, last_last. reflexivity.
Qed.
Lemma last_rev {A} (l : list A) d : last (rev l) d = hd d l.
Proof. rewrite <- (rev_involutive l) at 2. rewrite hd_rev. reflexivity. Qed.

Lemma incr_lt l : incr l -> (2 <= length l)%nat -> x0 l < xn l.
Proof.
  induction l as [|p0 r IH]; intros Hi L; [simpl in L; lia|].
  destruct r as [|p1 r']; [simpl in L; lia|]. destruct Hi as [H Hi].
  destruct r' as [|p2 r''].
  - unfold x0, xn; simpl. exact H.
  - assert (X : xn (p0 :: p1 :: p2 :: r'') = xn (p1 :: p2 :: r'')) by reflexivity. rewrite X.
    specialize (IH Hi ltac:(simpl; lia)). unfold x0 in *; simpl hd in *. lra.
Qed.

Lemma orient_ends l : let l' := orient l in incr l' -> (2 <= length l')%nat ->
  Qmin (x0 l) (xn l) == x0 l' /\ Qmax (x0 l) (xn l) == xn l'.
Proof.
  intros l' Hi L. pose proof (incr_lt l' Hi L) as Lt. unfold l', orient in *.
  destruct (Qle_bool (x0 l) (xn l)) eqn:E.
  - apply Qle_bool_iff in E. split; [apply Q.min_l|apply Q.max_r]; exact E.
  - apply nle_bool in E.
    assert (A : x0 (rev l) = xn l) by (unfold x0, xn; rewrite hd_rev; reflexivity).
    assert (B : xn (rev l) = x0 l) by (unfold x0, xn; rewrite last_rev; reflexivity).
    rewrite A, B. split; [apply Q.min_r|apply Q.max_l]; lra.
Qed.

Lemma trapz_orient_abs l : let l' := orient l in incr l' -> nonneg l -> Qabs (trapz l) == trapz l'.
Proof.
  intros l' Hi Hn. unfold l', orient in *. destruct (Qle_bool (x0 l) (xn l)).
  - apply Qabs_pos. apply trapz_nonneg; assumption.
  - assert (Hn' : nonneg (rev l)) by (unfold nonneg in *; apply Forall_rev; exact Hn).
    pose proof (trapz_nonneg _ Hi Hn') as P. rewrite trapz_rev in *. rewrite Qabs_neg by lra. reflexivity.
Qed.

Theorem flat_normalised l nu c :
  let l' := orient l in
  incr l' -> (2 <= length l')%nat -> nonneg l -> ~ trapz l == 0 ->
  (0 < length nu)%nat -> (forall j, (Datatypes.S j < length nu)%nat -> nuat nu j <= nuat nu (Datatypes.S j)) ->
  nuat nu 0 <= x0 l' -> xn l' <= nuat nu (length nu - 1) ->
  let r := rebin_m (normalize_m l) nu in
  qsuml r == 1 /\ conv_m (map (fun _ => c) r) r == c.
Proof.
  intros l' Hi L Hn Hz Hnu Hmono Hlo Hhi r.
  assert (S1 : qsuml r == 1).
  { unfold r, normalize_m. set (t := Qabs_m (trapz l)). fold (scale_y t l).
    assert (T : ~ t == 0).
    { unfold t. rewrite Qabs_m_abs. intro Z. apply Hz. destruct (Qlt_le_dec (trapz l) 0) as [Lz|Lz].
      - rewrite Qabs_neg in Z by lra. lra.
      - rewrite Qabs_pos in Z by lra. exact Z. }
    pose proof (rebin_conservation (scale_y t l) nu) as C. cbv zeta in C.
    rewrite orient_scale, x0_scale, xn_scale in C. fold l' in C.
    specialize (C (incr_scale t l' Hi)).
    assert (L' : (2 <= length (scale_y t l'))%nat) by (unfold scale_y; rewrite map_length; exact L).
    specialize (C L' Hnu Hmono).
    destruct (orient_ends l Hi L) as [Emin Emax]. fold l' in Emin, Emax.
    pose proof (incr_lt l' Hi L) as Lt.
    rewrite C. unfold clip.
    assert (Ehi : Qmin (Qmax (nuat nu (length nu - 1)) (Qmin (x0 l) (xn l))) (Qmax (x0 l) (xn l)) == xn (scale_y t l')).
    { rewrite xn_scale, Emin, Emax. rewrite Q.max_l by lra. apply Q.min_r. exact Hhi. }
    assert (Elo : Qmin (Qmax (nuat nu 0) (Qmin (x0 l) (xn l))) (Qmax (x0 l) (xn l)) == x0 (scale_y t l')).
    { rewrite x0_scale, Emin, Emax. rewrite Q.max_r by exact Hlo. apply Q.min_l. lra. }
    rewrite (G_proper _ _ _ Ehi), (G_proper _ _ _ Elo).
    rewrite G_total, G_x0 by (try apply incr_scale; assumption).
    rewrite trapz_scale by exact T. unfold t. rewrite Qabs_m_abs.
    rewrite (trapz_orient_abs l Hi Hn). fold l'.
    assert (Nz : ~ trapz l' == 0).
    { intro Z. apply Hz. pose proof (trapz_orient_abs l Hi Hn) as A. fold l' in A. rewrite Z in A.
      destruct (Qlt_le_dec (trapz l) 0) as [Lz|Lz].
      - rewrite Qabs_neg in A by lra. lra.
      - rewrite Qabs_pos in A by lra. exact A. }
    field. exact Nz. }
  split; [exact S1|].
  rewrite dot_const, S1. ring.
Qed.
