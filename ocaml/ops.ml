(* One entry per model operation: convert arguments, call the extracted function, convert the result. *)
open Proto

let to_sel (x : v) : M.sel =
  match x with
  | L [S "A"] -> M.SelA
  | L [S "N"; n] -> M.SelN (to_nat n)
  | L [S "C"; q] -> M.SelC (to_q q)
  | L [S "D"; q] -> M.SelD (to_q q)
  | L [S "E"; q] -> M.SelE (to_q q)
  | L [S "F"; q] -> M.SelF (to_q q)
  | _ -> raise (Bad "selector")

let to_token (x : v) : M.token =
  match x with
  | L [k; i; f] -> { M.t_key = to_z k; M.t_int = to_opt to_z i; M.t_float = to_opt to_q f }
  | _ -> raise (Bad "token")

let of_err (e : M.err) : v =
  S (match e with M.E_eof -> "eof" | M.E_layout -> "layout" | M.E_flag -> "flag" | M.E_number -> "number")

let to_frec (x : v) : M.frec =
  match x with
  | L [i; b; n] -> { M.fr_id = to_z i; M.fr_best = to_xnum b; M.fr_nd = to_pos n }
  | _ -> raise (Bad "frec")

let dispatch (op : string) (x : v) : v =
  match op, args x with
  | "filter_output", [chi; cpd; recs] ->
      let (g, b) = M.filter_output_m (to_opt to_q chi) (to_opt to_q cpd) (to_list to_frec recs) in
      L [of_list (fun r -> of_z r.M.fr_id) g; of_list (fun r -> of_z r.M.fr_id) b]
  | "from_ascii", [cols] ->
      (match M.from_ascii_m (to_list to_token cols) with
       | M.Ok s -> L [S "ok"; of_z s.M.s_name; of_q s.M.s_x; of_q s.M.s_y; of_list of_z s.M.s_flags;
                      of_list of_q s.M.s_flux; of_list of_q s.M.s_err]
       | M.Err e -> L [S "err"; of_err e])
  | "nkeep", [s; nd; chi] -> of_nat (M.nkeep (to_sel s) (to_pos nd) (to_list to_xnum chi))
  | _ -> raise (Bad ("unknown op or arity: " ^ op))
