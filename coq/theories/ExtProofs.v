(* Extinction.get_av: normalised at V, zero outside the table, invariant under rescaling chi and under a change of
   wavelength unit. *)
From Coq Require Import QArith Lqa Lia List Bool.
Import ListNotations.
Open Scope Q_scope.
From SedV Require Import PLin Interp Isub IsubProofs FitModel.

Theorem get_av_outside tab v t : t < tab_lo tab \/ tab_hi tab < t -> get_av_m tab v t == 0.
Proof.
  intros H. unfold get_av_m, interp0.
  destruct (Qlt_le_dec t (tab_lo tab)); [unfold Qdiv; ring|].
  destruct (Qlt_le_dec (tab_hi tab) t); [unfold Qdiv; ring|]. lra.
Qed.

Theorem get_av_inside tab v t : tab_lo tab <= t -> t <= tab_hi tab ->
  get_av_m tab v t == -(4#10) * fval tab t / fval tab v.
Proof.
  intros H1 H2. unfold get_av_m, interp0.
  destruct (Qlt_le_dec t (tab_lo tab)); [lra|]. destruct (Qlt_le_dec (tab_hi tab) t); [lra|]. reflexivity.
Qed.

Theorem get_av_at_V tab v : tab_lo tab <= v -> v <= tab_hi tab -> ~ fval tab v == 0 -> get_av_m tab v v == -(4#10).
Proof. intros H1 H2 H. rewrite get_av_inside by assumption. field. exact H. Qed.

(* chi multiplied by a constant *)
Definition scaley (c : Q) (l : list pt) : list pt := map (fun p => (fst p, c * snd p)) l.

Lemma fval_scaley c l t : fval (scaley c l) t == c * fval l t.
Proof.
  induction l as [|p0 r IH]; [simpl; ring|]. destruct r as [|p1 r']; [simpl; ring|].
  cbn [scaley map fval fst snd]. destruct (Qle_bool t (fst p1)).
  - unfold lin; simpl. unfold Qdiv. ring.
  - apply IH.
Qed.

Lemma tab_lo_scaley c l : tab_lo (scaley c l) = tab_lo l.
Proof. destruct l; reflexivity. Qed.
Lemma tab_hi_scaley c l : tab_hi (scaley c l) = tab_hi l.
Proof. unfold tab_hi, scaley. induction l as [|p r IH]; [reflexivity|]. destruct r as [|q r']; [reflexivity|]. exact IH. Qed.

Theorem get_av_chi_scale c tab v t : ~ c == 0 -> ~ fval tab v == 0 -> get_av_m (scaley c tab) v t == get_av_m tab v t.
Proof.
  intros Hc Hv. unfold get_av_m, interp0. rewrite tab_lo_scaley, tab_hi_scaley.
  destruct (Qlt_le_dec t (tab_lo tab)); [unfold Qdiv; ring|].
  destruct (Qlt_le_dec (tab_hi tab) t); [unfold Qdiv; ring|]. rewrite !fval_scaley. field. split; assumption.
Qed.

(* wavelengths (table, V and the query) expressed in another unit: multiplied by k > 0 *)
Lemma tab_lo_scalex k l : tab_lo (scalex k l) == k * tab_lo l.
Proof. destruct l as [|p r]; unfold tab_lo; simpl; ring. Qed.
Lemma tab_hi_scalex k l : tab_hi (scalex k l) == k * tab_hi l.
Proof. unfold tab_hi, scalex. induction l as [|p r IH]; [simpl; ring|]. destruct r as [|q r']; [simpl; ring|]. exact IH. Qed.

Theorem get_av_wav_units k tab v t : 0 < k -> incr tab ->
  get_av_m (scalex k tab) (k * v) (k * t) == get_av_m tab v t.
Proof.
  intros Hk Hi. unfold get_av_m, interp0.
  pose proof (tab_lo_scalex k tab) as El. pose proof (tab_hi_scalex k tab) as Eh.
  destruct (Qlt_le_dec (k * t) (tab_lo (scalex k tab))) as [A|A], (Qlt_le_dec t (tab_lo tab)) as [B|B].
  - unfold Qdiv; ring.
  - exfalso. rewrite El in A. nra.
  - exfalso. rewrite El in A. nra.
  - destruct (Qlt_le_dec (tab_hi (scalex k tab)) (k * t)) as [C|C], (Qlt_le_dec (tab_hi tab) t) as [D|D].
    + unfold Qdiv; ring.
    + exfalso. rewrite Eh in C. nra.
    + exfalso. rewrite Eh in C. nra.
    + rewrite !(fval_scale k tab _ Hk Hi). reflexivity.
Qed.
