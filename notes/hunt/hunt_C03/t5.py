# exhaustive flags, reference implementation
from common import *
import itertools, math
rng = np.random.RandomState(7)
LN10 = math.log(10.)

def ref_fit(valid, flux, err, logm, avl, avmin, avmax, logd=None):
    """logm: (n_models, n_wav) or (n_models, n_d, n_wav). returns av, sc, chi2, pred per model"""
    n = len(valid)
    y = np.zeros(n); w = np.zeros(n)
    for j in range(n):
        if valid[j] == 1:
            y[j] = math.log10(flux[j]) - 0.5 * (err[j] / flux[j]) ** 2 / LN10
            w[j] = 1 / (abs(err[j] / flux[j]) / LN10) ** 2
        elif valid[j] == 4:
            y[j] = flux[j]; w[j] = 1 / err[j] ** 2
        elif valid[j] in (2, 3):
            y[j] = math.log10(flux[j])
    used = [j for j in range(n) if valid[j] in (1, 4)]
    def chi2(pred):
        c = 0.
        for j in range(n):
            if valid[j] in (1, 4):
                c += (y[j] - pred[j]) ** 2 * w[j]
            elif valid[j] == 2 and pred[j] < y[j]:
                c += 1e30 if err[j] == 1 else -2 * math.log(1 - err[j])
            elif valid[j] == 3 and pred[j] > y[j]:
                c += 1e30 if err[j] == 1 else -2 * math.log(1 - err[j])
        return c
    out = []
    for m in range(logm.shape[0]):
        if logm.ndim == 2:
            r = y - logm[m]
            A = np.array([[avl[j], -2.] for j in used]); W = np.diag([w[j] for j in used])
            b = np.array([r[j] for j in used])
            M = A.T @ W @ A
            p = np.linalg.solve(M, A.T @ W @ b)
            av, sc = p
            if av < avmin or av > avmax:
                av = min(max(av, avmin), avmax)
                sc = sum((r[j] - av * avl[j]) * -2. * w[j] for j in used) / sum(4 * w[j] for j in used)
            pred = logm[m] + av * avl - 2 * sc
            out.append((av, sc, chi2(pred), pred))
        else:
            best = None
            for k in range(logm.shape[1]):
                r = y - logm[m, k]
                av = sum(r[j] * avl[j] * w[j] for j in used) / sum(avl[j] ** 2 * w[j] for j in used)
                av = min(max(av, avmin), avmax)
                pred = logm[m, k] + av * avl
                c = chi2(pred)
                if best is None or c < best[2]:
                    best = (av, logd[k], c, pred)
            out.append(best)
    return out

wavs = [0.8, 2., 4., 8., 16.]
nm = 5
names = ['m%d' % i for i in range(nm)]
worst = 0.
for mode in ('indep', 'dep'):
  for n in (2, 3, 4, 5):
    if mode == 'indep':
        fl = 10 ** rng.uniform(-1, 1, (nm, n))
        d, fn = make_dir(names, fl, wavs[:n])
    else:
        aps = np.logspace(2, 5, 6)
        fl = np.cumsum(10 ** rng.uniform(-1, 1, (nm, 6, n)), axis=1)
        d, fn = make_dir(names, fl, wavs[:n], apertures=aps)
    F = quiet(Fitter, fn, [3.]*n*u.arcsec, d, extinction_law=ext(), av_range=[0., 4.], distance_range=[1., 1.2]*u.kpc)
    logm = F.models.log_fluxes_mJy
    for valid in itertools.product([0, 1, 2, 3, 4, 9], repeat=n):
        nused = sum(v in (1, 4) for v in valid)
        if nused < (2 if mode == 'indep' else 1):
            continue
        flux = 10 ** rng.uniform(-0.5, 1.5, n); err = flux * rng.uniform(0.05, 0.3, n)
        f2 = flux.copy(); e2 = err.copy()
        for j, v in enumerate(valid):
            if v in (2, 3):
                e2[j] = rng.choice([0., 1., rng.uniform(0.01, .99)])
            if v == 4:
                f2[j] = math.log10(flux[j]) - 0.5 * (err[j] / flux[j]) ** 2 / LN10
                e2[j] = abs(err[j] / flux[j]) / LN10
            if v in (0, 9):
                f2[j] = rng.choice([0., -999., np.nan, np.inf, -np.inf, 3.]); e2[j] = rng.choice([0., -999., np.nan, np.inf, 1.])
        s = src(valid, f2, e2)
        info = F.fit(s)
        ref = ref_fit(valid, f2, e2, logm, F.av_law, 0., 4., F.models.logd)
        assert sorted(info.model_id) == list(range(nm))
        assert np.all(np.diff(info.chi2) >= 0), (valid, info.chi2)
        for row in range(nm):
            m = info.model_id[row]
            assert info.model_name[row] == names[m]
            av, sc, c, pred = ref[m]
            for a, b, what in ((info.av[row], av, 'av'), (info.sc[row], sc, 'sc'), (info.chi2[row], c, 'chi2')):
                tol = 1e-8 * max(1, abs(b))
                if not abs(a - b) <= tol:
                    print('MISMATCH', mode, 'nused=%d' % nused, valid, what, a, b, 'model', m, 'conf', e2)
                worst = max(worst, abs(a-b)/max(1,abs(b)))
            if not np.allclose(info.model_fluxes[row], pred, rtol=0, atol=1e-8):
                print('MISMATCHpred', mode, 'nused=%d' % nused, valid, m)
print('done', worst)
