(* C10 — fit() writes one faithful record per eligible source and reads back unchanged.
   Model: Loop.fit_file / StreamM.fit_file_m (the driver loop), Reader.read_all on the pickle framing model (Frame.v),
   History.run_copy / run_alias / run_file (post-processing calls on in-memory results vs a file).
   Object aliasing and pickle fidelity are run-time facts: the model has them as the explicit copy/alias semantics and as
   the framing model; the correspondence runs decide them for the implementation. *)
From Coq Require Import List Arith ZArith.
Import ListNotations.
From SedV Require Import Xnum Keep Loop History Frame Reader StreamM LoopProofs.

(* one record per source parsed before the first end-of-input line whose n_data reaches n_data_min, in input order,
   each produced by the same processing as the object interface; a rejected line propagates its error *)
Theorem C10_records : forall (line source record : Type) (parse : line -> parsed source) (n_data : source -> nat)
  (process : source -> record) nmin lines,
  fit_file line source record parse n_data process nmin lines =
  option_map (fun ss => map process (filter (fun s => nmin <=? n_data s) ss)) (sources_until_eof line source parse lines).
Proof. exact Loop.C10_records. Qed.

Theorem C10_records_exec : forall nmin lines,
  fit_file_m nmin lines =
  option_map (fun ss => map snd (filter (fun s => nmin <=? fst s) ss)) (sources_until_eof lkind (nat * Z) lparse lines).
Proof. exact fit_file_records. Qed.

(* a file of >= 0 well-formed pickles reads back as exactly the objects written (framing model of the stream) *)
Theorem C10_roundtrip : forall classify stopb, classify stopb = Some Stop ->
  forall frames, Forall (Forall (wf_inst classify)) frames -> forall fuel, length frames < fuel ->
  read_all classify fuel (file stopb frames) = (map (enc stopb) frames, Eof).
Proof. exact read_all_complete. Qed.

(* a sequence of post-processing calls on in-memory results handed out as copies gives the outputs of the same calls on a
   file, and leaves the caller's results unchanged *)
Theorem C10_history : forall (fit sel : Type) (nkeep : sel -> list fit -> nat) state ops,
  run_copy fit sel nkeep state ops = (run_file fit sel nkeep state ops, state).
Proof. exact History.C10_history. Qed.

Theorem C10_history_exec : forall state ops, history_copy state ops = (history_file state ops, lens state).
Proof. exact history_copy_is_file. Qed.

(* handing out the caller's own objects (in-place keep) does NOT have this property: N 1 then N 3 *)
Theorem C10_aliasing_refuted :
  fst (run_alias nat nat nkeepN [[10; 20; 30]] [1; 3]) <> run_file nat nat nkeepN [[10; 20; 30]] [1; 3]
  /\ snd (run_alias nat nat nkeepN [[10; 20; 30]] [1; 3]) <> [[10; 20; 30]].
Proof. exact History.C10_history_refuted. Qed.

(* never more records than lines read *)
Theorem C10_count : forall (line source record : Type) (parse : line -> parsed source) (n_data : source -> nat)
  (process : source -> record) nmin lines recs,
  fit_file line source record parse n_data process nmin lines = Some recs -> length recs <= length lines.
Proof. exact fit_file_count. Qed.

(* whatever follows the first end-of-input line is never looked at *)
Theorem C10_after_eof : forall (line source record : Type) (parse : line -> parsed source) (n_data : source -> nat)
  (process : source -> record) nmin pre l post post', parse l = PEof source ->
  fit_file line source record parse n_data process nmin (pre ++ l :: post) =
  fit_file line source record parse n_data process nmin (pre ++ l :: post').
Proof. exact fit_file_after_eof. Qed.

(* sources are processed one by one: the records of a file are those of a leading block of sources followed by those of the
   rest; a source's record does not depend on which sources surround it *)
Theorem C10_compositional : forall (line source record : Type) (parse : line -> parsed source) (n_data : source -> nat)
  (process : source -> record) nmin pre rest, Forall (fun l => exists s, parse l = PSource source s) pre ->
  fit_file line source record parse n_data process nmin (pre ++ rest) =
  match fit_file line source record parse n_data process nmin pre, fit_file line source record parse n_data process nmin rest with
  | Some a, Some b => Some (a ++ b) | _, _ => None end.
Proof. exact fit_file_app. Qed.

(* a rejected line before the end of input makes the call fail: no record list is returned, whatever surrounds the line *)
Theorem C10_rejected_line : forall (line source record : Type) (parse : line -> parsed source) (n_data : source -> nat)
  (process : source -> record) nmin pre l post, Forall (fun l => exists s, parse l = PSource source s) pre ->
  parse l = PError source ->
  fit_file line source record parse n_data process nmin (pre ++ l :: post) = None.
Proof. exact fit_file_error. Qed.

Example C10_example :
  fit_file_m 2 [LSource 3 10; LSource 1 11; LSource 2 12; LEof; LSource 5 13] = Some [10; 12]%Z.
Proof. reflexivity. Qed.
