"""
C03, clause "a lower (2) or upper (3) limit never enters the least-squares
solution ... so confidence 0 is equivalent to flag 0".

A limit band whose flux is a placeholder / not positive (-999, or an upper
limit of 0 mJy) makes EVERY fit output NaN (A_V, scale, chi^2 of all models),
even when its confidence is 0, although the same band with flag 0 (and the very
same numbers) leaves the fit of the three measured bands untouched.
log10(flux) of the limit band is NaN / -inf and is multiplied by its zero
weight in the regression sums (NaN * 0 = NaN), i.e. the limit DOES enter the
least-squares solution.  Shown with the object interface and with fit() on a
data file, for an aperture-independent and an aperture-dependent package.
"""
import os, io, sys, tempfile, contextlib
import numpy as np
from astropy import units as u
from astropy.table import Table
from sedfitter import fit
from sedfitter.fit import Fitter
from sedfitter.fit_info import FitInfoFile
from sedfitter.source import Source
from sedfitter.extinction import Extinction
from sedfitter.convolved_fluxes import ConvolvedFluxes

FILTERS = ['fa', 'fb', 'fc', 'fd']
WAVS = [1.2, 3.6, 8.0, 24.]


def make_pkg(apdep):
    rng = np.random.RandomState(1)
    d = tempfile.mkdtemp(prefix='pkg_')
    os.mkdir(os.path.join(d, 'convolved'))
    names = np.array(['model_%03d' % i for i in range(5)])
    for f, w in zip(FILTERS, WAVS):
        c = ConvolvedFluxes()
        c.central_wavelength = w * u.micron
        c.model_names = names
        if apdep:
            c.apertures = np.logspace(1, 6, 8) * u.au
            c.flux = np.cumsum(rng.uniform(0.5, 2, (5, 8)), axis=1) * u.mJy
        else:
            c.apertures = None
            c.flux = rng.uniform(0.5, 20, (5, 1)) * u.mJy
        c.error = c.flux * 0.01
        c.write(os.path.join(d, 'convolved', f + '.fits'))
    with open(os.path.join(d, 'models.conf'), 'w') as fh:
        fh.write("name = test\nlength_subdir = 0\naperture_dependent = %s\n"
                 "logd_step = 0.02\n" % ('yes' if apdep else 'no'))
    t = Table()
    t['MODEL_NAME'] = names.astype('S30')
    t['par1'] = rng.uniform(size=5)
    t.write(os.path.join(d, 'parameters.fits'))
    return d


ext = Extinction()
ext.wav = np.logspace(-2, 3, 60) * u.micron
ext.chi = ext.wav.value ** -1.5 * u.cm ** 2 / u.g

quiet = io.StringIO()
problems = []

for apdep in (False, True):
    d = make_pkg(apdep)
    kw = dict(extinction_law=ext, av_range=[0., 10.])
    if apdep:
        kw['distance_range'] = [1., 3.] * u.kpc
    with contextlib.redirect_stdout(quiet):
        fitter = Fitter(FILTERS, [3.] * 4 * u.arcsec, d, **kw)

    def run(flag, flux, conf):
        s = Source()
        s.name = 'x'
        s.valid = [1, 1, 1, flag]
        s.flux = [1., 2., 3., flux]
        s.error = [0.1, 0.2, 0.3, conf]
        return fitter.fit(s)

    ref = run(0, -999., 0.)          # band switched off with flag 0
    assert np.all(np.isfinite(ref.chi2)) and np.all(np.isfinite(ref.av))

    for flag, flux, conf, what in [(3, -999., 0., 'upper limit, placeholder flux, confidence 0'),
                                   (2, -999., 0., 'lower limit, placeholder flux, confidence 0'),
                                   (2, 0., 1., 'lower limit F >= 0 mJy (always satisfied), confidence 1'),
                                   (3, 0., 0.5, 'upper limit F <= 0 mJy, confidence 0.5')]:
        got = run(flag, flux, conf)
        if not (np.all(np.isfinite(got.av)) and np.all(np.isfinite(got.chi2))):
            problems.append("aperture_dependent=%s, %s: av=%s chi2=%s (flag 0 on the same band gives chi2=%s)"
                            % (apdep, what, got.av, got.chi2, ref.chi2))

    # the same through fit() on a data file
    tmp = tempfile.mkdtemp()
    data = os.path.join(tmp, 'data')
    with open(data, 'w') as fh:
        fh.write("off   0 0 1 1 1 0 1.0 0.1 2.0 0.2 3.0 0.3 -999 0\n")
        fh.write("conf0 0 0 1 1 1 3 1.0 0.1 2.0 0.2 3.0 0.3 -999 0\n")
    out = os.path.join(tmp, 'out.fitinfo')
    with contextlib.redirect_stdout(quiet):
        fit(data, FILTERS, [3.] * 4 * u.arcsec, d, out, n_data_min=3,
            output_format=('A',), **kw)
    a, b = list(FitInfoFile(out, 'r'))
    if not np.array_equal(a.chi2, b.chi2):
        problems.append("aperture_dependent=%s, fit(): flag 0 record chi2=%s, "
                        "confidence-0 upper limit record chi2=%s" % (apdep, a.chi2, b.chi2))

if problems:
    print("\n".join(problems))
    raise AssertionError("C03: a limit (flag 2/3) with a non-positive flux enters the least-squares "
                         "solution (all outputs NaN); confidence 0 is NOT equivalent to flag 0. "
                         "%i cases, first: %s" % (len(problems), problems[0]))
print("no violation")
