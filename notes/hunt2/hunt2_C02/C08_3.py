"""
C08 (clause: "building the convolved fluxes, fitting ... ranks m first", for the
cube format; corner "storage orders").

Input: a version-2 (cube) package whose flux.fits stores the SPECTRAL_INFO table
with the FREQUENCY column before the WAVELENGTH column (both columns present,
correctly named, correct units - only their order in the binary table differs
from what SEDCube.write produces).

SEDCube.read takes the DATA of the wavelengths by column name
(hdu.data['WAVELENGTH']) but the UNIT by position (hdu.columns[0].unit), so the
wavelengths get the unit Hz and the package is refused with
    TypeError: wav should be given in units of length
by convolve_model_dir and by Fitter (wavelength filters).  The same mismatch was
repaired in SED.read for the per-file format; the cube reader still has it.
With the columns in the other order the very same package recovers the planted
model (control below).
"""
import os
import io
import shutil
import tempfile
import contextlib

import numpy as np
from astropy import units as u
from astropy.io import fits
from astropy.table import Table

from sedfitter.sed import SEDCube
from sedfitter.filter import Filter
from sedfitter.extinction import Extinction
from sedfitter.convolve import convolve_model_dir
from sedfitter.convolved_fluxes import ConvolvedFluxes
from sedfitter import fit, write_parameters


def quiet(fn, *a, **k):
    with contextlib.redirect_stdout(io.StringIO()), contextlib.redirect_stderr(io.StringIO()):
        return fn(*a, **k)


def make_filters():
    out = []
    for name, lo, hi, cen in [('fa', 1., 2., 1.5), ('fb', 3., 5., 4.), ('fc', 7., 10., 8.), ('fd', 18., 30., 24.)]:
        f = Filter()
        f.name = name
        f.central_wavelength = cen * u.micron
        w = np.linspace(hi, lo, 30) * u.micron
        f.nu = w.to(u.Hz, equivalencies=u.spectral())
        f.response = 1. + np.sin(np.linspace(0., 3., 30)) ** 2
        f.normalize()
        out.append(f)
    return out


ext = Extinction()
ext.wav = np.logspace(-2, 3, 60) * u.micron
ext.chi = ext.wav.value ** -1.3 * u.cm ** 2 / u.g

wav = np.logspace(-1, 2.5, 80)
rng = np.random.default_rng(7)
names = ['model_%03d' % i for i in range(5)]
lw = np.log10(wav)
seds = np.array([10. ** (rng.uniform(0, 1) + rng.uniform(-1, 1) * lw + rng.uniform(-0.5, 0.5) * lw ** 2) for _ in names])
n_ap = 4
aps = np.logspace(2, 5, n_ap) * u.au
frac = np.linspace(0.4, 1., n_ap)
theta = np.array([2., 3., 4., 5.])
drange = np.array([0.5, 5.])
step = 0.05
n_d = 1 + int(np.ceil((np.log10(drange[1]) - np.log10(drange[0])) / step))
grid = np.logspace(np.log10(drange[0]), np.log10(drange[1]), n_d)
fnames = ['fa', 'fb', 'fc', 'fd']


def build(frequency_first):
    d = tempfile.mkdtemp()
    c = SEDCube()
    c.names = np.array(names)
    c.distance = 1 * u.kpc
    c.wav = wav * u.micron
    c.apertures = aps
    c.val = seds[:, None, :] * frac[None, :, None] * u.mJy
    c.unc = c.val * 0.01
    c.write(os.path.join(d, 'flux.fits'))
    if frequency_first:
        # rewrite the SPECTRAL_INFO extension with its two columns swapped
        with fits.open(os.path.join(d, 'flux.fits')) as h:
            old = h['SPECTRAL_INFO']
            cols = [fits.Column(name='FREQUENCY', format='D', unit='Hz', array=np.array(old.data['FREQUENCY'])),
                    fits.Column(name='WAVELENGTH', format='D', unit='um', array=np.array(old.data['WAVELENGTH']))]
            new = fits.BinTableHDU.from_columns(cols, name='SPECTRAL_INFO')
            hl = fits.HDUList([x.copy() if x.name != 'SPECTRAL_INFO' else new for x in h])
            hl.writeto(os.path.join(d, 'flux_new.fits'))
        os.replace(os.path.join(d, 'flux_new.fits'), os.path.join(d, 'flux.fits'))
        with fits.open(os.path.join(d, 'flux.fits')) as h:
            assert h['SPECTRAL_INFO'].columns.names == ['FREQUENCY', 'WAVELENGTH']
            assert h['SPECTRAL_INFO'].columns['WAVELENGTH'].unit == 'um'
    with open(os.path.join(d, 'models.conf'), 'w') as f:
        f.write("name = test\nlength_subdir = 0\naperture_dependent = yes\nlogd_step = %g\nversion = 2\n" % step)
    t = Table()
    t['MODEL_NAME'] = np.array(names, dtype='S30')
    t['par1'] = 100. + np.arange(len(names))
    t.write(os.path.join(d, 'parameters.fits'))
    return d


def pipeline(d):
    quiet(convolve_model_dir, d, make_filters())
    av0, d0 = 4., grid[9]
    fl, wv = [], []
    for i, fn in enumerate(fnames):
        c = ConvolvedFluxes.read(os.path.join(d, 'convolved', fn + '.fits'))
        idx = [x.strip() for x in c.model_names].index('model_002')
        ap = min(theta[i] * d0 * 1000., c.apertures.to(u.au).value.max())
        fl.append(np.interp(ap, c.apertures.to(u.au).value, c.flux[idx].to(u.mJy).value) / d0 ** 2)
        wv.append(c.central_wavelength.to(u.micron).value)
    k = ext.get_av(np.array(wv) * u.micron)
    flux = np.array(fl) * 10. ** (av0 * k)
    out = tempfile.mkdtemp()
    with open(os.path.join(out, 'data'), 'w') as fh:
        fh.write("src 0. 0. 1 1 1 1 " + " ".join("%.12e %.12e" % (x, 0.001 * x) for x in flux) + "\n")
    quiet(fit, os.path.join(out, 'data'), fnames, theta * u.arcsec, d, os.path.join(out, 'fits.fitinfo'),
          extinction_law=ext, av_range=[0., 20.], distance_range=drange * u.kpc, output_format=('A',))
    quiet(write_parameters, os.path.join(out, 'fits.fitinfo'), os.path.join(out, 'pars.txt'))
    r = open(os.path.join(out, 'pars.txt')).read().splitlines()[4].split()
    shutil.rmtree(out)
    ok = (r[1] == 'model_002' and float(r[2]) < 1e-2 and abs(float(r[3]) - av0) < 2e-3
          and abs(float(r[4]) - np.log10(d0)) < 2e-3 and abs(float(r[5]) - 102.) < 1e-6)
    return ok, r


# control: columns in the order written by SEDCube.write
d = build(frequency_first=False)
ok, r = pipeline(d)
shutil.rmtree(d)
assert ok, ("control failed", r)
print("control (WAVELENGTH, FREQUENCY):", r)

d = build(frequency_first=True)
try:
    ok, r = pipeline(d)
    msg = None if ok else "planted model not recovered: %s" % r
except Exception as e:
    msg = "%s: %s" % (type(e).__name__, e)
finally:
    shutil.rmtree(d)
print("columns (FREQUENCY, WAVELENGTH):", msg or r)

assert msg is None, ("C08: a cube package whose SPECTRAL_INFO table stores FREQUENCY before WAVELENGTH (columns "
                     "correctly named and with correct units) is refused - SEDCube.read takes the wavelength data "
                     "by name but its unit from column 0: " + msg)
