import numpy as np, pickle, itertools, random, string
from sedfitter.source import Source
rng = random.Random(3)
chars = [c for c in map(chr, range(33,127))]
nbad=0
for trial in range(20000):
    n = rng.randint(0,12)
    s = Source()
    L = rng.randint(1,40)
    s.name = ''.join(rng.choice(chars) for _ in range(L))
    s.x = rng.choice([0., -0., rng.uniform(-360,360), rng.uniform(-1e6,1e6), 1e-9, -1e-9, 359.999999])
    s.y = rng.uniform(-90,90)
    valid = [rng.choice([0,1,2,3,4,9]) for _ in range(n)]
    flux = [rng.choice([-999., -999.9, rng.choice([-1,1])*10**rng.uniform(-30,30), 0.0, 9.9996e5, 9.9995e-10]) for _ in range(n)]
    err = [rng.choice([-999., rng.choice([-1,1])*10**rng.uniform(-30,30), 0.0, 1.0]) for _ in range(n)]
    mode = rng.randint(0,2)
    if mode==0:
        s.valid=valid; s.flux=flux; s.error=err
    elif mode==1:
        s.valid=np.array(valid,dtype=int); s.flux=np.array(flux,dtype=float); s.error=np.array(err,dtype=float)
    else:
        s.valid=tuple(valid); s.flux=tuple(flux); s.error=tuple(err)
    try:
        line = s.to_ascii()
        s2 = Source.from_ascii(line)
    except Exception as e:
        print('EXC', type(e).__name__, e, n, mode, repr(s.name)); nbad+=1; 
        if nbad>10: break
        continue
    ok = s2.name==s.name and list(s2.valid)==valid and s2.n_wav==n
    ok = ok and abs(s2.x-s.x)<=0.5000001e-5*1.0000001 and abs(s2.y-s.y)<=0.5000001e-5
    for a,b in list(zip(s2.flux,flux))+list(zip(s2.error,err)):
        if b==0: ok = ok and a==0
        else: ok = ok and abs(a-b)<=abs(b)*5.0001e-4 and float('%11.3e'%b)==a
    ok = ok and len(s2.flux)==n and len(s2.error)==n
    # dict, pickle
    s3 = Source.from_dict(s.to_dict()); s4 = pickle.loads(pickle.dumps(s, 2)); s5 = pickle.loads(pickle.dumps(s))
    for t in (s3,s4,s5):
        ok = ok and t.name==s.name and t.x==s.x and t.y==s.y and np.array_equal(t.valid,s.valid) and np.array_equal(t.flux,s.flux) and np.array_equal(t.error,s.error) and t.valid.dtype==s.valid.dtype and t.flux.dtype==s.flux.dtype and type(t.x)==type(s.x)
    if not ok:
        print('MISMATCH', n, mode, repr(line)); nbad+=1
        if nbad>10: break
print('done', nbad)
