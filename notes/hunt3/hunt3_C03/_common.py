import os, tempfile, io, contextlib
import numpy as np
from astropy import units as u

def quiet(f, *a, **k):
    buf = io.StringIO()
    with contextlib.redirect_stdout(buf):
        return f(*a, **k)

def make_v1(names_per_filter, fluxes, wavs, filt_names, apertures=None, flux_unit=u.mJy):
    """fluxes: array (n_models, n_ap, n_filt) in order of names_per_filter[0]... we write each filter w/ its own order
    names_per_filter: list (per filter) of permutations (index arrays) of model names base list"""
    from sedfitter.convolved_fluxes import ConvolvedFluxes
    d = tempfile.mkdtemp()
    os.mkdir(os.path.join(d, 'convolved'))
    with open(os.path.join(d, 'models.conf'), 'w') as f:
        f.write("name = test\nlength_subdir = 0\naperture_dependent = %s\nlogd_step = 0.02\n" % ('yes' if apertures is not None else 'no'))
    return d

def extinction():
    from sedfitter.extinction import Extinction
    e = Extinction()
    e.wav = np.logspace(-2., 3., 50) * u.micron
    e.chi = e.wav.value ** -1.5 * u.cm ** 2 / u.g
    return e

def write_v1(names, fluxes, wavs, filt_names, apertures=None, orders=None, unit=u.mJy):
    """names: array of str (n_models); fluxes (n_models, n_ap, n_filt)"""
    from sedfitter.convolved_fluxes import ConvolvedFluxes
    d = tempfile.mkdtemp()
    os.mkdir(os.path.join(d, 'convolved'))
    with open(os.path.join(d, 'models.conf'), 'w') as f:
        f.write("name = test\nlength_subdir = 0\naperture_dependent = %s\nlogd_step = 0.02\n" % ('yes' if apertures is not None else 'no'))
    names = np.array(names)
    for i, fn in enumerate(filt_names):
        o = np.arange(len(names)) if orders is None else orders[i]
        c = ConvolvedFluxes(wavelength=wavs[i] * u.micron, model_names=names[o], apertures=apertures,
                            flux=fluxes[o, :, i] * unit, error=fluxes[o, :, i] * 0.01 * unit)
        c.write(os.path.join(d, 'convolved', fn + '.fits'))
    return d

def mksource(valid, flux, error, name='s'):
    from sedfitter.source import Source
    s = Source()
    s.name = name
    s.x = 0.; s.y = 0.
    s.valid = np.array(valid)
    s.flux = np.array(flux, dtype=float)
    s.error = np.array(error, dtype=float)
    return s

def result_dict(info):
    return {n: (a, s, c) for n, a, s, c in zip(info.model_name, info.av, info.sc, info.chi2)}
