import numpy as np, os, tempfile, sys
sys.path.insert(0, os.path.dirname(__file__))
from astropy import units as u
from sedfitter.filter import Filter
from sedfitter.sed import SEDCube
from sedfitter.convolve import convolve_model_dir
from sedfitter.fit import Fitter
from sedfitter.source import Source
from sedfitter.extinction import Extinction
from pk import *
ext = Extinction(); ext.wav = np.logspace(-2., 3.) * u.micron; ext.chi = ext.wav.value ** -2 * u.cm ** 2 / u.g
nm, nap, nw = 3, 2, 40
wav = np.logspace(-1, 3, nw) * u.micron
ap = np.array([10., 1e5]) * u.au
names = ['m0', 'm1', 'm2']
F = np.ones((nm, nap, nw)); F[1] *= 2; F[2] *= 1e-46 ; F[:, 1] *= 2
E = F * 0.01
filters = []
for k, (a, b) in enumerate([(1, 2), (3, 5), (8, 12)]):
    fw = np.linspace(a, b, 15) * u.micron
    f = Filter(name='f%d' % k, central_wavelength=(a + b) / 2 * u.micron, nu=fw.to(u.Hz, equivalencies=u.spectral()), response=np.ones(15)); f.normalize(); filters.append(f)
d2 = tempfile.mkdtemp()
cube = SEDCube(); cube.names = np.array(names); cube.distance = 1 * u.kpc; cube.wav = wav; cube.apertures = ap
cube.val = F * u.mJy; cube.unc = E * u.mJy; cube.write(d2 + '/flux.fits'); write_conf(d2, 2, False); write_pars(d2, names); convolve_model_dir(d2, filters)
s = Source(); s.name = 'x'; s.x = 0; s.y = 0; s.valid = np.array([1, 1, 1]); s.flux = np.array([1., 1.1, 0.9]); s.error = s.flux * 0.05
for mm in (True, False):
    ft = Fitter(['f0', 'f1', 'f2'], [3., 3., 3.] * u.arcsec, d2, extinction_law=ext, av_range=[0., 10.], distance_range=[1., 2.] * u.kpc, use_memmap=mm)
    info = ft.fit(s)
    print('RESULT', mm, list(info.model_name), info.chi2, info.av, info.sc)
