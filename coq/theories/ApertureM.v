(* Aperture interpolation of convolved fluxes and SEDs (ConvolvedFluxes.interpolate, SED.interpolate) and the
   wavelength-dependent variant used for plotting (SED.interpolate_variable). *)
From Coq Require Import QArith Qminmax Lqa Lia List Bool.
Import ListNotations.
Open Scope Q_scope.
From SedV Require Import PLin Interp Isub IsubProofs FitModel Fit3Proofs.

(* requests in another length unit: the table is used in its own unit, the request converted with factor k *)
Definition interp_clamp_unit_m (tab : list pt) (k r : Q) : option Q := interp_clamp_m tab (k * r).

Lemma incr_le_last l : incr l -> forall q, In q l -> fst q <= fst (last l (0, 0)).
Proof.
  induction l as [|a r IH]; intros Hi q Hin; [contradiction|]. destruct r as [|b r'].
  - destruct Hin as [<-|[]]. simpl. lra.
  - destruct Hi as [Hab Hi']. change (last (a :: b :: r') (0, 0)) with (last (b :: r') (0, 0)).
    destruct Hin as [<-|Hin].
    + specialize (IH Hi' b (or_introl eq_refl)). lra.
    + exact (IH Hi' q Hin).
Qed.

Lemma incr_bounds l q : incr l -> In q l -> tab_lo l <= fst q <= tab_hi l.
Proof.
  intros Hi Hin. split; [|unfold tab_hi; now apply incr_le_last].
  destruct l as [|p r]; [contradiction|].
  pose proof (incr_forall p r Hi) as F. rewrite Forall_forall in F.
  unfold tab_lo. simpl. destruct Hin as [<-|Hin]; [lra|]. specialize (F q Hin). lra.
Qed.

(* exact at a tabulated radius *)
Theorem interp_clamp_knot tab p : incr tab -> (2 <= length tab)%nat -> In p tab ->
  exists v, interp_clamp_m tab (fst p) = Some v /\ v == snd p.
Proof.
  intros Hi L Hin. destruct (incr_bounds tab p Hi Hin) as [B1 B2].
  rewrite (interp_clamp_inside tab (fst p) L B1 B2). eexists. split; [reflexivity|]. now apply fval_knot.
Qed.

Section VarAp.
Variable lg pw : Q -> Q.
Hypothesis pw_proper : forall a b, a == b -> pw a == pw b.

Definition lgtab (filt : list pt) : list pt := map (fun p => (lg (fst p), lg (snd p))) filt.

(* aperture as a function of wavelength: linear in log-log space between the filters, flat outside *)
Definition aperture_at (filt : list pt) (lam : Q) : Q :=
  let lt := lgtab filt in let x := lg lam in
  if Qlt_le_dec x (tab_lo lt) then pw (snd (hd (0, 0) lt))
  else if Qlt_le_dec (tab_hi lt) x then pw (snd (last lt (0, 0)))
  else pw (fval lt x).

Definition clipq (lo hi x : Q) : Q := Qmin (Qmax x lo) hi.

(* SED.interpolate_variable (repaired): filter apertures above the table are reset to the largest one, smaller than the smallest
   are refused; at every SED wavelength the flux column is interpolated at the (clipped) aperture of that wavelength *)
Definition sed_interp_var_m (filt : list pt) (amin amax : Q) (cols : list (Q * list pt)) : option (list Q) :=
  let filt' := map (fun p => (fst p, Qmin (snd p) amax)) filt in
  if Qeq_bool amin amax then Some (map (fun c => fval (snd c) amin) cols)      (* n_ap == 1: the single SED is returned *)
  else if existsb (fun p => negb (Qle_bool amin (snd p))) filt' then None
  else Some (map (fun c => fval (snd c) (clipq amin amax (aperture_at filt' (fst c)))) cols).

(* at a filter wavelength the aperture is that filter's aperture *)
Theorem aperture_at_knot filt p : incr (lgtab filt) -> In p filt -> pw (lg (snd p)) == snd p ->
  aperture_at filt (fst p) == snd p.
Proof.
  intros Hi Hin Hpw. unfold aperture_at.
  set (q := (lg (fst p), lg (snd p))).
  assert (Hq : In q (lgtab filt)) by (unfold lgtab; apply in_map_iff; exists p; split; [reflexivity|exact Hin]).
  destruct (incr_bounds _ q Hi Hq) as [B1 B2]. cbn [fst q] in B1, B2. change (fst q) with (lg (fst p)) in B1, B2.
  destruct (Qlt_le_dec (lg (fst p)) (tab_lo (lgtab filt))); [lra|].
  destruct (Qlt_le_dec (tab_hi (lgtab filt)) (lg (fst p))); [lra|].
  transitivity (pw (lg (snd p))); [|exact Hpw]. apply pw_proper. exact (fval_knot _ Hi q Hq).
Qed.
End VarAp.
