"""
C18 - "Every source of the input appears in exactly one of the two output files".

LOW-CONFIDENCE / arguably outside the quantifier ("any best-chi^2 values"
presupposes at least one fit per source): a results file may legally contain a
source with zero kept fits (fit() writes such records whenever output_format
keeps nothing, e.g. ('C', small), or the default ('F', 6.) when the best
chi^2 is infinite because remove_resolved rejected every model; CHANGES.md
v0.9.6 advertises support for sources with no valid fits).  filter_output
indexes chi2[0] unconditionally, so it dies with IndexError at that source:
the sources after it appear in NEITHER output file.
"""
import os
import sys
import tempfile
import warnings

import numpy as np
from astropy import units as u

warnings.simplefilter('ignore')

from sedfitter import filter_output
from sedfitter.fit_info import FitInfo, FitInfoFile
from sedfitter.source import Source
from sedfitter.extinction import Extinction

ext = Extinction()
ext.wav = np.logspace(-2, 3, 10) * u.micron
ext.chi = ext.wav.value ** -2 * u.cm ** 2 / u.g
filters = [{'aperture_arcsec': 3., 'name': 'a', 'wav': 1 * u.micron},
           {'aperture_arcsec': 3., 'name': 'b', 'wav': 2 * u.micron}]


def make(name, chi2):
    s = Source()
    s.name = name
    s.valid = [1, 1]
    s.flux = [1., 2.]
    s.error = [0.1, 0.2]
    info = FitInfo(s)
    n = len(chi2)
    info.chi2 = np.array(chi2, dtype=float)
    info.av = np.zeros(n)
    info.sc = np.zeros(n)
    info.model_name = np.array(['m%i' % i for i in range(n)])
    info.sort()
    info.meta.model_dir = '/nonexistent'
    info.meta.filters = filters
    info.meta.extinction_law = ext
    return info


tmp = tempfile.mkdtemp()
path = os.path.join(tmp, 'output.fitinfo')
fout = FitInfoFile(path, 'w')
for name, chi2 in [('s1', [1.0, 5.0]), ('s2', [20.0, 25.]), ('s3', [0.5])]:
    info = make(name, chi2)
    info.keep(('C', 10.))        # what fit(..., output_format=('C', 10.)) does: s2 keeps 0 fits
    fout.write(info)
fout.close()

try:
    filter_output(path, chi=3.)
except Exception as exc:
    err = exc
else:
    err = None


def names(p):
    try:
        fin = FitInfoFile(p, 'r')
    except EOFError:
        return []
    out = [i.source.name for i in fin]
    fin.close()
    return out


good, bad = names(path + '_good'), names(path + '_bad')
if err is not None or sorted(good + bad) != ['s1', 's2', 's3']:
    print("FAIL: C18 'every source appears in exactly one of the two output files': input with sources "
          "s1 (best chi^2 1.0), s2 (no fit kept by output_format=('C', 10.)), s3 (best chi^2 0.5), chi=3.: "
          "filter_output raised %s: %s; good file holds %s, bad file holds %s - missing from both: %s."
          % (type(err).__name__, err, good, bad, sorted(set(['s1', 's2', 's3']) - set(good + bad))))
    sys.exit(1)
print("OK")
