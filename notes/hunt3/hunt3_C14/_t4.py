import sys, os, tempfile
import numpy as np
from astropy import units as u
from astropy.table import Table
from sedfitter.sed import SEDCube
from sedfitter.models import Models
from sedfitter.fit import Fitter
from sedfitter.extinction import Extinction

def build_cube(wav, n_ap=1, n_models=3, unit=u.mJy, wav_unit=u.micron, apdep=False, seed=0):
    d = tempfile.mkdtemp()
    rng = np.random.RandomState(seed)
    c = SEDCube()
    c.names = np.array(['m%d' % i for i in range(n_models)])
    c.distance = 1 * u.kpc
    c.wav = (np.asarray(wav, float) * u.micron).to(wav_unit)
    if n_ap > 1 or apdep:
        c.apertures = np.array([10., 100., 1000.])[:n_ap] * u.au
    c.val = (1 + rng.random_sample((n_models, n_ap, len(wav)))) * unit
    c.unc = c.val * 0.01
    c.write(d + '/flux.fits')
    with open(d + '/models.conf', 'w') as f:
        f.write("name = test\nlength_subdir = 0\naperture_dependent = %s\nlogd_step = 0.02\nversion = 2\n" % ('yes' if apdep else 'no'))
    t = Table(); t['MODEL_NAME'] = np.array(c.names, dtype='S'); t['p'] = rng.random_sample(n_models)
    t.write(d + '/parameters.fits')
    return d, c

ext = Extinction(); ext.wav = np.logspace(-2, 4, 50) * u.micron; ext.chi = ext.wav.value ** -1.5 * u.cm**2 / u.g

for wavs in ([0.5, 1, 2, 4], [4, 2, 1, 0.5], [1, 3], [0.3, 0.55, 0.9, 1.2, 7, 30, 100, 500, 1000]):
  for wav_unit in (u.micron, u.nm, u.m, u.AA):
    for memmap in (True, False):
      d, c = build_cube(wavs, wav_unit=wav_unit)
      wv = np.array(wavs, float)
      qs = []
      for w in wv:
          qs += [w, w * 1.01, w * 0.99]
      qs += list(np.sqrt(wv[:-1] * wv[1:])) + [wv.min() / 3, wv.max() * 3]
      for qunit in (u.micron, u.nm, u.cm):
        filt = [ (q * u.micron).to(qunit) for q in qs]
        f = Fitter(filt, [3.] * len(filt) * u.arcsec, d, extinction_law=ext, av_range=[0, 1], use_memmap=memmap)
        fl = f.models.fluxes.value
        for k, q in enumerate(qs):
            i = int(np.argmin(np.abs(wv - q)))
            e = c.val[:, 0, i].value
            if not np.allclose(fl[:, k], e, rtol=1e-6): print('MISMATCH', wavs, wav_unit, memmap, qunit, q, fl[:, k], e)
print('done')
