import numpy as np, pickle, itertools, random
from sedfitter.source import Source
toks = ['5','6','7','8','10','-1','-0','+1','01','09','1.0','1.','1e0','0x1','0b1','0o1','1_0','0_1','1_','_1','True','nan','inf','18446744073709551617','4294967297','18446744073709551625','٣','１','9.0','1L','1j','']
for t in toks:
    line = 'nm 0 0 %s 1.0 0.1'%t
    try:
        s = Source.from_ascii(line)
        print(repr(t),'->',s.valid, s.flux, s.error)
    except Exception as e:
        print(repr(t),'ERR',type(e).__name__, str(e)[:60])
# numeric tokens for flux
for t in ['1_0.5','1d5','0x10','1e400','-1e400','１.５','1,5','1.5f','.5','5.','+.5e+1','infinity','NAN','1e','--1']:
    line = 'nm 0 0 1 %s 0.1'%t
    try:
        s = Source.from_ascii(line)
        print(repr(t),'->',s.valid, s.flux, s.error)
    except Exception as e:
        print(repr(t),'ERR',type(e).__name__, str(e)[:60])
for t in ['1_0.5','1d5','0x10','１.５','.5','1e400']:
    line = 'nm %s 0 1 1.0 0.1'%t
    try:
        s = Source.from_ascii(line)
        print(repr(t),'->',s.x)
    except Exception as e:
        print(repr(t),'ERR',type(e).__name__, str(e)[:60])
