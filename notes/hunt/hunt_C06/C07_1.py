"""
C07 - "fits made from either [package format], memory-mapped or not, agree".

Models._read_version_2 stores the convolved model fluxes in a float32 np.memmap when
use_memmap=True (the default, and the only mode reachable through sedfitter.fit()),
but in float64 when use_memmap=False; per-file packages (_read_version_1) always use
float64.  The convolved-flux files are identical (to 1e-15) in the two formats, yet
the fits are not: chi^2, A_V and scale differ at the 1e-7 relative level (absolute
chi^2 differences of ~0.1 for well-measured sources), i.e. eight orders of magnitude
above rounding, between
   cube + use_memmap=True   and   cube + use_memmap=False   (same files!)
   cube + use_memmap=True   and   per-file package.
"""
import os
import tempfile

import numpy as np
from astropy import units as u
from astropy.table import Table

from sedfitter.filter import Filter
from sedfitter.sed import SED, SEDCube
from sedfitter.convolve import convolve_model_dir
from sedfitter.convolved_fluxes import ConvolvedFluxes
from sedfitter.fit import Fitter
from sedfitter.source import Source
from sedfitter.extinction import Extinction


def conf(d, version):
    with open(os.path.join(d, 'models.conf'), 'w') as f:
        f.write("name = test\nlength_subdir = 0\naperture_dependent = yes\nlogd_step = 0.02\n")
        if version == 2:
            f.write("version = 2\n")


def pars(d, names):
    t = Table()
    t['MODEL_NAME'] = np.array(names, dtype='S30')
    t['par1'] = np.arange(len(names), dtype=float)
    t.write(os.path.join(d, 'parameters.fits'))


rng = np.random.RandomState(12345)
nm, nap, nw = 8, 5, 60
names = ['model_%04d' % i for i in range(nm)]
wav = np.logspace(-1., 3., nw) * u.micron
nu = wav.to(u.Hz, equivalencies=u.spectral())
ap = np.logspace(1., 5., nap) * u.au
F = np.cumsum(10 ** rng.uniform(-2, 2, (nm, nap, nw)), axis=1)      # double precision
E = 0.01 * F

filters = []
for k, (a, b) in enumerate([(1, 2), (3, 5), (8, 12), (20, 30)]):
    fw = np.linspace(a, b, 15) * u.micron
    f = Filter(name='f%d' % k, central_wavelength=0.5 * (a + b) * u.micron,
               nu=fw.to(u.Hz, equivalencies=u.spectral()), response=rng.uniform(0.1, 1, 15))
    f.normalize()
    filters.append(f)

# per-file package
d1 = tempfile.mkdtemp()
os.mkdir(os.path.join(d1, 'seds'))
for i, n in enumerate(names):
    s = SED()
    s.name = n
    s.distance = 1 * u.kpc
    s.wav = wav
    s.nu = nu
    s.apertures = ap
    s.flux = F[i] * u.mJy
    s.error = E[i] * u.mJy
    s.write(os.path.join(d1, 'seds', n + '_sed.fits'))
conf(d1, 1)
pars(d1, names)
convolve_model_dir(d1, filters)

# cube package, same SEDs, double precision
d2 = tempfile.mkdtemp()
cube = SEDCube()
cube.names = np.array(names)
cube.distance = 1 * u.kpc
cube.wav = wav
cube.apertures = ap
cube.val = F * u.mJy
cube.unc = E * u.mJy
cube.write(os.path.join(d2, 'flux.fits'))
conf(d2, 2)
pars(d2, names)
convolve_model_dir(d2, filters)

# the convolved files agree to rounding
for f in filters:
    a = ConvolvedFluxes.read(os.path.join(d1, 'convolved', f.name + '.fits'))
    b = ConvolvedFluxes.read(os.path.join(d2, 'convolved', f.name + '.fits'))
    assert np.all(a.model_names == b.model_names)
    assert np.allclose(a.flux.value, b.flux.value, rtol=1e-13, atol=0)

ext = Extinction()
ext.wav = np.logspace(-2., 3.) * u.micron
ext.chi = ext.wav.value ** -2 * u.cm ** 2 / u.g

src = Source()
src.name = 'src'
src.x = 0.
src.y = 0.
src.valid = np.array([1, 1, 1, 1])
src.flux = np.array([1., 3., 8., 20.])
src.error = src.flux * 0.001          # 0.1 per cent photometry

res = {}
for key, d, mm in (('per-file', d1, True), ('cube/memmap', d2, True), ('cube/no-memmap', d2, False)):
    fitter = Fitter(['f0', 'f1', 'f2', 'f3'], [3., 3., 3., 3.] * u.arcsec, d,
                    extinction_law=ext, av_range=[0., 10.],
                    distance_range=[1., 2.] * u.kpc, use_memmap=mm)
    res[key] = fitter.fit(src)

print()
for key in res:
    print("%-15s best=%s chi2=%r av=%r" % (key, res[key].model_name[0], res[key].chi2[0], res[key].av[0]))

ref = res['cube/no-memmap']
# without memory-mapping the two formats agree to rounding
assert np.allclose(res['per-file'].chi2, ref.chi2, rtol=1e-12, atol=0)

mm = res['cube/memmap']
rel = np.max(np.abs(mm.chi2 / ref.chi2 - 1))
absd = np.max(np.abs(mm.chi2 - ref.chi2))
dav = np.max(np.abs(mm.av - ref.av))
assert rel < 1e-10, (
    "C07 'fits ... memory-mapped or not, agree' fails: same cube package, same source, "
    "use_memmap=True vs False: chi2 differs by up to %.2e relative (%.3g absolute), "
    "A_V by up to %.2e, because use_memmap=True keeps the model fluxes in float32; the "
    "same discrepancy separates the default cube fit from the per-file fit" % (rel, absd, dav))
print("no violation")
