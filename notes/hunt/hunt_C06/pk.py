"""helpers to build packages (scratch, not a finding)"""
import os, gzip, shutil
import numpy as np
from astropy import units as u
from astropy.io import fits
from astropy.table import Table


def write_sed_raw(filename, name, wav, ap, flux, err, distance=None, gz=False, dtype=None):
    """wav: Quantity (any order); flux, err: Quantity (n_ap, n_wav) in the same order as wav"""
    nu = wav.to(u.Hz, equivalencies=u.spectral())
    hdu0 = fits.PrimaryHDU()
    hdu0.header['MODEL'] = name
    if distance is not None:
        hdu0.header['DISTANCE'] = distance.to(u.cm).value
    hdu0.header['NAP'] = len(ap)
    hdu0.header['NWAV'] = len(wav)
    t = Table()
    t['WAVELENGTH'] = wav.value
    t['FREQUENCY'] = nu.value
    h1 = fits.BinTableHDU(np.array(t))
    h1.columns[0].unit = wav.unit.to_string(format='fits')
    h1.columns[1].unit = 'Hz'
    h1.header['EXTNAME'] = 'WAVELENGTHS'
    t = Table()
    t['APERTURE'] = ap.value
    h2 = fits.BinTableHDU(np.array(t))
    h2.columns[0].unit = ap.unit.to_string(format='fits')
    h2.header['EXTNAME'] = 'APERTURES'
    t = Table()
    fv, ev = flux.value, err.value
    if dtype is not None:
        fv, ev = fv.astype(dtype), ev.astype(dtype)
    t['TOTAL_FLUX'] = fv
    t['TOTAL_FLUX_ERR'] = ev
    h3 = fits.BinTableHDU(np.array(t))
    h3.columns[0].unit = flux.unit.to_string(format='fits')
    h3.columns[1].unit = err.unit.to_string(format='fits')
    h3.header['EXTNAME'] = 'SEDS'
    fits.HDUList([hdu0, h1, h2, h3]).writeto(filename)
    if gz:
        with open(filename, 'rb') as fi, gzip.open(filename + '.gz', 'wb') as fo:
            shutil.copyfileobj(fi, fo)
        os.remove(filename)


def write_conf(d, version=1, aperture_dependent=True):
    with open(os.path.join(d, 'models.conf'), 'w') as f:
        f.write("name = test\n")
        f.write("length_subdir = 0\n")
        f.write("aperture_dependent = %s\n" % ('yes' if aperture_dependent else 'no'))
        f.write("logd_step = 0.02\n")
        if version == 2:
            f.write("version = 2\n")


def write_pars(d, names, S=None):
    t = Table()
    t['MODEL_NAME'] = np.array(names, dtype='S' if S is None else S)
    t['par1'] = np.arange(len(names), dtype=float)
    t.write(os.path.join(d, 'parameters.fits'))
