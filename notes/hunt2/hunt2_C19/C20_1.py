"""
C20, clause "a line whose column count does not fit that layout ... is rejected
with an error instead of being mis-assigned".

Configuration: fit() with ONE filter (n = 1) on an aperture-independent model
package.  A data line for n = 1 has 3*(1+1) = 6 columns.  A line with 9
columns (= 3n+6, inside the stated range of column counts 0..3n+6) or 12
columns does not fit the layout for the filter list given to fit(), yet it is
not rejected: Source.from_ascii reads it as a 2- (3-) band source, and
Models.fit broadcasts the (2,) data against the (n_models, 1) model fluxes, so
BOTH (flux, error) pairs are fitted against the single filter 'alice' and a
record is written to the output file.  (With two or more filters the same
mismatch happens to stop with a broadcasting error.)
"""
import os
import sys
import io
import tempfile
import contextlib

import numpy as np
from astropy import units as u
from astropy.table import Table

from sedfitter import fit
from sedfitter.sed import SEDCube
from sedfitter.filter import Filter
from sedfitter.convolve import convolve_model_dir
from sedfitter.extinction import Extinction
from sedfitter.fit_info import FitInfoFile

quiet = contextlib.redirect_stdout(io.StringIO())

d = tempfile.mkdtemp()
rng = np.random.RandomState(12345)
nmod = 5
cube = SEDCube()
cube.names = np.array(['model_{0:04d}'.format(i) for i in range(nmod)])
cube.distance = 1 * u.kpc
cube.wav = np.logspace(-2., 3., 100) * u.micron
cube.apertures = None
cube.val = (1 + rng.random_sample((nmod, 1, 100))) * u.mJy
cube.unc = cube.val * 0.01
cube.write(os.path.join(d, 'flux.fits'))
with open(os.path.join(d, 'models.conf'), 'w') as f:
    f.write("name = test\nlength_subdir = 0\naperture_dependent = no\nlogd_step = 0.02\nversion = 2\n")
t = Table()
t['MODEL_NAME'] = np.array(cube.names, dtype='S')
t['par1'] = rng.random_sample(nmod)
t.write(os.path.join(d, 'parameters.fits'))

flt = Filter()
flt.name = 'alice'
flt.central_wavelength = 3. * u.micron
flt.nu = (np.linspace(5., 1., 100) * u.micron).to(u.Hz, equivalencies=u.spectral())
flt.response = rng.random_sample(100) + 0.1
flt.normalize()
with quiet:
    convolve_model_dir(d, filters=[flt])

ext = Extinction()
ext.wav = np.logspace(-2., 3.) * u.micron
ext.chi = ext.wav.value ** -2 * u.cm ** 2 / u.g


def run(line, tag):
    data = os.path.join(d, 'data_' + tag)
    with open(data, 'w') as f:
        f.write(line + "\n")
    out = os.path.join(d, 'out_' + tag)
    with quiet:
        fit(data, ['alice'], [3.] * u.arcsec, d, out, n_data_min=1,
            extinction_law=ext, distance_range=[1., 2.] * u.kpc,
            av_range=[0., 1.], output_format=('A',), output_convolved=True)
    fin = FitInfoFile(out, 'r')
    recs = list(fin)
    fin.close()
    return recs


# control: the 6-column line that fits the layout for one filter
recs = run("src 0.0 0.0 1 1.5 0.1", 'ok')
assert len(recs) == 1 and recs[0].source.n_wav == 1

failures = []
for tag, line in [('9cols', "src 0.0 0.0 1 1 1.5 0.1 2.5 0.2"),
                  ('12cols', "src 0.0 0.0 1 1 1 1.5 0.1 2.5 0.2 3.5 0.3")]:
    ncol = len(line.split())
    try:
        recs = run(line, tag)
    except Exception as exc:
        print("%d columns: rejected with %s (as the statement promises)" % (ncol, type(exc).__name__))
        continue
    r = recs[0]
    failures.append("%d-column line accepted by fit() with 1 filter: record written with "
                    "source.n_wav=%d, flux=%s, but %d filter(s) in meta and model_fluxes of shape %s; chi2[:2]=%s"
                    % (ncol, r.source.n_wav, r.source.flux, len(r.meta.filters), r.model_fluxes.shape, r.chi2[:2]))

assert not failures, ("C20 'column count that does not fit the layout is rejected with an error "
                      "instead of being mis-assigned' fails for n = 1 filter:\n  " + "\n  ".join(failures))
print("no violation")
