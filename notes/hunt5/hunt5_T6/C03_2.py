"""
C03, clause "confidence 0 is equivalent to flag 0" (and "points flagged 0 or 9
never influence any fit output"), on flag vectors WITHOUT any fitted point,
which the quantifier enumerates ("every flag vector in {0,1,2,3,4,9}^n") and
which fit() admits with n_data_min=0.

  flags (0,0,0,0)                      -> chi^2 = 0   for every model
  flags (3,0,0,0), confidence 0        -> chi^2 = NaN for every model
  flags (9,0,0,0)                      -> chi^2 = NaN for every model

The band that is supposed to be ignored therefore changes the fit output, and
through fit(..., n_data_min=0, output_format=('C', 1.)) it changes the number
of fits stored in the record (all models vs none).  Cause: with no fitted
point A_V is 0/0 = NaN; chi_squared() forces the term of a flag-0 band to 0
but leaves (data - NaN)**2 * 0 = NaN for flag 9 / 2 / 3 bands.
(Degenerate input: there is nothing to fit; reported because it is inside the
literal quantifier.)
"""
import os, io, tempfile, contextlib
import numpy as np
from astropy import units as u
from astropy.table import Table
from sedfitter import fit
from sedfitter.fit import Fitter
from sedfitter.fit_info import FitInfoFile
from sedfitter.source import Source
from sedfitter.extinction import Extinction
from sedfitter.convolved_fluxes import ConvolvedFluxes

FILTERS = ['fa', 'fb', 'fc', 'fd']
WAVS = [1.2, 3.6, 8.0, 24.]


def make_pkg(apdep):
    rng = np.random.RandomState(1)
    d = tempfile.mkdtemp(prefix='pkg_')
    os.mkdir(os.path.join(d, 'convolved'))
    names = np.array(['model_%03d' % i for i in range(5)])
    for f, w in zip(FILTERS, WAVS):
        c = ConvolvedFluxes()
        c.central_wavelength = w * u.micron
        c.model_names = names
        if apdep:
            c.apertures = np.logspace(1, 6, 8) * u.au
            c.flux = np.cumsum(rng.uniform(0.5, 2, (5, 8)), axis=1) * u.mJy
        else:
            c.apertures = None
            c.flux = rng.uniform(0.5, 20, (5, 1)) * u.mJy
        c.error = c.flux * 0.01
        c.write(os.path.join(d, 'convolved', f + '.fits'))
    with open(os.path.join(d, 'models.conf'), 'w') as fh:
        fh.write("name = test\nlength_subdir = 0\naperture_dependent = %s\n"
                 "logd_step = 0.02\n" % ('yes' if apdep else 'no'))
    t = Table()
    t['MODEL_NAME'] = names.astype('S30')
    t['par1'] = rng.uniform(size=5)
    t.write(os.path.join(d, 'parameters.fits'))
    return d


def same(a, b):
    a = np.asarray(a, dtype=float)
    b = np.asarray(b, dtype=float)
    return a.shape == b.shape and bool(np.all((a == b) | (np.isnan(a) & np.isnan(b))))


ext = Extinction()
ext.wav = np.logspace(-2, 3, 60) * u.micron
ext.chi = ext.wav.value ** -1.5 * u.cm ** 2 / u.g
quiet = io.StringIO()
problems = []

for apdep in (False, True):
    d = make_pkg(apdep)
    kw = dict(extinction_law=ext, av_range=[0., 10.])
    if apdep:
        kw['distance_range'] = [1., 3.] * u.kpc
    with contextlib.redirect_stdout(quiet):
        fitter = Fitter(FILTERS, [3.] * 4 * u.arcsec, d, **kw)

    def run(flags, conf):
        s = Source()
        s.name = 'x'
        s.valid = flags
        s.flux = [1., 2., 3., 4.]
        s.error = [conf, 0.2, 0.3, 0.4]
        return fitter.fit(s)

    off = run([0, 0, 0, 0], 0.)
    lim = run([3, 0, 0, 0], 0.)
    plo = run([9, 0, 0, 0], 0.1)
    if not same(off.chi2, lim.chi2):
        problems.append("aperture_dependent=%s: flags (0,0,0,0) chi2=%s but (3,0,0,0) with confidence 0 chi2=%s"
                        % (apdep, off.chi2, lim.chi2))
    if not same(off.chi2, plo.chi2):
        problems.append("aperture_dependent=%s: flags (0,0,0,0) chi2=%s but (9,0,0,0) chi2=%s"
                        % (apdep, off.chi2, plo.chi2))

    tmp = tempfile.mkdtemp()
    data = os.path.join(tmp, 'data')
    with open(data, 'w') as fh:
        fh.write("off   0 0 0 0 0 0 1.0 0 2.0 0.2 3.0 0.3 4.0 0.4\n")
        fh.write("conf0 0 0 3 0 0 0 1.0 0 2.0 0.2 3.0 0.3 4.0 0.4\n")
    out = os.path.join(tmp, 'out.fitinfo')
    with contextlib.redirect_stdout(quiet):
        fit(data, FILTERS, [3.] * 4 * u.arcsec, d, out, n_data_min=0,
            output_format=('C', 1.), **kw)
    a, b = list(FitInfoFile(out, 'r'))
    if a.n_fits != b.n_fits:
        problems.append("aperture_dependent=%s: fit(n_data_min=0, output_format=('C',1)) stores %i fits for "
                        "flags (0,0,0,0) and %i fits for (3,0,0,0) with confidence 0"
                        % (apdep, a.n_fits, b.n_fits))

if problems:
    print("\n".join(problems))
    raise AssertionError("C03: on a flag vector without fitted points a confidence-0 limit / a flag-9 band is "
                         "not equivalent to flag 0: " + problems[0])
print("no violation")
