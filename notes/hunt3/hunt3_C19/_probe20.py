import itertools, pickle, sys
import numpy as np
from sedfitter.source import Source
rng = np.random.RandomState(0)
FL = [0,1,2,3,4,9]
# column count
for n in range(0, 13):
    for ncols in range(0, 3*n+7):
        cols = ["nm", "1.0", "2.0"] + ["1"]*n + ["3.5", "0.1"]*n
        base = ["nm", "1.0", "2.0"] + ["1"]*20 + ["3.5"]*40
        # build a line with ncols columns: several variants
        variants = []
        variants.append(["nm", "1.0", "2.0"][:ncols] + ["1"] * max(0, ncols-3))
        variants.append(["nm", "1.0", "2.0"][:ncols] + ["1.5"] * max(0, ncols-3))
        variants.append((cols + ["1"]*10)[:ncols])
        for v in variants:
            line = " ".join(v)
            try:
                s = Source.from_ascii(line)
                res = "ok n=%d" % s.n_wav
                ok = True
            except EOFError:
                res = "EOF"
            except Exception as e:
                res = type(e).__name__
            exp_ok = ncols >= 3 and ncols % 3 == 0
            if ncols < 3:
                assert res == "EOF", (ncols, res)
            elif not exp_ok:
                assert not res.startswith("ok"), (n, ncols, v, res)
            else:
                pass
print("colcount fine")
# flags
for bad in ["5","6","7","8","-1","10","1.0","1.5","a","nan","1e0","+1","01","0_1","1_0", "１", "0x1", "True"]:
    try:
        s = Source.from_ascii("nm 1 2 %s 1.0 0.1" % bad)
        print("flag", repr(bad), "accepted ->", s.valid, s.valid.dtype)
    except Exception as e:
        print("flag", repr(bad), "rejected", type(e).__name__)
# roundtrip
import string
chars = [c for c in string.printable if not c.isspace()]
nb = 0
for trial in range(3000):
    n = rng.randint(0, 13)
    s = Source()
    s.name = "".join(rng.choice(chars, size=rng.randint(1, 41)))
    s.x = float(rng.uniform(-360, 360)); s.y = float(rng.uniform(-90, 90))
    s.valid = rng.choice(FL, size=n)
    fl = 10.**rng.uniform(-30, 30, size=n) * rng.choice([-1, 1], size=n)
    er = 10.**rng.uniform(-30, 30, size=n) * rng.choice([-1, 1], size=n)
    m = rng.rand(n) < 0.2
    fl[m] = -999.; er[m] = -999.
    s.flux = fl; s.error = er
    line = s.to_ascii()
    s2 = Source.from_ascii(line)
    assert s2.name == s.name, (s.name, s2.name)
    assert np.array_equal(s2.valid, s.valid)
    assert s2.n_wav == n
    for a, b in zip(s.flux, s2.flux):
        assert float("%11.3e" % a) == b, (a, b)
    for a, b in zip(s.error, s2.error):
        assert float("%11.3e" % a) == b, (a, b)
    assert abs(s2.x - s.x) <= 0.5e-5 and abs(s2.y - s.y) <= 0.5e-5
    s3 = Source.from_dict(s.to_dict())
    s4 = pickle.loads(pickle.dumps(s, 2))
    for t in (s3, s4):
        assert t.name == s.name and t.x == s.x and t.y == s.y
        assert np.array_equal(t.valid, s.valid) and np.array_equal(t.flux, s.flux) and np.array_equal(t.error, s.error)
        assert t.valid.dtype == s.valid.dtype and t.flux.dtype == s.flux.dtype
print("roundtrip fine")
