From Coq Require Import List Arith Lia Bool ZArith QArith ZifyNat ZifyBool.
Import ListNotations.
Close Scope Q_scope.
Ltac Zify.zify_post_hook ::= Z.to_euclidean_division_equations.
From SedV Require Import SrcAscii.

(* a line laid out as the data-format page says: name x y, n flags, then n (flux, error) pairs *)
Definition tok_num (q : Q) : token := {| t_key := 0; t_int := None; t_float := Some q |}.
Definition tok_flag (z : Z) : token := {| t_key := 0; t_int := Some z; t_float := Some (inject_Z z) |}.
Definition tok_name (k : Z) : token := {| t_key := k; t_int := None; t_float := None |}.
Definition layout (name : Z) (x y : Q) (flags : list Z) (flux err : list Q) : list token :=
  tok_name name :: tok_num x :: tok_num y :: map tok_flag flags ++ interleave (map tok_num flux) (map tok_num err).

Lemma all_some_map_flag flags : all_some t_int (map tok_flag flags) = Some flags.
Proof. induction flags as [|z r IH]; simpl; [reflexivity|]. now rewrite IH. Qed.
Lemma all_some_interleave flux err : length flux = length err ->
  all_some t_float (interleave (map tok_num flux) (map tok_num err)) = Some (interleave flux err).
Proof. revert err; induction flux as [|f r IH]; intros [|e er] H; simpl in *; try lia; [reflexivity|]. rewrite IH by lia. reflexivity. Qed.
Lemma interleave_length {A} (f e : list A) : length f = length e -> length (interleave f e) = 2 * length f.
Proof. revert e; induction f as [|x f IH]; intros [|y e] H; simpl in *; try lia. rewrite IH; lia. Qed.

Theorem C20_layout name x y flags flux err :
  length flux = length flags -> length err = length flags -> forallb flag_ok flags = true ->
  from_ascii_m (layout name x y flags flux err) =
  Ok {| s_name := name; s_x := x; s_y := y; s_flags := flags; s_flux := flux; s_err := err |}.
Proof.
  intros Hf He Hok. set (n := length flags).
  assert (Hlen : length (layout name x y flags flux err) = 3 + 3 * n).
  { unfold layout. simpl. rewrite app_length, map_length, interleave_length by (rewrite !map_length; lia).
    rewrite map_length. fold n. lia. }
  unfold from_ascii_m. rewrite Hlen.
  replace (3 + 3 * n <? 3) with false by (symmetry; apply Nat.ltb_ge; lia).
  replace ((3 + 3 * n - 3) / 3) with n by lia.
  unfold layout. cbn [nth t_float tok_num t_key tok_name].
  (* cols[3:3+n] are the flags *)
  unfold slice. replace (3 + n - 3) with n by lia. cbn [skipn].
  rewrite firstn_app, firstn_all2 by (rewrite map_length; fold n; lia).
  rewrite map_length. fold n. replace (n - n) with 0 by lia. rewrite firstn_O, app_nil_r.
  rewrite all_some_map_flag, Hok. cbn [negb].
  (* cols[3+n:] are the alternating flux/error values *)
  replace (3 + n) with (S (S (S n))) by lia. cbn [skipn].
  rewrite skipn_app, skipn_all2 by (rewrite map_length; fold n; lia).
  rewrite map_length. fold n. replace (n - n) with 0 by lia. cbn [skipn app].
  rewrite all_some_interleave by lia.
  rewrite stride2_interleave, stride2_1_interleave by lia.
  rewrite Hf, He, Nat.eqb_refl. reflexivity.
Qed.
Print Assumptions C20_layout.
