"""
C02 (contrived corner of "any log-distance step") - when the package's
logd_step is so large that (log10 dmax - log10 dmin)/logd_step < 1.1e-16, the
expression ceil(1 + ratio) absorbs the ratio and yields ONE trial distance:
the grid is [dmin] and dmax is never tried, although the statement promises a
grid that includes both ends (two points here).
"""
import os
import tempfile

import numpy as np
from astropy import units as u

from sedfitter.convolved_fluxes import ConvolvedFluxes
from sedfitter.extinction import Extinction
from sedfitter.source import Source
from sedfitter.fit import Fitter

d = tempfile.mkdtemp()
os.mkdir(os.path.join(d, 'convolved'))
with open(os.path.join(d, 'models.conf'), 'w') as f:
    f.write("name = test\nlength_subdir = 0\naperture_dependent = yes\nlogd_step = 1e17\n")
c = ConvolvedFluxes(wavelength=3.6 * u.micron, model_names=np.array(['model_a']),
                    apertures=np.array([100., 1000., 8000.]) * u.au,
                    flux=np.array([[1., 2., 4.]]) * u.mJy, error=np.array([[.1, .2, .4]]) * u.mJy)
c.write(os.path.join(d, 'convolved', 'F1.fits'))

ext = Extinction()
ext.wav = np.logspace(-2., 3., 50) * u.micron
ext.chi = ext.wav.value ** -1.5 * u.cm ** 2 / u.g

fitter = Fitter(['F1'], [1.] * u.arcsec, d, extinction_law=ext, av_range=(0., 0.),
                distance_range=[1., 10.] * u.kpc)
# a source that is matched exactly by the model at d = 10 kpc (aperture 10000 AU -> 4 mJy / 100)
s = Source()
s.name = 'src'
s.valid = [4]
s.flux = np.array([np.log10(0.04)])
s.error = np.array([0.01])
info = fitter.fit(s)
dist = fitter.models.distances.to(u.kpc).value
assert len(dist) == 2 and abs(dist[-1] - 10.) < 1e-12 and abs(info.sc[0] - 1.) < 1e-12 and info.chi2[0] < 1e-12, (
    "C02 violated: logd_step = 1e17, distance range [1, 10] kpc: trial distances = %s kpc "
    "(dmax = 10 kpc missing, expected [1, 10]); reported scale %.3f and chi2 %.1f "
    "instead of scale 1.000 and chi2 0 at d = 10 kpc" % (dist, info.sc[0], info.chi2[0]))
print("no violation")
