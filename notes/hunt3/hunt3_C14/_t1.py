import sys; sys.path.insert(0, '/tmp/hunt3_C14/hunt_out')
from _lib import *
from sedfitter.convolve import convolve_model_dir_monochromatic as mono
import logging
from astropy import log; log.setLevel('ERROR')
d, wav, pnames, truth = build(n_wav=4, n_ap=2, n_models=3)
t = mono(d)
print(t)
print(sorted(os.listdir(d + '/convolved')))
for row in t:
    c = ConvolvedFluxes.read(d + '/convolved/' + row['filter'] + '.fits')
    print(row['filter'], row['wav'], c.central_wavelength, c.model_names, c.flux, c.apertures)
    iw = list(wav).index(row['wav'])
    for k, nm in enumerate(pnames):
        assert np.allclose(c.flux[k].value, truth[nm][0][:, iw], rtol=1e-14), (c.flux[k], truth[nm][0][:, iw])
        assert np.allclose(c.error[k].value, truth[nm][1][:, iw], rtol=1e-14)
