"""C11 (first clause: "fit results are unchanged by permuting the filters, with the photometry
permuted alike"), cube (version = 2) package, distance-independent.

In a cube package the convolved files are NOT matched to the cube / to each other by model
name (Models._read_version_2 has no sort_to_match; the per-file reader _read_version_1 has).
Row i of every file is simply taken as model i, and the model names are taken from whichever
filter happens to be LAST in the list.  So when convolved/B.fits lists the same models in
another order than flux.fits (files made at different times), the fluxes of B are attached to
the wrong models, and which names the rows get depends on the order of the filters.

Input: 6 models, cube of 30 wavelengths, convolved/A.fits in the cube's order, convolved/B.fits
with the models listed in the order m3,m1,m5,m0,m2,m4; filters (A, B, 5 micron) versus the
permutation (5 micron, A, B) with the photometry permuted alike.
"""
import os, io, tempfile, contextlib
import numpy as np
from astropy import units as u
from sedfitter.fit import Fitter
from sedfitter.source import Source
from sedfitter.extinction import Extinction
from sedfitter.sed import SEDCube
from sedfitter.convolved_fluxes import ConvolvedFluxes

d = tempfile.mkdtemp()
rng = np.random.RandomState(1)
names = np.array(['m%d' % i for i in range(6)])
cube = SEDCube()
cube.names = names
cube.distance = 1 * u.kpc
cube.wav = np.logspace(-1, 2, 30) * u.micron
cube.apertures = None
cube.val = 10 ** rng.uniform(0, 1, (6, 1, 30)) * u.mJy
cube.unc = cube.val * 0.01
cube.write(os.path.join(d, 'flux.fits'))
open(os.path.join(d, 'models.conf'), 'w').write(
    "name = test\nlength_subdir = 0\naperture_dependent = no\nlogd_step = 0.02\nversion = 2\n")
os.makedirs(os.path.join(d, 'convolved'))
M = 10 ** rng.uniform(0, 1, (6, 2))          # true broadband fluxes of m0..m5 in A and B
perm = np.array([3, 1, 5, 0, 2, 4])
for j, (fn, order) in enumerate([('A', np.arange(6)), ('B', perm)]):
    ConvolvedFluxes(wavelength=[2., 10.][j] * u.micron, model_names=names[order],
                    flux=M[order, j:j + 1] * u.mJy, error=0.01 * M[order, j:j + 1] * u.mJy
                    ).write(os.path.join(d, 'convolved', fn + '.fits'))

law = Extinction()
law.wav = np.logspace(-2., 3., 50) * u.micron
law.chi = law.wav.value ** -1.5 * u.cm ** 2 / u.g

filters = ['A', 'B', 5. * u.micron]
flux = np.array([3., 5., 4.]); err = np.array([0.3, 0.5, 0.4])


def run(p):
    with contextlib.redirect_stdout(io.StringIO()):
        fitter = Fitter([filters[i] for i in p], [1.] * 3 * u.arcsec, d, extinction_law=law,
                        av_range=(0., 10.), distance_range=[1., 2.] * u.kpc, use_memmap=False)
    s = Source()
    s.name = 'src'
    s.valid = np.array([1, 1, 1])
    s.flux = flux[p]
    s.error = err[p]
    info = fitter.fit(s)
    table = {str(n): (float(a), float(sc), float(c)) for n, a, sc, c in zip(info.model_name, info.av, info.sc, info.chi2)}
    return table, fitter


r1, f1 = run([0, 1, 2])
r2, f2 = run([2, 0, 1])

# What the B column should be (matched by name) vs what was loaded
loaded_B = f1.models.fluxes[:, 1].to(u.mJy).value
loaded_names = [str(n) for n in f1.models.names]
wrong = [(n, loaded_B[i], M[list(names).index(n), 1]) for i, n in enumerate(loaded_names)
         if abs(loaded_B[i] - M[list(names).index(n), 1]) > 1e-6 * M[list(names).index(n), 1]]

for n in sorted(r1):
    print(n, 'filters (A,B,5um): av=%.6f sc=%.6f chi2=%.6f' % r1[n], '| filters (5um,A,B): av=%.6f sc=%.6f chi2=%.6f' % r2[n])

diff = [n for n in r1 if max(abs(x - y) for x, y in zip(r1[n], r2[n])) > 1e-9]
assert not diff and not wrong, (
    "C11 violated (clause 'fit results are unchanged by permuting the filters with the photometry permuted alike') "
    "on a version-2 (cube) distance-independent package whose convolved/B.fits lists the models in the order %s: "
    "results per model name differ between filter orders (A,B,5um) and (5um,A,B) for models %s; "
    "moreover the flux of filter B attached to a model is that of another model "
    "[(model, loaded B flux, B flux stored under that name)] = %s"
    % (list(names[perm]), sorted(diff), wrong))
