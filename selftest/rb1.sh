#!/bin/bash
# rb1.sh <patch> — open a scratch worktree of /repo HEAD in /tmp/rb, apply the patch with a three-way merge and show what conflicts.
# After editing the files in /tmp/rb by hand: rb1.sh --save <patch> writes the new patch and removes the worktree.
if [ "$1" = "--save" ]; then
  cd /tmp/rb && if grep -rn '^<<<<<<<\|^>>>>>>>' sedfitter | head -3 | grep -q .; then echo "conflict markers left"; exit 1; fi
  git diff HEAD -- sedfitter > /tmp/rb.new; [ -s /tmp/rb.new ] || { echo "empty patch"; exit 1; }
  cp /tmp/rb.new "$2"; cd /; git -C /repo worktree remove --force /tmp/rb; rm -f /tmp/rb.new; echo "saved $2"; exit 0
fi
[ -d /tmp/rb ] && git -C /repo worktree remove --force /tmp/rb
git -C /repo worktree add --detach /tmp/rb HEAD >/dev/null 2>&1
cd /tmp/rb && git apply -3 "$1" 2>&1 | tail -5
git diff --name-only --diff-filter=U
git diff | grep -n '^[ +-]*<<<<<<<\|^[ +-]*>>>>>>>' | head
