"""
C08 (clauses "ranks m first with chi^2 ~ 0, reports A_V ~ A_V0 and scale ~
log10 d0 (or the planted scale)", quantifier "ANY relative photometric error").

Source.get_log_fluxes() does not fit log10(F) but
    log10(F) - 0.5 * (sigma/F)^2 / ln(10),
so photometry synthesised EXACTLY from model m is seen by the fitter as fainter
by 0.217*(sigma/F)^2 dex in each band.  For small relative errors this is
invisible, but the statement quantifies over any relative error:

 part 1  uniform relative error of 100 % (S/N = 1), distance-independent
         package: m is first with chi^2 = 0, but the reported scale is off by
         0.25/ln(10) = 0.109 dex from the planted one (25 % in distance).
 part 2  relative errors of 20 %, 60 %, 30 %, 70 % in the four bands, both
         fitting modes: the planted model m gets chi^2 ~ 0.27, whereas a
         different model m' of the package (not related to m by reddening +
         scaling - checked below) gets chi^2 = 0 and is ranked first; the
         parameter table prints the row of m', not of m.

Everything goes through the public pipeline: SED files -> convolve_model_dir ->
fit -> write_parameters.
"""
import os
import io
import shutil
import tempfile
import contextlib

import numpy as np
from astropy import units as u
from astropy.table import Table

from sedfitter.sed import SED
from sedfitter.filter import Filter
from sedfitter.extinction import Extinction
from sedfitter.convolve import convolve_model_dir
from sedfitter.convolved_fluxes import ConvolvedFluxes
from sedfitter import fit, write_parameters

LN10 = np.log(10.)


def quiet(fn, *a, **k):
    with contextlib.redirect_stdout(io.StringIO()), contextlib.redirect_stderr(io.StringIO()):
        return fn(*a, **k)


def make_filters():
    out = []
    for name, lo, hi, cen in [('fa', 1., 2., 1.5), ('fb', 3., 5., 4.), ('fc', 7., 10., 8.), ('fd', 18., 30., 24.)]:
        f = Filter()
        f.name = name
        f.central_wavelength = cen * u.micron
        w = np.linspace(hi, lo, 30) * u.micron
        f.nu = w.to(u.Hz, equivalencies=u.spectral())
        f.response = 1. + np.sin(np.linspace(0., 3., 30)) ** 2
        f.normalize()
        out.append(f)
    return out


ext = Extinction()
ext.wav = np.logspace(-2, 3, 60) * u.micron
ext.chi = ext.wav.value ** -1.3 * u.cm ** 2 / u.g

rel_part2 = np.array([0.2, 0.6, 0.3, 0.7])          # relative errors of the four bands in part 2
bias = -0.5 * rel_part2 ** 2 / LN10                 # what get_log_fluxes subtracts (dex)

wav = np.logspace(-1, 2.5, 80)                      # micron
# piecewise-constant factor: bias[j] over the whole neighbourhood of filter j
edges = [2.5, 6., 14.]
g = 10. ** bias[np.searchsorted(edges, wav)]

rng = np.random.default_rng(5)
n_ap = 4
aps = np.logspace(2, 5, n_ap) * u.au
step = 0.05
theta = np.array([2., 3., 4., 5.])
drange = np.array([0.5, 5.])
n_d = 1 + int(np.ceil((np.log10(drange[1]) - np.log10(drange[0])) / step))
grid = np.logspace(np.log10(drange[0]), np.log10(drange[1]), n_d)


def smooth_sed():
    lw = np.log10(wav)
    return 10. ** (rng.uniform(0, 1) + rng.uniform(-1, 1) * lw + rng.uniform(-0.5, 0.5) * lw ** 2)


def build(apdep):
    d = tempfile.mkdtemp()
    os.mkdir(os.path.join(d, 'seds'))
    names = ['model_%03d' % i for i in range(5)]
    base = [smooth_sed() for _ in names]
    base[3] = base[1] * g                            # model_003 = m' ; model_001 = m
    frac = np.linspace(0.4, 1., n_ap)[:, None] * np.ones((n_ap, len(wav)))
    for name, b in zip(names, base):
        s = SED()
        s.name = name
        s.distance = 1 * u.kpc
        s.wav = wav * u.micron
        s.nu = s.wav.to(u.Hz, equivalencies=u.spectral())
        if apdep:
            s.apertures = aps
            s.flux = b[None, :] * frac * u.mJy
        else:
            s.apertures = None
            s.flux = b[None, :] * u.mJy
        s.error = s.flux * 0.01
        s.write(os.path.join(d, 'seds', name + '_sed.fits'))
    with open(os.path.join(d, 'models.conf'), 'w') as f:
        f.write("name = test\nlength_subdir = 0\naperture_dependent = %s\nlogd_step = %g\n"
                % ('yes' if apdep else 'no', step))
    t = Table()
    t['MODEL_NAME'] = np.array(names, dtype='S30')
    t['par1'] = 100. + np.arange(len(names))
    t.write(os.path.join(d, 'parameters.fits'))
    quiet(convolve_model_dir, d, make_filters())
    return d, names


def synthesise(d, name, av0, d0, apdep):
    """exact photometry of model `name` at A_V = av0 and distance d0 (kpc), from the convolved files"""
    fl, wv = [], []
    for i, fn in enumerate(['fa', 'fb', 'fc', 'fd']):
        c = ConvolvedFluxes.read(os.path.join(d, 'convolved', fn + '.fits'))
        idx = [x.strip() for x in c.model_names].index(name)
        if apdep:
            ap = min(theta[i] * d0 * 1000., c.apertures.to(u.au).value.max())
            f = np.interp(ap, c.apertures.to(u.au).value, c.flux[idx].to(u.mJy).value)
        else:
            f = c.flux[idx, 0].to(u.mJy).value
        fl.append(f / d0 ** 2)
        wv.append(c.central_wavelength.to(u.micron).value)
    k = ext.get_av(np.array(wv) * u.micron)
    return np.array(fl) * 10. ** (av0 * k), k


def run(d, flux, rel):
    out = tempfile.mkdtemp()
    with open(os.path.join(out, 'data'), 'w') as fh:
        fh.write("src 0. 0. 1 1 1 1 " + " ".join("%.12e %.12e" % (x, r * x) for x, r in zip(flux, rel)) + "\n")
    quiet(fit, os.path.join(out, 'data'), ['fa', 'fb', 'fc', 'fd'], theta * u.arcsec, d,
          os.path.join(out, 'fits.fitinfo'), extinction_law=ext, av_range=[0., 20.],
          distance_range=drange * u.kpc, output_format=('A',))
    quiet(write_parameters, os.path.join(out, 'fits.fitinfo'), os.path.join(out, 'pars.txt'),
          select_format=('N', 5))
    rows = [l.split() for l in open(os.path.join(out, 'pars.txt')).read().splitlines()[4:]]
    shutil.rmtree(out)
    return rows            # fit_id, model_name, chi2, av, scale, par1


failures = []

# ---------------------------------------------------------------- part 1
d, names = build(apdep=False)
av0, d0 = 3., grid[7]
flux, k = synthesise(d, 'model_001', av0, d0, False)
rows = run(d, flux, np.ones(4) * 1.0)
print("part 1 (100%% errors, distance-independent): planted model_001 A_V=%.3f scale=%.3f ; first row:" % (av0, np.log10(d0)), rows[0])
if not (rows[0][1] == 'model_001' and abs(float(rows[0][4]) - np.log10(d0)) < 0.01):
    failures.append("part 1: uniform 100%% relative errors, distance-independent package: planted scale %.3f, "
                    "reported scale %s (shift 0.25/ln10 = 0.109 dex), first model %s chi2 %s"
                    % (np.log10(d0), rows[0][4], rows[0][1], rows[0][2]))
# control: the same with 0.1 % errors is recovered
rows = run(d, flux, np.ones(4) * 0.001)
assert rows[0][1] == 'model_001' and abs(float(rows[0][4]) - np.log10(d0)) < 0.002 and float(rows[0][2]) < 1e-3, rows[0]
shutil.rmtree(d)

# ---------------------------------------------------------------- part 2
for apdep in (False, True):
    d, names = build(apdep=apdep)
    av0, d0 = 3., grid[7]
    flux, k = synthesise(d, 'model_001', av0, d0, apdep)
    flux3, _ = synthesise(d, 'model_003', av0, d0, apdep)
    # m' really is m times the per-band factor, and the two are NOT related by reddening + scaling
    assert np.allclose(np.log10(flux3 / flux), bias, atol=1e-9)
    A = np.vstack([k, np.ones(4)]).T
    resid = bias - A @ np.linalg.lstsq(A, bias, rcond=None)[0]
    assert np.max(np.abs(resid)) > 0.01, resid       # > 2 % in flux: pairwise non-degenerate
    # control: with small errors the planted model is recovered
    rows = run(d, flux, np.ones(4) * 0.001)
    assert rows[0][1] == 'model_001' and float(rows[0][2]) < 1e-3 and abs(float(rows[0][3]) - av0) < 2e-3 \
        and abs(float(rows[0][4]) - np.log10(d0)) < 2e-3 and abs(float(rows[0][5]) - 101.) < 1e-6, rows[0]
    # the finding
    rows = run(d, flux, rel_part2)
    mode = 'distance-dependent' if apdep else 'distance-independent'
    print("part 2 (%s): planted model_001 A_V=%.3f scale=%.3f ; rows:" % (mode, av0, np.log10(d0)))
    for r in rows[:3]:
        print("    ", r)
    if not (rows[0][1] == 'model_001' and float(rows[0][2]) < 1e-2):
        failures.append("part 2 (%s): relative errors %s: first row is %s (chi2 %s, A_V %s, scale %s, par1 %s); "
                        "the planted model_001 (par1 = 101) is %s"
                        % (mode, rel_part2.tolist(), rows[0][1], rows[0][2], rows[0][3], rows[0][4], rows[0][5],
                           ["rank %s with chi2 %s" % (r[0], r[2]) for r in rows if r[1] == 'model_001']))
    shutil.rmtree(d)

assert not failures, ("C08 violated for large relative photometric errors (the fitter subtracts "
                      "0.5*(sigma/F)^2/ln10 from log10 F): " + " | ".join(failures))
