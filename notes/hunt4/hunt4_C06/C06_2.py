"""
C06 - for a cube package stored in single precision the flux errors are NOT
combined in quadrature with the R_i: they come out as 0 (or inf).

_convolve_model_dir_2 casts the binned response to the dtype of the cube and
evaluates sqrt(sum((E * R)**2)) in that dtype.  In single precision the
squares leave the representable range although E, R and the result are all
ordinary single-precision numbers.  A cube stored in cgs flux-density units
(erg / s / cm^2 / Hz, which convolve_model_dir accepts and converts) has
E ~ 1e-27 for 0.1 mJy, so (E*R)**2 ~ 1e-57 underflows and every
TOTAL_FLUX_ERR is written as 0.  The same numbers stored in double precision
(and the per-file path, which converts to double precision) give the
quadrature sum.  The clause 'linear in the SED' fails likewise: multiplying the
SED by a constant (a change of unit) changes the error from 0.0885 mJy to 0.
"""
import os
import tempfile

import numpy as np
from astropy import units as u
from astropy.table import Table

from sedfitter.sed import SEDCube
from sedfitter.filter import Filter
from sedfitter.convolve import convolve_model_dir
from sedfitter.convolved_fluxes import ConvolvedFluxes

rng = np.random.RandomState(3)
wav = np.logspace(-1, 2, 40)
flux_mJy = rng.uniform(1, 2, (3, 1, 40))          # ordinary fluxes: 1..2 mJy
err_mJy = 0.1 * flux_mJy                          # 10 per cent errors

cgs = u.erg / u.s / u.cm ** 2 / u.Hz              # 1 mJy = 1e-26 cgs

filt = Filter(name='F', central_wavelength=2 * u.micron,
              nu=(np.array([1.5, 2., 2.5, 3.]) * u.micron).to(u.Hz, equivalencies=u.spectral()),
              response=np.array([0., 1., 1., 0.]))
filt.normalize()


def run(dtype, unit):
    d = tempfile.mkdtemp()
    cube = SEDCube()
    cube.names = np.array(['m1', 'm2', 'm3'])
    cube.distance = 1 * u.kpc
    cube.wav = wav * u.micron
    cube.val = (flux_mJy * u.mJy).to(unit).value.astype(dtype) * unit
    cube.unc = (err_mJy * u.mJy).to(unit).value.astype(dtype) * unit
    cube.write(os.path.join(d, 'flux.fits'))
    with open(os.path.join(d, 'models.conf'), 'w') as f:
        f.write("name = test\nlength_subdir = 0\naperture_dependent = no\nlogd_step = 0.02\nversion = 2\n")
    t = Table()
    t['MODEL_NAME'] = np.array(cube.names, dtype='S')
    t['par1'] = [1., 2., 3.]
    t.write(os.path.join(d, 'parameters.fits'))
    convolve_model_dir(d, [filt])
    res = ConvolvedFluxes.read(os.path.join(d, 'convolved', 'F.fits'))
    # what the statement promises, from the stored numbers and the R_i of Filter.rebin
    stored = SEDCube.read(os.path.join(d, 'flux.fits'), order='nu')
    R = filt.rebin(stored.nu).response
    E = stored.unc[:, 0, :].to(u.mJy).value.astype(float)
    F = stored.val[:, 0, :].to(u.mJy).value.astype(float)
    return (res.flux.to(u.mJy).value[:, 0], res.error.to(u.mJy).value[:, 0],
            np.sum(F * R, axis=1), np.sqrt(np.sum((E * R) ** 2, axis=1)))


f64, e64, xf64, xe64 = run(np.float64, cgs)
np.testing.assert_allclose(f64, xf64, rtol=1e-12)
np.testing.assert_allclose(e64, xe64, rtol=1e-12)

fm, em, xfm, xem = run(np.float32, u.mJy)          # single precision, mJy: fine
np.testing.assert_allclose(fm, xfm, rtol=1e-5)
np.testing.assert_allclose(em, xem, rtol=1e-5)

f32, e32, xf32, xe32 = run(np.float32, cgs)        # same SEDs, single precision, cgs
np.testing.assert_allclose(f32, xf32, rtol=1e-5)   # the fluxes are right
assert np.allclose(e32, xe32, rtol=1e-4), (
    "C06 (flux errors combine in quadrature with the same R_i / result linear in the SED): "
    "cube package stored as float32 in erg/s/cm2/Hz with 10%% errors on 1-2 mJy fluxes: "
    "convolved TOTAL_FLUX_ERR = %s mJy, expected sqrt(sum((E*R_i)^2)) = %s mJy "
    "(the same cube in float64, or in float32 mJy, gives %s)" % (e32, xe32, e64))
print("ok")
