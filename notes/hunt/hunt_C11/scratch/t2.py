import itertools, os, tempfile, warnings
import numpy as np
from astropy import units as u
from sedfitter.sed import SED, SEDCube
from sedfitter.convolved_fluxes import ConvolvedFluxes

tmp = tempfile.mkdtemp()
rng = np.random.default_rng(1)
units = [u.mJy, u.Jy, u.erg/u.cm**2/u.s, u.erg/u.s]
k = 0
bad = []
for n_mod, n_ap, n_wav, asc, fu, with_ap, with_unc, mm, use_nu in itertools.product([1,2,6],[1,2,5],[2,3,40],[True,False],units,[True,False],[True,False],[True,False],[True,False]):
    if not with_ap and n_ap != 1: continue
    wav = np.sort(rng.uniform(0.1, 1000, n_wav))
    if not asc: wav = wav[::-1]
    c = SEDCube()
    c.names = ['m%i'%i for i in range(n_mod)][::-1]
    c.distance = 1*u.kpc
    if use_nu:
        c.nu = (wav*u.micron).to(u.Hz, equivalencies=u.spectral())
    else:
        c.wav = wav*u.micron
    if with_ap: c.apertures = np.sort(rng.uniform(10,1000,n_ap))*u.au
    c.val = rng.uniform(1,2,(n_mod,n_ap,n_wav))*fu
    if with_unc: c.unc = rng.uniform(0.1,0.2,(n_mod,n_ap,n_wav))*fu
    k += 1
    fn = os.path.join(tmp, 's%i.fits'%k)
    cfg = (n_mod,n_ap,n_wav,asc,str(fu),with_ap,with_unc,mm,use_nu)
    try:
        c.write(fn)
    except Exception as e:
        bad.append(('write', cfg, repr(e))); continue
    for order in ['nu','wav']:
        try:
            r = SEDCube.read(fn, order=order, memmap=mm)
        except Exception as e:
            bad.append(('read', cfg,order, repr(e))); continue
        w = c.wav; f = c.val; e = c.unc; nu = c.nu
        want_rev = (order=='wav') != asc
        if want_rev:
            w = w[::-1]; nu=nu[::-1]; f=f[:,:, ::-1]; e=None if e is None else e[:,:, ::-1]
        ok = (np.allclose(r.wav.value, w.to(r.wav.unit).value, rtol=1e-12) and np.allclose(r.nu.value, nu.to(r.nu.unit).value, rtol=1e-12)
              and r.val.unit.is_equivalent(fu) and np.allclose(r.val.to(fu).value, f.value, rtol=1e-12) and ((e is None and r.unc is None) or np.allclose(r.unc.to(fu).value, e.value, rtol=1e-12))
              and list(r.names)==list(c.names) and ((with_ap and np.allclose(r.apertures.to(u.au).value, c.apertures.value)) or (not with_ap and r.apertures is None)))
        if not ok:
            bad.append(('mismatch', cfg,order)); continue
        # get_sed
        for i,nm in enumerate(c.names):
            try:
                s = r.get_sed(nm)
            except Exception as ex:
                bad.append(('get_sed', cfg, order, repr(ex))); break
            if not (np.allclose(s.flux.to(fu).value, f[i].value, rtol=1e-12) and np.allclose(s.wav.value, w.to(s.wav.unit).value)
                    and ((e is None and s.error is None) or np.allclose(s.error.to(fu).value, e[i].value, rtol=1e-12))):
                bad.append(('get_sed mismatch', cfg, order)); break
print(k, len(bad))
for b in bad[:20]: print(b)
