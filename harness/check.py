"""check.py <property> quick|thorough          run the check, write evidence/<property>.json, exit 0/1
   check.py <property> --replay <file>        re-run one saved case

Flow (DESIGN.md sections 2 and 5): build -> Coq obligations -> corpus + generated cases -> implementation
(from VERIF_REPO, default /repo) and extracted model on the same cases -> correspondence compare and
property oracle -> verdict."""
import hashlib
import importlib
import json
import os
import sys
import time

sys.path.insert(0, os.path.dirname(os.path.abspath(__file__)))
import common  # noqa: E402
from common import VERIF, jsonable  # noqa: E402

XCHECK = (0, [])

TRUSTED_BASE = [
    "Coq 8.16.1 kernel (coqc, full .vo build; vm_compute only inside Example/_refuted witnesses; no native_compute)",
    "extraction: stdlib ExtrOcamlBasic + ExtrOcamlZBigInt directives only (positive/Z/N -> zarith big integers); no Extract directive of ours",
    "ocaml/proto.ml, ocaml/ops.ml, ocaml/main.ml (parse/convert/print only) + zarith 1.12",
    "harness/*.py: generators, implementation runners, canonicalisation, tolerance compare, property oracles, known-finding signatures",
    "oracle values for log10 / ln / 10** are computed by numpy in the harness and passed to the model as exact rationals",
    "the decimal exponent handed to Fmt.fmt_e is proposed by the driver in floating point and validated by the model",
    "unit conversions of wavelengths (ExtSnap: the converted floats) and the decomposition of flux units into scale and exponents (UnitM) are astropy's, passed to the model as exact rationals / integers",
    "numpy / scipy / astropy / pickle / FITS themselves are exercised, not verified",
]


def load_known():
    p = os.path.join(VERIF, 'known_findings.json')
    if not os.path.exists(p):
        return []
    return json.load(open(p))['findings']


def write_replay(prop, kind, payload):
    d = os.path.join(VERIF, 'replays', prop)
    os.makedirs(d, exist_ok=True)
    blob = json.dumps(jsonable(payload), sort_keys=True, indent=1, default=str)
    h = hashlib.sha1(blob.encode()).hexdigest()[:12]
    path = os.path.join(d, '%s_%s.json' % (kind, h))
    open(path, 'w').write(blob)
    return path


def evaluate(mod, cases):
    """run implementation and model on the cases; returns list of (case, impl, model, verdict)"""
    impls = common.run_impl(mod.impl, cases)
    reqs, spans = [], []
    for c, im in zip(cases, impls):
        r = mod.model_requests(c, im) if getattr(mod, 'MODEL_NEEDS_IMPL', False) else mod.model_requests(c)
        spans.append((len(reqs), len(r)))
        reqs.extend(r)
    answers = common.run_model(reqs)
    global XCHECK
    try:
        import xcheck
        XCHECK = xcheck.cross_check(reqs, answers) if os.environ.get('VERIF_XCHECK', '1') != '0' else (0, [])
    except Exception as e:
        XCHECK = (0, ['extraction cross-check crashed: %r' % (e,)])
    triples = [(c, im, answers[s:s + n]) for c, im, (s, n) in zip(cases, impls, spans)]
    verdicts = common.run_judges(mod.__name__, triples)
    out = [(c, im, mo, v) for (c, im, mo), v in zip(triples, verdicts)]
    return out


def evaluate_one(mod, case):
    """one case in this process (used by the shrinker and by --replay)"""
    im = common.run_impl_inline(mod.impl, case)
    reqs = mod.model_requests(case, im) if getattr(mod, 'MODEL_NEEDS_IMPL', False) else mod.model_requests(case)
    mo = common.run_model(reqs, nproc=1)
    try:
        v = mod.judge(case, im, mo)
    except Exception:
        import traceback
        v = dict(disagree=['judge crashed: %s' % traceback.format_exc()[-400:]], fail=[], nontrivial=False)
    return case, im, mo, v


def shrink(mod, item, budget=60):
    """greedy shrinking of a failing case with the module's own `shrink(case)` candidates: keep a candidate while the same
    failing clause (the text before the first ':') still fails"""
    if not hasattr(mod, 'shrink'):
        return item
    c, im, mo, v = item
    key = v['fail'][0].split(':')[0]
    tried = 0
    progress = True
    while progress and tried < budget:
        progress = False
        for cand in mod.shrink(c):
            tried += 1
            if tried > budget:
                break
            try:
                c2, im2, mo2, v2 = evaluate_one(mod, cand)
            except Exception:
                continue
            if v2.get('fail') and v2['fail'][0].split(':')[0] == key:
                c, im, mo, v = c2, im2, mo2, v2
                progress = True
                break
    return c, im, mo, v


def main():
    prop = sys.argv[1]
    mod = importlib.import_module(prop.lower())
    if sys.argv[2] == '--replay':
        return replay(prop, mod, sys.argv[3])
    tier = sys.argv[2]
    assert tier in ('quick', 'thorough')
    seed = int(os.environ.get('VERIF_SEED', '1'))
    t0 = time.time()
    lines = []      # VIOLATION / KNOWN-FINDING lines
    violations = 0

    ok, log = common.build()
    obl = dict(obligations=1, discharged=0, theorems=[], log=log, axioms=[])
    if ok:
        obl = common.coq_obligations(prop, getattr(mod, 'ALLOWED_AXIOMS', ()))
    proof_ok = ok and obl['obligations'] > 0 and obl['discharged'] == obl['obligations']

    results = []
    if ok:
        cases = []
        cdir = os.path.join(VERIF, 'corpus', prop)
        if os.path.isdir(cdir):
            for f in sorted(os.listdir(cdir)):
                if f.endswith('.json'):
                    c = json.load(open(os.path.join(cdir, f)))
                    c = c.get('case', c)
                    c['_corpus'] = f
                    cases.append(c)
        ncorpus = len(cases)
        cases += mod.generate(tier, seed)
        results = evaluate(mod, cases)
    else:
        ncorpus = 0

    known = [k for k in load_known() if k['property'] == prop]
    known_hit = {}
    fails, disagrees = [], []
    for (c, im, mo, v) in results:
        if v.get('fail'):
            sig = mod.signature(c, im, mo, v) if hasattr(mod, 'signature') else None
            k = next((k for k in known if k.get('status') == 'known' and k['id'] == sig), None)
            if k is not None:
                known_hit.setdefault(k['id'], []).append(c)
                continue
            fails.append((c, im, mo, v))
        elif v.get('disagree'):
            disagrees.append((c, im, mo, v))

    if XCHECK[1] and results:
        c0, im0, mo0, v0 = results[0]
        disagrees.append((dict(note='extraction cross-check'), None, None, dict(disagree=XCHECK[1])))

    for kid, cs in known_hit.items():
        k = next(k for k in known if k['id'] == kid)
        lines.append('KNOWN-FINDING: property=%s %s (%d cases this run)' % (prop, k['what'], len(cs)))

    if fails:
        # report up to 3 distinct failing clauses, smallest case first
        fails.sort(key=lambda t: len(json.dumps(jsonable(t[0]), default=str)))
        seen = set()
        for (c, im, mo, v) in fails:
            key = v['fail'][0].split(':')[0]
            if key in seen:
                continue
            seen.add(key)
            if len(seen) > 3:
                break
            if os.environ.get('VERIF_SHRINK', '1') != '0':
                try:
                    c, im, mo, v = shrink(mod, (c, im, mo, v))
                except Exception:
                    pass
            path = write_replay(prop, 'fail', dict(property=prop, kind='property-fails-on-implementation', case=c, impl=im,
                                                   model=mo, failing=v['fail'], disagree=v.get('disagree', []),
                                                   replay_cmd='./check %s --replay <this file>' % prop))
            lines.append('VIOLATION property=%s replay=%s' % (prop, path))
        violations = len(fails)
    elif disagrees or not proof_ok:
        # property no longer shown to hold, no failing input found
        payload = dict(property=prop, kind='not-shown', replay_cmd='./check %s --replay <this file>' % prop)
        if not proof_ok:
            payload['broken_obligations'] = [t for t in obl['theorems'] if not (t[1] == 'closed' or t[1].startswith('axioms:'))] or 'build failed'
            payload['log'] = obl['log']
        if disagrees:
            disagrees.sort(key=lambda t: len(json.dumps(jsonable(t[0]), default=str)))
            c, im, mo, v = disagrees[0]
            payload.update(correspondence='model %s vs implementation' % getattr(mod, 'MODEL_OPS', ''), case=c, impl=im, model=mo,
                           disagree=v['disagree'], n_disagreeing_cases=len(disagrees))
        path = write_replay(prop, 'notshown', payload)
        lines.append('VIOLATION property=%s replay=%s no-failing-input-found' % (prop, path))
        violations = max(1, len(disagrees))

    # ---- notes: correspondence of model code that no property states (reported, never a verdict)
    allnotes = [x for (_c, _i, _m, v) in results for x in v.get('notes', [])]
    for x in allnotes[:3]:
        lines.append('NOTE property=%s (model code beyond the property, not a verdict) %s' % (prop, x[:300]))

    # ---- evidence
    nontriv = set()
    dist = {}
    for (c, im, mo, v) in results:
        if v.get('nontrivial'):
            nontriv.add(json.dumps(jsonable({k: x for k, x in c.items() if not k.startswith('_')}), sort_keys=True, default=str))
        for k in v.get('tags', []):
            dist[k] = dist.get(k, 0) + 1
    samples = []
    for (c, im, mo, v) in results[ncorpus:ncorpus + 400:100][:3] + results[-1:]:
        try:
            smp0 = mod.sample(c, im, mo) if hasattr(mod, 'sample') else None
        except Exception as e:
            smp0 = dict(case='sample() failed: %r' % (e,))
        smp = smp0 if smp0 is not None else dict(
            case={k: x for k, x in c.items() if not k.startswith('_')}, impl=im if not isinstance(im, dict) or 'tb' not in im else im.get('exc'), model=mo)
        smp = common.strict(smp)
        for k in list(smp):
            t = json.dumps(smp[k], default=str)
            if len(t) > 1500:
                smp[k] = t[:1500] + ' ...(truncated)'
        samples.append(smp)
    ev = dict(
        property_id=prop, tier=tier, seed=seed, level='proof', wall_s=round(time.time() - t0, 2), violations=violations,
        coverage=dict(
            obligations=obl['obligations'], discharged=obl['discharged'],
            checker_cmd='make -C /verif build (coqc, full .vo build of coq/theories) ; coqc Print Assumptions for every theorem of coq/theories/Props_%s.v' % prop,
            trusted_base=TRUSTED_BASE + ['axioms reported by Print Assumptions: %s' % (', '.join(obl['axioms']) or 'none (closed under the global context)')],
            theorems=obl['theorems'],
            evaluations=sum(int(v.get('evals', 1)) for (_c, _i, _m, v) in results), cases=len(results), distinct_nontrivial=len(nontriv),
            rule=getattr(mod, 'RULE', ''), exhaustive=bool(getattr(mod, 'EXHAUSTIVE', {}).get(tier, False)),
            traces_validated_against_impl=len(results), corpus_cases=ncorpus,
            extraction_cross_checked=XCHECK[0], disagreements=len(disagrees), property_failures=len(fails), known_finding_cases=sum(len(v) for v in known_hit.values()),
            beyond_property=dict(what='correspondence of model code that no property states; a difference is reported as a NOTE line and does not change the verdict',
                                 differences=len(allnotes), first=allnotes[:3]),
            distribution=dist, samples=samples or [dict(note='no case was run (build failed)')]),
        assumptions=getattr(mod, 'ASSUMPTIONS', []))
    # runs against a patched scratch copy (selftest/with_patch.sh sets VERIF_REPO) must not overwrite the evidence of /repo
    evdir = os.path.join(VERIF, 'evidence') if os.environ.get('VERIF_REPO', '/repo') == '/repo' else os.path.join(common.WORK, 'evidence_scratch')
    os.makedirs(evdir, exist_ok=True)
    json.dump(common.strict(ev), open(os.path.join(evdir, '%s.json' % prop), 'w'), indent=1, default=str)

    if os.environ.get('VERIF_DEBUG'):
        hist = {}
        for (c, im, mo, v) in results:
            for x in v.get('fail', []):
                hist['FAIL ' + x.split(':')[0]] = hist.get('FAIL ' + x.split(':')[0], 0) + 1
            for x in v.get('disagree', []):
                hist['DIS ' + x[:40]] = hist.get('DIS ' + x[:40], 0) + 1
        for k in sorted(hist):
            print('  %5d  %s' % (hist[k], k))
        shown = 0
        for (c, im, mo, v) in results:
            if (v.get('fail') or v.get('disagree')) and shown < int(os.environ.get('VERIF_DEBUG')):
                shown += 1
                print('   ', v.get('fail'), v.get('disagree'))
    for l in lines:
        print(l)
    print('%s %s: %d cases (%d corpus), %d non-trivial, %d/%d obligations, %d disagreements, %d property failures, %.1fs'
          % (prop, tier, len(results), ncorpus, len(nontriv), obl['discharged'], obl['obligations'], len(disagrees), len(fails), time.time() - t0))
    return 1 if any(l.startswith('VIOLATION') for l in lines) else 0


def replay(prop, mod, path):
    data = json.load(open(path))
    if 'case' not in data:
        print('replay file names a broken obligation and holds no input:', data.get('broken_obligations'))
        return 1
    ok, log = common.build()
    if not ok:
        print(log)
        return 1
    c, im, mo, v = evaluate_one(mod, data['case'])
    print(json.dumps(jsonable(dict(impl=im, model=mo, verdict=v)), indent=1, default=str))
    if v.get('fail'):
        print('VIOLATION property=%s replay=%s' % (prop, path))
        return 1
    if v.get('disagree'):
        print('VIOLATION property=%s replay=%s no-failing-input-found' % (prop, path))
        return 1
    print('case passes')
    return 0


if __name__ == '__main__':
    sys.exit(main())
