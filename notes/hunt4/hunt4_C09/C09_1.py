"""
C09 - a result object that went through pickle (what multiprocessing / joblib do
when Fitter.fit runs in a worker, or what a user does to store one result) can no
longer be listed: write_parameters, write_parameter_ranges and extract_parameters
raise AttributeError although the input is 'a single result object' / 'a list of
result objects'.  FitInfo.__getstate__ leaves the metadata out (a results *file*
stores it once), so the unpickled object has an empty FitInfoMeta; the earlier
repair covered copy.copy / copy.deepcopy only.
"""
import os, sys, io, pickle, tempfile, contextlib
import numpy as np
from astropy.table import Table
from astropy import units as u

from sedfitter import Fitter, write_parameters, write_parameter_ranges, extract_parameters
from sedfitter.convolved_fluxes import ConvolvedFluxes
from sedfitter.extinction import Extinction
from sedfitter.source import Source

d = tempfile.mkdtemp()
os.mkdir(os.path.join(d, 'convolved'))
names = ['m3', 'm1', 'm2', 'm0']
rng = np.random.RandomState(1)
for i in range(3):
    c = ConvolvedFluxes()
    c.central_wavelength = (1. + i) * u.micron
    c.model_names = np.array(names)
    c.apertures = None
    c.flux = (1 + rng.random_sample((4, 1))) * u.mJy
    c.error = c.flux * 0.01
    c.write(os.path.join(d, 'convolved', 'f%d.fits' % i))
open(os.path.join(d, 'models.conf'), 'w').write(
    "name = test\nlength_subdir = 0\naperture_dependent = no\nlogd_step = 0.02\n")
t = Table()
t['MODEL_NAME'] = np.array(names, dtype='S30')
t['par1'] = [3., 1., 2., 0.]
t = t[[3, 1, 0, 2]]          # permuted parameter file
t.write(os.path.join(d, 'parameters.fits'))

e = Extinction()
e.wav = np.logspace(-2., 3.) * u.micron
e.chi = e.wav.value ** -2 * u.cm ** 2 / u.g

with contextlib.redirect_stdout(io.StringIO()):
    fitter = Fitter(['f0', 'f1', 'f2'], [1., 1., 1.] * u.arcsec, d,
                    extinction_law=e, av_range=[0., 10.])
s = Source.from_ascii('src 0.0 0.0 1 1 1 1.2 0.12 1.5 0.15 1.7 0.17')
info = fitter.fit(s)

out = tempfile.mkdtemp()

# the result object itself is fine
write_parameters(info, os.path.join(out, 'ok.txt'), select_format=('A',))
rows = open(os.path.join(out, 'ok.txt')).read().split('\n')[4:8]
for r in rows:
    c = r.split()
    assert float(c[5]) == float(c[1][1:]), "listing wrong before pickling: %r" % r

# ... the same result after a pickle round trip (e.g. returned by a worker process)
info2 = pickle.loads(pickle.dumps(info, 2))
assert list(info2.model_name) == list(info.model_name)

failures = []
for label, call in [
        ('write_parameters(single result)', lambda: write_parameters(info2, os.path.join(out, 'p.txt'), select_format=('A',))),
        ('write_parameter_ranges(single result)', lambda: write_parameter_ranges(info2, os.path.join(out, 'r.txt'), select_format=('A',))),
        ('extract_parameters(single result)', lambda: extract_parameters(info2, output_prefix=os.path.join(out, 'e_'), select_format=('A',))),
        ('write_parameters(list of results)', lambda: write_parameters([info2, pickle.loads(pickle.dumps(info))], os.path.join(out, 'p2.txt'), select_format=('N', 2)))]:
    try:
        call()
    except Exception as exc:
        failures.append('%s -> %s: %s' % (label, type(exc).__name__, exc))

assert not failures, (
    "C09 (sources given as a single result object / a list of result objects): a FitInfo that "
    "was pickled and unpickled (multiprocessing, joblib, pickle.dump of one result) is refused "
    "by the listing functions instead of being listed:\n  " + "\n  ".join(failures))
print("no violation")
