import sys; sys.path.insert(0, 'hunt_out/scratch')
from c11lib import *
import io, contextlib, copy
rng = np.random.default_rng(5)
e = ext()
worst_all = {}
def quiet(f, *a, **k):
    with contextlib.redirect_stdout(io.StringIO()):
        return f(*a, **k)
def make_v2(names, wav, val, apertures, unit, perm=None, desc=False, conv=None):
    d = tempfile.mkdtemp()
    c = SEDCube()
    names = np.array(names)
    if perm is not None:
        names = names[perm]; val = val[perm]
    c.names = names
    c.distance = 1 * u.kpc
    if desc:
        wav = wav[::-1]; val = val[:, :, ::-1]
    c.wav = wav * u.micron
    c.apertures = apertures
    v = val * u.mJy
    if unit.is_equivalent(u.mJy):
        v = v.to(unit)
    elif unit.is_equivalent(u.erg/u.cm**2/u.s):
        v = (v * c.nu).to(unit)
    else:
        v = (v * c.nu * c.distance**2).to(unit)
    c.val = v
    c.unc = v * 0.01
    c.write(os.path.join(d, 'flux.fits'))
    with open(os.path.join(d, 'models.conf'), 'w') as f:
        f.write("name = test\nlength_subdir = 0\naperture_dependent = %s\nlogd_step = 0.02\nversion = 2\n" % ('yes' if apertures is not None else 'no'))
    if conv is not None:
        os.mkdir(os.path.join(d, 'convolved'))
        fn, fw, fl = conv
        for j, f_ in enumerate(fn):
            cf = ConvolvedFluxes()
            cf.model_names = names
            cf.central_wavelength = fw[j] * u.micron
            if apertures is not None: cf.apertures = apertures
            x = fl[:, :, j]
            if perm is not None: x = x[perm]
            cf.flux = x * u.mJy; cf.error = cf.flux * 0.01
            cf.write(os.path.join(d, 'convolved', f_ + '.fits'))
    return d
units = [u.mJy, u.Jy, u.erg/u.cm**2/u.s, u.erg/u.s]
for trial in range(60):
    nf = rng.integers(2, 7); nm = rng.integers(1, 9)
    apdep = trial % 2 == 1
    nw = 12
    wav = np.sort(rng.uniform(0.3, 100, nw))
    names = ['model_%03i' % i for i in range(nm)]
    if apdep:
        aps = np.logspace(1, 5, 6) * u.au
        val = np.cumsum(rng.uniform(0.1, 2, (nm, 6, nw)), axis=1)
    else:
        aps = None
        val = rng.uniform(0.1, 20, (nm, 1, nw))
    ncf = 2
    cfn = ['C%i' % i for i in range(ncf)]; cfw = rng.uniform(0.3, 100, ncf)
    cfl = np.cumsum(rng.uniform(0.1, 2, (nm, 6 if apdep else 1, ncf)), axis=1)
    unit = units[trial % 4]
    mm = bool((trial // 4) % 2)
    desc = bool((trial // 8) % 2)
    d = make_v2(names, wav, val, aps, unit, desc=desc, conv=(cfn, cfw, cfl))
    # choose filters: mix of wav and names
    filts = []
    for i in range(nf):
        if rng.random() < 0.3: filts.append(cfn[rng.integers(ncf)])
        else: filts.append(rng.uniform(0.3, 100) * u.micron)
    ap_arcsec = rng.uniform(1, 5, nf)
    kw = dict(extinction_law=e, av_range=[0., 10.], distance_range=[0.5, 3.] * u.kpc, remove_resolved=bool(trial % 4 == 3), use_memmap=mm)
    try:
        F = quiet(Fitter, filts, ap_arcsec * u.arcsec, d, **kw)
    except Exception as ex:
        print('FITTER FAIL', trial, unit, mm, desc, apdep, repr(ex)); continue
    pool = [0, 1, 1, 1, 1, 2, 3, 9, 4]
    valid = rng.choice(pool, nf); valid[:min(3, nf)] = 1
    flux = rng.uniform(0.5, 30, nf); err = flux * rng.uniform(0.02, 0.3, nf)
    lim = (valid == 2) | (valid == 3)
    err[lim] = rng.uniform(0.1, 0.9, lim.sum())
    s = make_source(valid, flux, err)
    s0 = copy.deepcopy(s)
    base = as_map(F.fit(s))
    assert s == s0
    others = [make_source(rng.choice(pool, nf), rng.uniform(0.5, 30, nf), rng.uniform(0.05, 0.9, nf)) for _ in range(3)]
    for o in others: F.fit(o)
    again = as_map(F.fit(s))
    w = cmp_maps(base, again); worst_all['hist'] = max(worst_all.get('hist', 0), w)
    assert s == s0
    p = rng.permutation(nf)
    F2 = quiet(Fitter, [filts[i] for i in p], ap_arcsec[p] * u.arcsec, d, **kw)
    s2 = make_source(valid[p], flux[p], err[p])
    w = cmp_maps(base, as_map(F2.fit(s2))); worst_all['fperm'] = max(worst_all.get('fperm', 0), w)
    if w > 1e-9: print('FPERM', trial, w, nf, nm, apdep, valid)
    mp = rng.permutation(nm)
    d3 = make_v2(names, wav, val, aps, unit, perm=mp, desc=desc, conv=(cfn, cfw, cfl))
    F3 = quiet(Fitter, filts, ap_arcsec * u.arcsec, d3, **kw)
    w = cmp_maps(base, as_map(F3.fit(s))); worst_all['mperm'] = max(worst_all.get('mperm', 0), w)
    if w > 1e-9: print('MPERM', trial, w, nf, nm, apdep, valid)
    # memmap on vs off and desc vs asc
    if not apdep:
        for c in [1e-4, 1e-2, 3.7, 1e4]:
            e2 = err * c; e2[lim] = err[lim]
            f2 = flux * c
            l4 = valid == 4
            f2[l4] = flux[l4] + np.log10(c); e2[l4] = err[l4]
            s4 = make_source(valid, f2, e2)
            w = cmp_maps(base, as_map(F.fit(s4)), dsc=-0.5 * np.log10(c)); worst_all['scale'] = max(worst_all.get('scale', 0), w)
            if w > 1e-9: print('SCALE', trial, c, w, nf, nm, valid)
print(worst_all)
