import sys; sys.path.insert(0, '/tmp/hunt2_C10/hunt_out')
from _helper import *
import copy, pickle, filecmp, glob
from sedfitter import fit, Fitter, plot, plot_params_1d, plot_params_2d, write_parameters, write_parameter_ranges, extract_parameters, filter_output
from sedfitter.source import Source
from sedfitter.fit_info import FitInfoFile
apdep = len(sys.argv) > 1
d, md = build(apdep)
DATA = """s1 0.0 0.0 1 1 1 0.2 0.1 1.3 0.2 1.5 0.3
s2 1.0 2.0 1 0 1 0.2 0.05 1.2 0.1 1.8 0.3
s3 1.0 2.0 1 1 4 0.2 0.05 1.2 0.1 0.1 0.3
s4 1.0 2.0 3 2 1 0.2 0.05 1.2 0.1 1.8 0.3
s5 1.0 2.0 1 9 1 0.2 0.05 1.2 0.1 1.8 0.3
"""
open(d + '/data', 'w').write(DATA)
ext = extinction()
out = d + '/out'
fit(d + '/data', ['bob', 'alice', 'eve'], [1., 3., 3.] * u.arcsec, md, out, n_data_min=2, extinction_law=ext, distance_range=[1., 2.] * u.kpc, av_range=[0., 0.1], output_format=('A',), output_convolved=True)
lst = list(FitInfoFile(out, 'r'))
snap = pickle.dumps([(i.__getstate__()) for i in lst])
def run(form, tag):
    o = d + '/' + tag; os.mkdir(o)
    res = {}
    write_parameters(form, o + '/wp', select_format=('N', 3))
    write_parameter_ranges(form, o + '/wpr', select_format=('F', 1.))
    write_parameters(form, o + '/wp2', select_format=('A',), additional={'add': {'model_%04d' % i: i * 1.5 for i in range(5)}})
    os.mkdir(o + '/ex')
    extract_parameters(form, o + '/ex/', '.txt', select_format=('N', 2))
    figs = plot(form, select_format=('N', 2), sed_type='interp')
    res['figs'] = {k: [p.vertices for p in v['lines'].get_paths()] for k, v in figs.items()}
    plot(form, output_dir=o + '/plots', select_format=('N', 2), format='png', show_convolved=True, plot_mode='I')
    plot_params_1d(form, 'par1', output_dir=o + '/p1', select_format=('N', 2), format='png')
    plot_params_2d(form, 'par1', 'par2', output_dir=o + '/p2', select_format=('N', 2), format='png')
    filter_output(form, output_good=o + '/good', output_bad=o + '/bad', cpd=5.)
    write_parameters(form, o + '/wp3', select_format=('A',))
    return res
r1 = run(out, 'file')
r2 = run(lst, 'list')
r3 = run(tuple(lst), 'tuple')
assert pickle.dumps([(i.__getstate__()) for i in lst]) == snap
import subprocess
print(subprocess.run(['diff', '-r', d + '/file', d + '/list'], capture_output=True, text=True).stdout[:2000])
print(subprocess.run(['diff', '-r', d + '/file', d + '/tuple'], capture_output=True, text=True).stdout[:2000])
for k in r1['figs']:
    for a, b in zip(r1['figs'][k], r2['figs'][k]):
        assert np.array_equal(a, b)
print(open(d+'/file/wp').read())
print(open(d+'/file/wpr').read())
print(sorted(os.listdir(d+'/file/p1')), sorted(os.listdir(d+'/file/plots')))
print("DONE")
