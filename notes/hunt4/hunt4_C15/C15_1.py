"""
C15, clause "Reading an SED with a requested flux unit returns nu*F_nu-type,
F_nu-type or luminosity-type values ... whatever unit the file was stored in"
(quantifier: any frequency grid, 1..5 apertures).

Input: an SED file laid out exactly as docs/creating_model_packages.rst
prescribes (HDU 3 columns of format nE with n = NWAV, NAP rows) whose
frequency grid has ONE point (NWAV = 1, so TFORM = '1E' / '1D').  astropy hands
such a column back as a 1-d array of NAP scalars, SED.read multiplies it with
the 1-element frequency array and the flux setter refuses the result:

    TypeError: flux should be a 2-d array

for every stored unit and every requested unit and every number of apertures.
(SED.write itself produces one-wavelength files - it adds a TDIM = '(1)' card,
and those read back - so a one-point grid is a supported SED; only the plain
documented layout is refused.)
"""
import os
import sys
import tempfile
import warnings

import numpy as np
from astropy import units as u
from astropy.io import fits

from sedfitter.sed import SED

warnings.simplefilter('ignore')

CGS = u.erg / u.cm ** 2 / u.s
UNITS = {'mJy': u.mJy, 'Jy': u.Jy, 'erg/cm^2/s': CGS, 'erg/s': u.erg / u.s, 'W/m^2': u.W / u.m ** 2}

tmp = tempfile.mkdtemp()
dist = 3.0e21  # cm


def make(filename, unit_string, wav, nap):
    wav = np.asarray(wav, dtype=float)
    nwav = len(wav)
    nu = 2.99792458e14 / wav
    h0 = fits.PrimaryHDU()
    h0.header['MODEL'] = 'm'
    h0.header['DISTANCE'] = dist
    h0.header['NAP'] = nap
    h0.header['NWAV'] = nwav
    h1 = fits.BinTableHDU.from_columns([
        fits.Column(name='WAVELENGTH', format='1D', array=wav, unit='um'),
        fits.Column(name='FREQUENCY', format='1D', array=nu, unit='Hz')])
    h2 = fits.BinTableHDU.from_columns([
        fits.Column(name='APERTURE', format='1D', array=100. * np.arange(1, nap + 1), unit='AU')])
    val = np.arange(1., nap * nwav + 1.).reshape(nap, nwav)
    h3 = fits.BinTableHDU.from_columns([
        fits.Column(name='TOTAL_FLUX', format='%dD' % nwav, array=val, unit=unit_string),
        fits.Column(name='TOTAL_FLUX_ERR', format='%dD' % nwav, array=0.1 * val, unit=unit_string)])
    fits.HDUList([h0, h1, h2, h3]).writeto(filename, overwrite=True)
    return val, nu * u.Hz


def reference(val, nu, a, b):
    d = dist * u.cm
    if a.is_equivalent(u.Jy):
        f = (val * a * nu).to(CGS)
    elif a.is_equivalent(u.erg / u.s):
        f = (val * a / d ** 2).to(CGS)
    else:
        f = (val * a).to(CGS)
    if b.is_equivalent(u.Jy):
        return (f / nu).to(b)
    if b.is_equivalent(u.erg / u.s):
        return (f * d ** 2).to(b)
    return f.to(b)


failures = []
for wav in ([5.], [5., 50.]):           # the two-point grid is the control
    for nap in (1, 2, 5):
        for sa, a in UNITS.items():
            fn = os.path.join(tmp, 'sed.fits')
            val, nu = make(fn, sa, wav, nap)
            for sb, b in UNITS.items():
                try:
                    sed = SED.read(fn, unit_flux=b)
                except Exception as exc:
                    failures.append((len(wav), nap, sa, sb, '%s: %s' % (type(exc).__name__, exc)))
                    continue
                exp = reference(val, nu, a, b)
                if len(wav) > 1:
                    exp = exp[:, ::-1]   # read() sorts by increasing frequency
                assert sed.flux.unit == b
                assert np.allclose(sed.flux.value, exp.value, rtol=1e-12, atol=0), (wav, nap, sa, sb)

ctrl = [f for f in failures if f[0] > 1]
assert not ctrl, "control (two-point grid) failed: %r" % ctrl[:3]

if failures:
    print("C15 VIOLATED: SED.read refuses a documented-layout SED file with a one-point frequency grid")
    print("  %d of %d (apertures x stored unit x requested unit) combinations raise; first ones:" % (len(failures), 3 * 5 * 5))
    for f in failures[:4]:
        print("   NWAV=%d NAP=%d stored=%s requested=%s -> %s" % f)
    print("  expected: flux/error in the requested unit (F = nu F_nu, L = F d^2), as for the two-point grid")
    sys.exit(1)
print("no violation")
