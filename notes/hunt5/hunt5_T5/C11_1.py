"""
C11, clause "A fitter object returns the same result for a source no matter
[what happened] before" / no state shared between fits (and C01/C02: "the
reported A_V is the least-squares optimum ... clipped to the A_V range" the
fitter was built with).  Fitter's own docstring: "Once initialized, the fit
parameters cannot be changed".

History (theme: two Fitters on one package, objects re-used after modification):
    av_range = [0., 2.]
    F1 = Fitter(..., av_range=av_range)      # narrow range
    r1 = F1.fit(source)
    av_range[1] = 40.                        # caller re-uses his list ...
    F2 = Fitter(..., av_range=av_range)      # ... for a second fitter
    r2 = F1.fit(source)                      # same fitter, same source

Fitter keeps a reference to the caller's list (self.av_range = av_range; all
other arguments are copied or evaluated at construction, the extinction law is
deep-copied), so r2 != r1: F1 now clips at A_V = 40 although it was built with
[0, 2].  Works the same with a numpy array, for both package formats and both
fitting modes.
"""
import os
import io
import tempfile
import contextlib

import numpy as np
from astropy import units as u
from astropy.table import Table

from sedfitter import Fitter
from sedfitter.convolved_fluxes import ConvolvedFluxes
from sedfitter.extinction import Extinction
from sedfitter.source import Source

d = tempfile.mkdtemp()
names = np.array(['model_a', 'model_b', 'model_c'])
with open(os.path.join(d, 'models.conf'), 'w') as f:
    f.write("name = test\nlength_subdir = 0\naperture_dependent = no\nlogd_step = 0.02\n")
t = Table()
t['MODEL_NAME'] = names.astype('S30')
t['par1'] = [1., 2., 3.]
t.write(os.path.join(d, 'parameters.fits'))
os.mkdir(os.path.join(d, 'convolved'))
wavs = [0.5, 1.2, 3.6, 8.0]
fl = np.array([[1., 2., 3., 4.], [4., 3., 2., 1.], [1., 5., 2., 7.]])
for j in range(4):
    c = ConvolvedFluxes()
    c.model_names = names
    c.central_wavelength = wavs[j] * u.micron
    c.flux = fl[:, j:j + 1] * u.mJy
    c.error = fl[:, j:j + 1] * 0.01 * u.mJy
    c.write(os.path.join(d, 'convolved', 'f%d.fits' % j))

ext = Extinction()
ext.wav = np.logspace(-1., 2., 30) * u.micron
ext.chi = ext.wav.value ** -1.5 * u.cm ** 2 / u.g


def make_fitter(avr):
    with contextlib.redirect_stdout(io.StringIO()):
        return Fitter(['f0', 'f1', 'f2', 'f3'], [3.] * 4 * u.arcsec, d,
                      extinction_law=ext, av_range=avr)


av_range = [0., 2.]
F1 = make_fitter(av_range)

# model_a reddened by A_V = 10: the optimum lies outside [0, 2] and is clipped
av_law = np.asarray(F1.av_law)
flux = fl[0] * 10 ** (10. * av_law)
s = Source()
s.name = 'src'
s.x = s.y = 0.
s.valid = [1, 1, 1, 1]
s.flux = flux
s.error = flux * 0.1

r1 = F1.fit(s)
a1 = float(r1.av[list(r1.model_name).index('model_a')])

av_range[1] = 40.          # the caller's own list, re-used for a second fitter
F2 = make_fitter(av_range)

r2 = F1.fit(s)             # same fitter object, same source
a2 = float(r2.av[list(r2.model_name).index('model_a')])

assert a1 == 2.0, "unexpected first result %r" % a1
same = (np.array_equal(r1.model_name, r2.model_name) and np.array_equal(np.asarray(r1.av), np.asarray(r2.av))
        and np.array_equal(r1.chi2, r2.chi2) and np.array_equal(r1.sc, r2.sc))
assert same, ("C11 history clause violated: the same Fitter (built with av_range [0, 2]) fitted the same "
              "source twice and returned A_V(model_a) = %.3f, chi2 = %.3f the first time but A_V = %.3f, "
              "chi2 = %.3f the second time, after the caller changed his own av_range list to build a "
              "second Fitter on the package (Fitter stores the list by reference; A_V is no longer clipped "
              "to the range the fitter was built with)"
              % (a1, r1.chi2[list(r1.model_name).index('model_a')], a2,
                 r2.chi2[list(r2.model_name).index('model_a')]))
print("no violation")
