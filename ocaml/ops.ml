(* One entry per model operation: convert arguments, call the extracted function, convert the result. *)
open Proto

let to_sel (x : v) : M.sel =
  match x with
  | L [S "A"] -> M.SelA
  | L [S "N"; n] -> M.SelN (to_nat n)
  | L [S "C"; q] -> M.SelC (to_q q)
  | L [S "D"; q] -> M.SelD (to_q q)
  | L [S "E"; q] -> M.SelE (to_q q)
  | L [S "F"; q] -> M.SelF (to_q q)
  | _ -> raise (Bad "selector")

let to_token (x : v) : M.token =
  match x with
  | L [k; i; f] -> { M.t_key = to_z k; M.t_int = to_opt to_z i; M.t_float = to_opt to_q f }
  | _ -> raise (Bad "token")

let of_err (e : M.err) : v =
  S (match e with M.E_eof -> "eof" | M.E_layout -> "layout" | M.E_flag -> "flag" | M.E_number -> "number")

let to_frec (x : v) : M.frec =
  match x with
  | L [i; b; n] -> { M.fr_id = to_z i; M.fr_best = to_xnum b; M.fr_nd = to_pos n }
  | _ -> raise (Bad "frec")

(* float oracles handed to the model as function arguments (exact double <-> Q conversion) *)
let qf (q : M.q) : float = BQ.to_float (BQ.make q.M.qnum q.M.qden)
let fq (f : float) : M.q = let q = BQ.of_float f in { M.qnum = BQ.num q; M.qden = BQ.den q }
let finite_or_zero (f : float) : float = match classify_float f with FP_nan | FP_infinite -> 0. | _ -> f
let lg (q : M.q) : M.q = fq (finite_or_zero (log10 (qf q)))
let pw (q : M.q) : M.q = fq (finite_or_zero (10. ** (qf q)))
let ln10 : M.q = fq (log 10.)
let pen (c : M.q) : M.q option =
  let f = -2. *. log (1. -. qf c) in
  if classify_float f = FP_infinite || classify_float f = FP_nan then None else Some (fq f)

let to_raw (x : v) : M.rawband =
  match x with
  | L [f; a; b] -> { M.rb_flag = to_z f; M.rb_flux = to_q a; M.rb_err = to_q b }
  | _ -> raise (Bad "rawband")
(* a row given directly: flag, log flux (data), log error / confidence, weight, a, s, log model flux *)
let to_row (x : v) : M.row =
  match x with
  | L [f; lf; le; w; a; s; lm] -> { M.r_b = { M.b_flag = to_z f; M.b_lf = to_q lf; M.b_le = to_q le; M.b_w = to_q w }; M.r_a = to_q a; M.r_s = to_q s; M.r_lm = to_q lm }
  | _ -> raise (Bad "row")
let to_pt (x : v) : M.q * M.q = to_pair to_q to_q x
let of_fitres (r : M.fitres) : v = L [of_q r.M.f_av; of_q r.M.f_sc; of_xnum r.M.f_chi2; of_list of_q r.M.f_pred]
let of_fitres3 (r : M.fitres3) : v =
  L [of_q r.M.g_av; of_q r.M.g_sc; of_xnum r.M.g_chi2; of_list of_q r.M.g_pred; of_nat r.M.g_best; of_list of_xnum r.M.g_grid; of_list of_q r.M.g_avs]

let to_sedm (x : v) : M.sedm =
  match x with
  | L [n; nu; fl; er] -> { M.sd_name = to_z n; M.sd_nu = to_list to_q nu; M.sd_flux = to_list (to_list to_q) fl; M.sd_err = to_list (to_list to_q) er }
  | _ -> raise (Bad "sedm")
let of_crow (r : M.crow) : v = L [of_z r.M.cr_name; of_list of_q r.M.cr_flux; of_list of_q r.M.cr_var]

let dispatch (op : string) (x : v) : v =
  match op, args x with
  | "get_av", [tab; vv; ts] ->
      let tab = to_list to_pt tab and vv = to_q vv in
      of_list (fun t -> of_q (M.get_av_m tab vv (to_q t))) (match ts with L l -> l | _ -> raise (Bad "list"))
  | "get_av_snap", [tol; tab; vv; ts] ->
      let tab = to_list to_pt tab and vv = to_q vv and tol = to_q tol in
      of_list (fun t -> of_q (M.get_av_snap_m tol tab vv (to_q t))) (match ts with L l -> l | _ -> raise (Bad "list"))
  | "filter_table", [table; names] ->
      let t = to_list (to_pair to_z to_z) table in
      of_opt (of_list (fun (k, p) -> L [of_z k; of_z p]))
        (M.filter_table_m BZ.minus_one (M.prep_table_m BZ.minus_one t) (to_list to_z names))
  | "filter_table_noprep", [table; names] ->
      let t = to_list (to_pair to_z to_z) table in
      of_opt (of_list (fun (k, p) -> L [of_z k; of_z p])) (M.filter_table_m BZ.minus_one t (to_list to_z names))
  | "ranges", [l] ->
      of_opt (fun ((a, b), c) -> L [of_xnum a; of_xnum b; of_xnum c]) (M.ranges_m (to_list to_xnum l))
  | "fit_file", [nmin; lines] ->
      let to_line (x : v) : M.lkind =
        match x with
        | L [S "s"; nd; id] -> M.LSource (to_nat nd, to_z id)
        | L [S "e"] -> M.LEof
        | L [S "x"] -> M.LError
        | _ -> raise (Bad "line") in
      of_opt (of_list of_z) (M.fit_file_m (to_nat nmin) (to_list to_line lines))
  | "history", [mode; state; ops] ->
      let st = to_list (fun x -> match x with
                                 | L [nd; chi] -> let n = to_pos nd in List.map (fun c -> (n, c)) (to_list to_xnum chi)
                                 | _ -> raise (Bad "result")) state in
      let ops = to_list to_sel ops in
      let (outs, fin) = (match mode with S "alias" -> M.history_alias st ops | _ -> M.history_copy st ops) in
      L [of_list (of_list of_nat) outs; of_list of_nat fin]
  | "reader", [lens; ks] ->
      let lens = to_list to_nat lens in
      let st (x : M.status) : v = S (match x with M.Eof -> "eof" | M.Trunc -> "trunc" | M.Corrupt -> "corrupt" | M.OutOfFuel -> "fuel") in
      of_list (fun k -> let k = to_nat k in L [of_opt of_nat (M.reader_m lens k); st (M.cut_status lens k)]) (args ks)
  | "scan_file", [table; fuel; bytes] ->
      let cls (x : v) : M.opclass =
        match x with
        | L [S "F"; n] -> M.Fixed (to_nat n) | L [S "L"; w] -> M.LenPre (to_nat w)
        | L [S "2"] -> M.Line2 | L [S "S"] -> M.Stop | _ -> raise (Bad "class") in
      let tbl = to_list (to_pair (fun b -> BZ.to_int (to_z b)) cls) table in
      let classify (b : M.nat) : M.opclass option = List.assoc_opt (int_of_nat b) tbl in
      let (chunks, status) = M.read_all classify (to_nat fuel) (to_list to_nat bytes) in
      let st = S (match status with M.Eof -> "eof" | M.Trunc -> "trunc" | M.Corrupt -> "corrupt" | M.OutOfFuel -> "fuel") in
      L [of_list (fun c -> I (BZ.of_int (List.length c))) chunks; st]
  | "rebin", [filt; nu] -> of_list of_q (M.rebin_m (to_list to_pt filt) (to_list to_q nu))
  | "isub", [filt; a; b] -> of_q (M.isub_full (to_list to_pt filt) (to_q a) (to_q b))
  | "normalize", [filt] -> of_list (fun (_, y) -> of_q y) (M.normalize_m (to_list to_pt filt))
  | "conv", [flux; resp] -> of_q (M.conv_m (to_list to_q flux) (to_list to_q resp))
  | "conv_var", [err; resp] -> of_q (M.conv_var_m (to_list to_q err) (to_list to_q resp))
  | "conv_dir1", [filt; norm; files; par] ->
      let filt = to_list to_pt filt in
      let filt = if to_bool norm then M.normalize_m filt else filt in
      of_opt (of_list of_crow) (M.conv_dir1_m filt (to_list (to_pair to_z to_sedm) files) (to_list to_z par))
  | "conv_dir2", [filt; norm; cube; par] ->
      let filt = to_list to_pt filt in
      let filt = if to_bool norm then M.normalize_m filt else filt in
      of_opt (of_list of_crow) (M.conv_dir2_m filt (to_list to_sedm cube) (to_list to_z par))
  | "mono", [wavs; wmin; wmax; chunk] ->
      let ((lo, hi), out) = M.mono_m (to_list to_q wavs) (to_q wmin) (to_q wmax) (to_z chunk) in
      L [of_z lo; of_z hi; of_list of_z out]
  | "nearest", [wavs; w0] -> of_nat (M.nearest_m (to_list to_q wavs) (to_q w0))
  | "sed_roundtrip", [want_wav; wav; row] ->
      let (w, r) = M.sed_roundtrip BZ.zero (to_bool want_wav) (to_list to_z wav) (to_list to_z row) in
      L [of_list of_z w; of_list of_z r]
  | "cube_roundtrip", [want_wav; wav; row] ->
      let (w, r) = M.cube_roundtrip (to_bool want_wav) (to_list to_z wav) (to_list to_z row) in
      L [of_list of_z w; of_list of_z r]
  | "convert", [fa; ka; fb; kb; nu; d; xs] ->
      let fam (x : v) : M.family = match x with S "Fnu" -> M.Fnu | S "Fint" -> M.Fint | S "Lum" -> M.Lum | _ -> raise (Bad "family") in
      of_list (fun x -> of_q (M.convert (fam fa) (to_q ka) (fam fb) (to_q kb) (to_q nu) (to_q d) (to_q x))) (args xs)
  | "convert_u", [ua; ub; nu; d; xs] ->
      let unitd (x : v) : M.unitd = match x with
        | L [sc; kg; m; s; o] -> { M.u_scale = to_q sc; M.u_kg = to_z kg; M.u_mt = to_z m; M.u_s = to_z s; M.u_other = to_z o }
        | _ -> raise (Bad "unit descriptor") in
      of_list (fun x -> of_opt of_q (M.convert_u (unitd ua) (unitd ub) (to_q nu) (to_q d) (to_q x))) (args xs)
  | "interp_var", [filt; amin; amax; cols] ->
      of_opt (of_list of_q)
        (M.sed_interp_var_m lg pw (to_list to_pt filt) (to_q amin) (to_q amax) (to_list (to_pair to_q (to_list to_pt)) cols))
  | "curve_list", [m; nu; n] ->
      let md = match m with S "interp" -> M.Interp | S "largest" -> M.Largest | S "largest+smallest" -> M.LargestSmallest | S "all" -> M.AllAp | _ -> raise (Bad "mode") in
      of_list (fun (i, j) -> L [of_nat i; of_nat j]) (M.curve_list md (to_nat nu) (to_nat n))
  | "curve_val", [f; dd; d; k; av; kk] -> of_q (M.curve_val pw (to_q f) (to_q dd) (to_q d) (to_q k) (to_q av) (to_q kk))
  | "get_log_fluxes", [raws] ->
      of_list (fun r -> let b = M.get_log_fluxes_m lg ln10 (to_raw r) in L [of_z b.M.b_flag; of_q b.M.b_w; of_q b.M.b_lf; of_q b.M.b_le]) (args raws)
  | "linreg", [rows] ->
      let (p1, p2) = M.linreg_m (to_list to_row rows) in L [of_q p1; of_q p2]
  | "radius_sigma", [frac; aps; fl] -> of_q (M.radius_sigma_m (to_q frac) (to_list to_q aps) (to_list to_q fl))
  | "radius_cumul", [frac; aps; fl] -> of_q (M.radius_cumul_m (to_q frac) (to_list to_q aps) (to_list to_q fl))
  | "resolved_pkg", [thetas; ds; models] ->
      (* remove_resolved=True: per model ([per band: radius, threshold, surface brightnesses], mask [distance][band]) *)
      let of_band (b : M.bandres) : v = L [of_q b.M.b_radius; of_q b.M.b_thr; of_list of_q b.M.b_sigma] in
      of_list (of_opt (fun (bs, ext) -> L [of_list of_band bs; of_list (of_list of_bool) ext]))
        (M.resolved_pkg (to_list to_q thetas) (to_list to_q ds) (to_list (to_list (to_list to_pt)) models))
  | "linreg_ortho", [rows] ->
      let (p1, p2) = M.linreg_ortho_m (to_list to_row rows) in L [of_q p1; of_q p2]
  | "optscale_sc", [av; rows] -> of_q (M.optscale_sc_m (to_q av) (to_list to_row rows))
  | "optscale_av", [rows] -> of_q (M.optscale_av_m (to_list to_row rows))
  | "chi2", [rows; av; sc] -> of_q (M.chi2_m pen (to_list to_row rows) (to_q av) (to_q sc))
  | "fmt_e", [p; x] ->
      (* the decimal exponent is proposed in floating point and validated by the model (Fmt.fmt_e returns None for a wrong one) *)
      let q = to_q x in
      let f = abs_float (qf q) in
      let e0 = if f > 0. && classify_float f <> FP_infinite then int_of_float (floor (log10 f)) else 0 in
      let rec first = function
        | [] -> None
        | e :: r -> (match M.fmt_e (to_nat p) (BZ.of_int e) q with Some me -> Some me | None -> first r) in
      of_opt (fun (m, e) -> L [of_z m; of_z e]) (first [e0; e0 - 1; e0 + 1])
  | "fmt_f", [p; x] -> of_z (M.fmt_f (to_nat p) (to_q x))
  | "ndist", [l; step] -> of_z (M.ndist (to_q l) (to_q step))
  | "ndist_g", [g; l; step] -> of_z (M.ndist_g (to_q g) (to_q l) (to_q step))
  | "gridlog", [lo; hi; n] -> of_list of_q (M.gridlog_m (to_q lo) (to_q hi) (to_nat n))
  | "rank", [chi] -> of_list of_nat (M.rank_m (to_list to_xnum chi))
  | "interp_clamp", [tab; rs] ->
      let tab = to_list to_pt tab in
      of_list (fun r -> of_opt of_q (M.interp_clamp_m tab (to_q r))) (match rs with L l -> l | _ -> raise (Bad "list"))
  | "fit2_all", [lo; hi; raws; alaw; models] ->
      let raws = to_list to_raw raws and alaw = to_list to_q alaw in
      L [of_q (M.fit2_det lg ln10 raws alaw);
         of_list of_fitres (M.fit2_all lg ln10 pen (to_q lo) (to_q hi) raws alaw (to_list (to_list to_q) models))]
  | "fit2_pkg", [tab; vv; wavs; lo; hi; raws; models] ->
      let raws = to_list to_raw raws and tab = to_list to_pt tab and vv = to_q vv and wavs = to_list to_q wavs in
      let alaw = List.map (M.get_av_m tab vv) wavs in
      L [of_q (M.fit2_det lg ln10 raws alaw); of_list of_q alaw;
         of_list of_fitres (M.fit2_pkg lg ln10 pen tab vv wavs (to_q lo) (to_q hi) raws (to_list (to_list to_q) models))]
  | "fit3_pkg", [tab; vv; wavs; lo; hi; raws; thetas; ds; logds; models] ->
      let raws = to_list to_raw raws and tab = to_list to_pt tab and vv = to_q vv and wavs = to_list to_q wavs in
      let alaw = List.map (M.get_av_m tab vv) wavs in
      L [of_q (M.fit3_m11 lg ln10 raws alaw); of_list of_q alaw;
         of_opt (of_list of_fitres3)
           (M.fit3_pkg lg ln10 pen tab vv wavs (to_q lo) (to_q hi) raws (to_list to_q thetas) (to_list to_q ds) (to_list to_q logds)
              (to_list (to_list (to_list to_pt)) models))]
  | "fit3_pkg_masked", [tab; vv; wavs; lo; hi; raws; thetas; ds; logds; models; exts] ->
      (* remove_resolved=True: the implementation's own `extended` array [model][distance][band] is an input *)
      let raws = to_list to_raw raws and tab = to_list to_pt tab and vv = to_q vv and wavs = to_list to_q wavs in
      of_opt (of_list of_fitres3)
        (M.fit3_pkg_masked lg ln10 pen tab vv wavs (to_q lo) (to_q hi) raws (to_list to_q thetas) (to_list to_q ds) (to_list to_q logds)
           (to_list (to_list (to_list to_pt)) models) (to_list (to_list (to_list to_bool)) exts))
  | "fit3_all", [lo; hi; raws; alaw; thetas; ds; logds; models] ->
      let raws = to_list to_raw raws and alaw = to_list to_q alaw in
      L [of_q (M.fit3_m11 lg ln10 raws alaw);
         of_opt (of_list of_fitres3)
           (M.fit3_all lg ln10 pen (to_q lo) (to_q hi) raws alaw (to_list to_q thetas) (to_list to_q ds) (to_list to_q logds)
              (to_list (to_list (to_list to_pt)) models))]
  | "filter_output", [chi; cpd; recs] ->
      let (g, b) = M.filter_output_m (to_opt to_q chi) (to_opt to_q cpd) (to_list to_frec recs) in
      L [of_list (fun r -> of_z r.M.fr_id) g; of_list (fun r -> of_z r.M.fr_id) b]
  | "from_ascii", [cols] ->
      (match M.from_ascii_m (to_list to_token cols) with
       | M.Ok s -> L [S "ok"; of_z s.M.s_name; of_q s.M.s_x; of_q s.M.s_y; of_list of_z s.M.s_flags;
                      of_list of_q s.M.s_flux; of_list of_q s.M.s_err]
       | M.Err e -> L [S "err"; of_err e])
  | "attach", [extra; names] ->
      of_opt (of_list of_q) (M.attach_col (to_list (to_pair to_z to_q) extra) (to_list to_z names))
  | "read_files", [files] ->
      of_opt (of_list (of_list (of_pair of_z (of_list of_q))))
        (M.read_files [] (to_list (to_list (to_pair to_z (to_list to_q))) files))
  | "nkeep", [s; nd; chi] -> of_nat (M.nkeepN (to_sel s) (to_z nd) (to_list to_xnum chi))      (* nd : N, 0 allowed *)
  | _ -> raise (Bad ("unknown op or arity: " ^ op))
