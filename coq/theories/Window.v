From Coq Require Import QArith Lqa Lia List Bool ZArith.
Import ListNotations.
Open Scope Q_scope.

(* monochromatic.py: wavelengths are stored in decreasing order; the window is found on the reversed array
     jlo = n - 1 - (rev.searchsorted(wav_max) - 1)      jhi = n - 1 - rev.searchsorted(wav_min)
   searchsorted on an increasing array = number of elements < v *)
Definition cnt_lt (v : Q) (l : list Q) : nat := length (filter (fun x => negb (Qle_bool v x)) l).
Definition jlo (wavs : list Q) (wmax : Q) : Z := Z.of_nat (length wavs) - 1 - (Z.of_nat (cnt_lt wmax (rev wavs)) - 1).
Definition jhi (wavs : list Q) (wmin : Q) : Z := Z.of_nat (length wavs) - 1 - Z.of_nat (cnt_lt wmin (rev wavs)).

Fixpoint decr (l : list Q) : Prop := match l with x :: ((y :: _) as r) => y < x /\ decr r | _ => True end.

Lemma cnt_lt_rev v l : cnt_lt v (rev l) = cnt_lt v l.
Proof. unfold cnt_lt. induction l as [|x r IH]; simpl; [reflexivity|].
  rewrite filter_app, app_length, IH. simpl. destruct (negb (Qle_bool v x)); simpl; lia. Qed.

Lemma nle_bool a b : Qle_bool a b = false <-> b < a.
Proof. split; intros H.
  - destruct (Qlt_le_dec b a) as [L|L]; [exact L|]. apply Qle_bool_iff in L. congruence.
  - destruct (Qle_bool a b) eqn:E; [|reflexivity]. apply Qle_bool_iff in E. lra. Qed.

(* in a decreasing list the elements < v are exactly a suffix: index j holds a value < v  iff  j >= n - cnt_lt v *)
Lemma decr_tail_lt x r : decr (x :: r) -> Forall (fun y => y < x) r.
Proof. revert x. induction r as [|y r IH]; intros x H; [constructor|]. destruct H as [Hy H].
  constructor; [exact Hy|]. eapply Forall_impl; [|apply IH; exact H]. simpl. intros; lra. Qed.

Lemma cnt_all v l : Forall (fun y => y < v) l -> cnt_lt v l = length l.
Proof. unfold cnt_lt. induction 1 as [|y r Hy _ IH]; simpl; [reflexivity|].
  assert (E : Qle_bool v y = false) by (now apply nle_bool). rewrite E. simpl. now rewrite IH. Qed.

Lemma filter_len_le {A} (f : A -> bool) l : (length (filter f l) <= length l)%nat.
Proof. induction l as [|x r IH]; simpl; [lia|]. destruct (f x); simpl; lia. Qed.

Theorem C16_window_index wavs v j : decr wavs -> (j < length wavs)%nat ->
  (nth j wavs 0 < v <-> (length wavs - cnt_lt v wavs <= j)%nat).
Proof.
  revert j. induction wavs as [|x r IH]; intros j Hd Hj; [simpl in Hj; lia|].
  assert (Hr : decr r) by (destruct r; [exact I|now destruct Hd]).
  pose proof (decr_tail_lt x r Hd) as F.
  unfold cnt_lt in *. simpl filter. destruct (Qle_bool v x) eqn:E; simpl negb; cbv iota.
  - (* x >= v *) apply Qle_bool_iff in E. simpl length. destruct j as [|j]; simpl nth.
    + split; [lra|]. pose proof (filter_len_le (fun x0 => negb (Qle_bool v x0)) r). lia.
    + rewrite (IH j Hr ltac:(simpl in Hj; lia)).
      pose proof (filter_len_le (fun x0 => negb (Qle_bool v x0)) r). lia.
  - (* x < v, hence everything is < v *) apply nle_bool in E.
    assert (Fa : Forall (fun y => y < v) r) by (eapply Forall_impl; [|exact F]; simpl; intros; lra).
    pose proof (cnt_all v r Fa) as C. unfold cnt_lt in C. simpl length. rewrite C.
    split; [lia|]. intros _. destruct j as [|j]; simpl; [exact E|].
    rewrite Forall_forall in Fa. apply Fa. apply nth_In. simpl in Hj. lia.
Qed.
Print Assumptions C16_window_index.
