import os, tempfile, shutil, sys
import numpy as np
from astropy import units as u
from astropy.table import Table
from sedfitter.sed import SEDCube
from sedfitter.models import Models
c = 299792458.
def run(seed):
    rng = np.random.default_rng(seed)
    d = tempfile.mkdtemp()
    n_models = rng.integers(1, 6); n_ap = rng.integers(1, 4); n_wav = rng.integers(2, 10)
    wav = np.sort(rng.uniform(0.5, 500, n_wav))
    if rng.random() < .5: wav = wav[::-1]
    flux = rng.uniform(0.1, 10, (n_models, n_ap, n_wav)); err = rng.uniform(0.01, 1, (n_models, n_ap, n_wav))
    cube = SEDCube(); cube.names = np.array(['m%d' % i for i in range(n_models)]); cube.distance = 1 * u.kpc
    wav_unit = rng.choice(['um', 'cm', 'Angstrom', 'm', 'mm'])
    cube.wav = (wav * u.micron).to(wav_unit)
    nu_eff = cube.nu.to(u.Hz).value
    cube.apertures = np.sort(rng.uniform(10, 1000, n_ap)) * u.au
    fu = u.Unit(rng.choice(['mJy', 'Jy', 'erg/(cm2 s)', 'erg/s', 'W/m2', 'uJy']))
    def conv(f):
        f = f * u.mJy
        if fu.is_equivalent(u.mJy): return f.to(fu)
        f = (f * (nu_eff * u.Hz)).to(u.erg / u.cm**2 / u.s)
        if fu.is_equivalent(u.erg / u.cm**2 / u.s): return f.to(fu)
        return (f * (1 * u.kpc)**2).to(fu)
    cube.val = conv(flux); cube.unc = conv(err)
    cube.write(d + '/flux.fits')
    with open(d + '/models.conf', 'w') as f:
        f.write("name = test\nlength_subdir = 0\naperture_dependent = no\nlogd_step = 0.02\nversion = 2\n")
    t = Table(); t['MODEL_NAME'] = np.array(cube.names, dtype='S'); t['par1'] = rng.random(n_models); t.write(d + '/parameters.fits')
    wcube = cube.wav.to(u.micron).value
    reqs = list(wcube) + list(rng.uniform(0.1, 1000, 6)) + list(0.5*(wcube[1:]+wcube[:-1]) * (1 + 1e-6))
    filters = [{'wav': (w * u.micron).to(rng.choice(['um', 'mm', 'Angstrom'])), 'aperture_arcsec': 3.} for w in reqs]
    m = Models.read(d, filters, use_memmap=False)
    for i, w in enumerate(reqs):
        k = np.argmin(np.abs(wcube - w))
        got = m.fluxes[:, i].to(u.mJy).value
        assert np.allclose(got, flux[:, 0, k], rtol=1e-9), (seed, w, wcube, got, flux[:, 0, k], str(fu))
    shutil.rmtree(d)
for s in range(int(sys.argv[1]), int(sys.argv[2])): run(s)
print('ok')
