"""
C16 - clause: "writes exactly one file per SED wavelength lying inside the
requested wavelength window", for windows "whose ends fall ... on tabulated
wavelengths".

Input: a per-file package whose SED files store the wavelengths in single
precision (the 'E' columns the package-format page prescribes), 6 wavelengths
0.5, 1.2, 3.6, 8, 24, 70 micron.  The window starts ON the tabulated
wavelength 24 micron, taken from the table itself and written in nm:
    wav_min = SED.read(file).wav[k].to(u.nm)         # 24000 nm, float32
Converted back to micron in single precision this is 24.000002, one float32
rounding error above the tabulated 24.0; the tolerance that moves such limits
back onto the table (1e-14, introduced for limits in mm / nm / Angstrom) only
covers double-precision rounding.  The file for 24 micron is not written:
one file instead of two.  Same for 3.6 micron given in nm or in mm.
"""
import os, sys, glob, shutil, tempfile
import numpy as np
from astropy import units as u
from astropy.table import Table
from astropy import log
log.setLevel('ERROR')

from sedfitter.sed import SED
from sedfitter.convolve import convolve_model_dir_monochromatic

rng = np.random.RandomState(0)
names = ['m_a', 'm_b']
wav = (np.array([0.5, 1.2, 3.6, 8.0, 24., 70.], dtype=np.float32)) * u.micron
nu = wav.astype(float).to(u.Hz, equivalencies=u.spectral()).astype(np.float32)
aps = np.array([10., 100.]) * u.au
val = np.cumsum(rng.random_sample((2, 2, 6)) + 0.5, axis=1)

d1 = tempfile.mkdtemp()
os.mkdir(os.path.join(d1, 'seds'))
for i, n in enumerate(names):
    s = SED()
    s.name = n
    s.distance = 1 * u.kpc
    s.wav = wav
    s.nu = nu
    s.apertures = aps
    s.flux = val[i].astype(np.float32) * u.mJy
    s.error = 0.01 * val[i].astype(np.float32) * u.mJy
    s.write(os.path.join(d1, 'seds', n + '_sed.fits'))
with open(os.path.join(d1, 'models.conf'), 'w') as f:
    f.write("name = test\nlength_subdir = 0\naperture_dependent = yes\nlogd_step = 0.02\n")
t = Table()
t['MODEL_NAME'] = np.array(names, dtype='S30')
t['par1'] = np.arange(2.)
t.write(os.path.join(d1, 'parameters.fits'))

tab = SED.read(os.path.join(d1, 'seds', 'm_a_sed.fits')).wav      # as tabulated (float32, micron)
assert tab.dtype == np.float32

failures = []
for unit in (u.micron, u.nm, u.mm):
    for k in range(len(tab)):
        lo = tab[k].to(unit)              # the tabulated wavelength, in another unit
        shutil.rmtree(os.path.join(d1, 'convolved'), ignore_errors=True)
        convolve_model_dir_monochromatic(d1, wav_min=lo)
        got = len(glob.glob(os.path.join(d1, 'convolved', 'MO*.fits')))
        expected = int(np.sum(tab >= tab[k]))
        if got != expected:
            failures.append("wav_min = %r (tabulated %s): %d file(s) written, %d wavelengths "
                            "in [wav_min, inf)" % (lo, tab[k], got, expected))

assert not failures, ("C16 violated for a single-precision wavelength table; window starting "
                      "on a tabulated wavelength written in another unit: " + "; ".join(failures))
print("OK")
