"""
C11, clause "for distance-independent packages, multiplying every flux and
error by a constant shifts every scale by -0.5*log10(constant) and leaves A_V
and chi^2 unchanged".

Input: a distance-independent package with 3 models, and a source with a single
measured flux (valid = 1) - either a one-filter fit, or a 4-filter fit in which
the other three points are flagged unused (valid = 0).  Fitter.fit() accepts
such a source (the n_data_min guard lives only in the module-level fit() and
can be set to 1 there).  The 2-parameter regression is then singular
(m11*m22 - m12^2 == 0 up to rounding) and the returned A_V, scale and chi^2
are rounding garbage: chi^2 of a one-point fit comes out as ~1e2..1e3 instead of 0
and changes by orders of magnitude when the photometry is merely rescaled.

NOTE: only a finding if sources with a single used data point belong to the
C01/C02 source set referenced by the quantifier (1 filter is within "up to 6
filters").
"""
import contextlib
import io
import os
import sys
import tempfile

import numpy as np
from astropy import units as u

from sedfitter.convolved_fluxes import ConvolvedFluxes
from sedfitter.extinction import Extinction
from sedfitter.fit import Fitter
from sedfitter.source import Source

d = tempfile.mkdtemp()
os.mkdir(os.path.join(d, 'convolved'))
names = np.array(['a', 'b', 'c'])
filters = ['F0', 'F1', 'F2', 'F3']
wavs = [2.2, 3.6, 8.0, 24.]
rng = np.random.default_rng(0)
for fn, w in zip(filters, wavs):
    c = ConvolvedFluxes()
    c.model_names = names
    c.central_wavelength = w * u.micron
    c.flux = rng.uniform(1., 3., (3, 1)) * u.mJy
    c.error = c.flux * 0.01
    c.write(os.path.join(d, 'convolved', fn + '.fits'))
with open(os.path.join(d, 'models.conf'), 'w') as f:
    f.write("name = test\nlength_subdir = 0\naperture_dependent = no\nlogd_step = 0.02\n")

ext = Extinction()
ext.wav = np.logspace(-2., 3., 60) * u.micron
ext.chi = ext.wav.value ** -1.5 * u.cm ** 2 / u.g


def source(valid, flux, error):
    s = Source()
    s.name = 'src'
    s.x = s.y = 0.
    s.valid = valid
    s.flux = np.array(flux, dtype=float)
    s.error = np.array(error, dtype=float)
    return s


def as_map(info):
    return {str(n): (a, s, c) for n, a, s, c in zip(info.model_name, info.av, info.sc, info.chi2)}


problems = []
for label, fnames, valid, flux, err in [
        ('1 filter', ['F0'], [1], [5.], [0.5]),
        ('4 filters, 3 unused', filters, [0, 1, 0, 0], [1., 5., 1., 1.], [1., 0.5, 1., 1.])]:
    with contextlib.redirect_stdout(io.StringIO()):
        fitter = Fitter(fnames, [3.] * len(fnames) * u.arcsec, d, extinction_law=ext,
                        av_range=[0., 10.], distance_range=[1., 2.] * u.kpc)
    base = as_map(fitter.fit(source(valid, flux, err)))
    for const in (10., 100., 0.01):
        res = as_map(fitter.fit(source(valid, np.array(flux) * const, np.array(err) * const)))
        for name in base:
            a0, s0, c0 = base[name]
            a1, s1, c1 = res[name]
            def differs(x, y, tol):
                if np.isnan(x) and np.isnan(y):
                    return False
                if np.isinf(x) or np.isinf(y):
                    return not (x == y)
                return not abs(x - y) <= tol
            bad = (differs(a1, a0, 1e-6) or differs(c1, c0, 1e-6 * max(1., abs(c0)))
                   or differs(s1, s0 - 0.5 * np.log10(const), 1e-6))
            if bad:
                problems.append("%s, model %s, constant %g: (A_V, scale, chi2) = (%.4g, %.4g, %.4g) "
                                "-> (%.4g, %.4g, %.4g); expected (%.4g, %.4g, %.4g)"
                                % (label, name, const, a0, s0, c0, a1, s1, c1,
                                   a0, s0 - 0.5 * np.log10(const), c0))

if problems:
    print("C11 VIOLATED (flux scaling) for a source with a single used data point:")
    for p in problems:
        print("   ", p)
    sys.exit(1)
print("no violation")
