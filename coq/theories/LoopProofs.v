(* fit() driver loop: record count, lines after end-of-input ignored, compositionality over sources, a rejected line fails the call. *)
From Coq Require Import List Arith Lia Bool.
Import ListNotations.
From SedV Require Import Loop.

Section DriverMore.
Variables line source record : Type.
Variable parse : line -> parsed source.
Variable n_data : source -> nat.
Variable process : source -> record.
Variable nmin : nat.
Notation ff := (fit_file line source record parse n_data process nmin).

(* never more records than lines read *)
Theorem fit_file_count lines recs : ff lines = Some recs -> length recs <= length lines.
Proof.
  revert recs. induction lines as [|l rest IH]; cbn [fit_file]; intros recs H.
  - inversion H; subst. cbn. lia.
  - destruct (parse l) as [s| |]; [|inversion H; subst; cbn; lia|discriminate].
    destruct (ff rest) as [r|]; [|discriminate]. specialize (IH r eq_refl). inversion H; subst.
    destruct (nmin <=? n_data s); cbn [length]; lia.
Qed.

(* whatever follows the first end-of-input line is never looked at *)
Theorem fit_file_after_eof pre l post post' : parse l = PEof source ->
  ff (pre ++ l :: post) = ff (pre ++ l :: post').
Proof.
  intros E. induction pre as [|x pre IH]; cbn [app fit_file].
  - rewrite E. reflexivity.
  - destruct (parse x); try reflexivity. rewrite IH. reflexivity.
Qed.

(* sources are processed one by one: the records of a file are the records of its first line followed by those of the rest,
   and a source's record does not depend on which sources came before or after it *)
Theorem fit_file_app pre rest : Forall (fun l => exists s, parse l = PSource source s) pre ->
  ff (pre ++ rest) = match ff pre, ff rest with Some a, Some b => Some (a ++ b) | _, _ => None end.
Proof.
  induction 1 as [|x pre [s Hs] Hpre IH]; cbn [app fit_file].
  - destruct (ff rest); reflexivity.
  - rewrite Hs, IH. destruct (ff pre) as [a|]; [|reflexivity]. destruct (ff rest) as [b|]; [|reflexivity].
    destruct (nmin <=? n_data s); reflexivity.
Qed.

(* a rejected line before the end of input makes the whole call fail, whatever surrounds it *)
Theorem fit_file_error pre l post : Forall (fun l => exists s, parse l = PSource source s) pre ->
  parse l = PError source -> ff (pre ++ l :: post) = None.
Proof.
  intros Hpre E. induction Hpre as [|x pre [s Hs] Hpre IH]; cbn [app fit_file]; [rewrite E; reflexivity|].
  rewrite Hs, IH. reflexivity.
Qed.
End DriverMore.
