From Coq Require Import QArith Lqa Lia List Bool ZArith.
Import ListNotations.
Open Scope Q_scope.
From SedV Require Import Clamp FitCore.

Definition cross (r : row) (rs : list row) : Q :=
  qsum (fun j => w j * ((r_a r * r_s j - r_a j * r_s r) * (r_a r * r_s j - r_a j * r_s r))) rs.

Lemma cross_expand r rs :
  cross r rs == r_a r * r_a r * m22 rs - 2 * r_a r * r_s r * m12 rs + r_s r * r_s r * m11 rs.
Proof. unfold cross, m11, m12, m22. induction rs as [|j rs IH]; simpl; [ring|]. rewrite IH. ring. Qed.

Lemma det_step r rs : det (r :: rs) == det rs + w r * cross r rs.
Proof. rewrite cross_expand. unfold det, m11, m12, m22. simpl. ring. Qed.

Definition wnonneg (rs : list row) := Forall (fun r => 0 <= w r) rs.

Lemma cross_nonneg r rs : wnonneg rs -> 0 <= cross r rs.
Proof. unfold cross. induction 1 as [|j rs Hj _ IH]; simpl; [lra|].
  assert (0 <= w j * ((r_a r * r_s j - r_a j * r_s r) * (r_a r * r_s j - r_a j * r_s r))).
  { apply Qmult_le_0_compat; [exact Hj|apply sqnn]. } lra. Qed.

Lemma det_nonneg rs : wnonneg rs -> 0 <= det rs.
Proof. induction 1 as [|r rs Hr Hrs IH].
  - unfold det, m11, m12, m22; simpl; lra.
  - rewrite det_step. assert (0 <= w r * cross r rs) by (apply Qmult_le_0_compat; [exact Hr|now apply cross_nonneg]). lra. Qed.

Lemma cross_pos r j rs : wnonneg rs -> In j rs -> 0 < w j -> ~ r_a r * r_s j - r_a j * r_s r == 0 -> 0 < cross r rs.
Proof.
  intros Hw Hin Hwj Hne. unfold cross. induction Hw as [|k rs Hk Hrs IH]; [destruct Hin|].
  simpl. destruct Hin as [->|Hin].
  - set (t := r_a r * r_s j - r_a j * r_s r) in *.
    assert (0 < t * t) by (destruct (Qlt_le_dec t 0); [nra|assert (0 < t) by (destruct (Qeq_dec t 0); [contradiction|lra]); nra]).
    assert (0 < w j * (t * t)) by (apply Qmult_lt_0_compat; assumption).
    pose proof (cross_nonneg r rs Hrs) as C. unfold cross in C. lra.
  - specialize (IH Hin).
    assert (0 <= w k * ((r_a r * r_s k - r_a k * r_s r) * (r_a r * r_s k - r_a k * r_s r))) by (apply Qmult_le_0_compat; [exact Hk|apply sqnn]).
    lra.
Qed.

(* the property's "non-singular" hypothesis: two fitted rows whose (a, s) patterns are not proportional *)
Theorem C01_det_pos rs : wnonneg rs ->
  (exists i j pre mid post, rs = pre ++ i :: mid ++ j :: post /\ 0 < w i /\ 0 < w j /\
                            ~ r_a i * r_s j - r_a j * r_s i == 0) ->
  0 < det rs.
Proof.
  intros Hw (i & j & pre & mid & post & -> & Hwi & Hwj & Hne).
  induction pre as [|p pre IH].
  - simpl. rewrite det_step.
    assert (Hw' : wnonneg (mid ++ j :: post)) by (inversion Hw; assumption).
    assert (0 < cross i (mid ++ j :: post)).
    { eapply cross_pos; eauto. apply in_or_app. right. now left. }
    assert (0 < w i * cross i (mid ++ j :: post)) by (apply Qmult_lt_0_compat; assumption).
    pose proof (det_nonneg _ Hw'). lra.
  - simpl. rewrite det_step. inversion Hw as [|? ? Hp Hrest]; subst.
    specialize (IH Hrest).
    assert (0 <= w p * cross p (pre ++ i :: mid ++ j :: post)) by (apply Qmult_le_0_compat; [exact Hp|now apply cross_nonneg]).
    lra.
Qed.
Print Assumptions C01_det_pos.
