From Coq Require Import List Arith Lia Bool.
Import ListNotations.
From SedV Require Import Frame.

Section Reader.
Variable classify : byte -> option opclass.
Variable stopb : byte.
Hypothesis stop_class : classify stopb = Some Stop.
Notation scan := (scan classify).
Notation enc := (enc stopb).
Notation wf_inst := (wf_inst classify).

Inductive status := Eof | Trunc | Corrupt | OutOfFuel.

(* the iteration of FitInfoFile.__iter__: unpickle objects until the stream ends;
   each yielded object is represented by the bytes it was decoded from *)
Fixpoint read_all (fuel : nat) (bs : list byte) : list (list byte) * status :=
  match fuel with O => ([], OutOfFuel) | S f =>
  match bs with
  | [] => ([], Eof)
  | _ => match scan (S (length bs)) bs with
         | Complete rest => let chunk := firstn (length bs - length rest) bs in
                            let '(cs, st) := read_all f rest in (chunk :: cs, st)
         | Truncated => ([], Trunc)
         | Bad => ([], Corrupt)
         end
  end end.

Lemma read_all_step f bs : bs <> [] -> read_all (S f) bs =
  match scan (S (length bs)) bs with
  | Complete rest => let chunk := firstn (length bs - length rest) bs in
                     let '(cs, st) := read_all f rest in (chunk :: cs, st)
  | Truncated => ([], Trunc)
  | Bad => ([], Corrupt)
  end.
Proof. destruct bs; [congruence|reflexivity]. Qed.

Definition file (frames : list (list inst)) : list byte := concat (map enc frames).

Lemma enc_nonempty ops : enc ops <> [].
Proof. destruct ops; discriminate. Qed.

Lemma enc_ops_length ops : length ops < length (enc ops).
Proof. induction ops as [|i r IH]; simpl; [lia|]. rewrite app_length. lia. Qed.

(* cutting a file of well-formed frames anywhere yields an exact prefix of the frames, then EOF or a truncation error *)
Theorem C19_truncation frames : Forall (Forall wf_inst) frames -> forall k fuel, length frames < fuel ->
  exists m, m <= length frames /\
    fst (read_all fuel (firstn k (file frames))) = map enc (firstn m frames) /\
    (snd (read_all fuel (firstn k (file frames))) = Eof \/ snd (read_all fuel (firstn k (file frames))) = Trunc).
Proof.
  induction 1 as [|ops frames Hops _ IH]; intros k fuel Hf.
  - exists 0. unfold file; simpl. rewrite firstn_nil. destruct fuel; [simpl in Hf; lia|]. simpl. auto.
  - destruct fuel as [|fuel]; [simpl in Hf; lia|]. simpl in Hf.
    unfold file in *. cbn [map concat]. rewrite firstn_app.
    destruct (le_lt_dec (length (enc ops)) k) as [L|G].
    + (* the first frame is complete *)
      rewrite (firstn_all2 (enc ops)) by lia.
      set (rest := firstn (k - length (enc ops)) (concat (map enc frames))).
      assert (Hs : forall fu, length ops < fu -> scan fu (enc ops ++ rest) = Complete rest).
      { intros fu Hfu. apply (scan_complete classify stopb stop_class ops Hops rest fu Hfu). }
      assert (Hne : enc ops ++ rest <> []) by (destruct (enc ops) eqn:X; [now apply enc_nonempty in X|discriminate]).
      rewrite (read_all_step fuel _ Hne).
      rewrite Hs by (rewrite app_length; pose proof (enc_ops_length ops); lia).
      destruct (IH (k - length (enc ops)) fuel ltac:(lia)) as (m & Hm & H1 & H2). fold rest in H1, H2.
      destruct (read_all fuel rest) as [cs st] eqn:Er. simpl in H1, H2.
      exists (S m). split; [simpl; lia|]. simpl. split; [|exact H2].
      f_equal; [|exact H1]. rewrite app_length. replace (length (enc ops) + length rest - length rest) with (length (enc ops)) by lia.
      now rewrite firstn_app, firstn_all, Nat.sub_diag, firstn_O, app_nil_r.
    + (* the cut falls inside the first frame *)
      replace (k - length (enc ops)) with 0 by lia. rewrite firstn_O, app_nil_r.
      exists 0. split; [lia|].
      destruct (firstn k (enc ops)) eqn:Eb; [simpl; auto|]. rewrite <- Eb.
      assert (Hne : firstn k (enc ops) <> []) by (rewrite Eb; discriminate).
      rewrite (read_all_step fuel _ Hne).
      rewrite (C19_prefix_free classify stopb ops Hops k _ G). simpl. auto.
Qed.
(* an uncut file reads back as exactly the frames that were written, then end of file *)
Theorem read_all_complete frames : Forall (Forall wf_inst) frames -> forall fuel, length frames < fuel ->
  read_all fuel (file frames) = (map enc frames, Eof).
Proof.
  induction 1 as [|ops frames Hops _ IH]; intros fuel Hf.
  - destruct fuel; [simpl in Hf; lia|]. reflexivity.
  - destruct fuel as [|fuel]; [simpl in Hf; lia|]. simpl in Hf.
    unfold file in *. cbn [map concat]. set (rest := concat (map enc frames)) in *.
    assert (Hne : enc ops ++ rest <> []) by (destruct (enc ops) eqn:X; [now apply enc_nonempty in X|discriminate]).
    rewrite (read_all_step fuel _ Hne).
    rewrite (scan_complete classify stopb stop_class ops Hops rest) by (rewrite app_length; pose proof (enc_ops_length ops); lia).
    rewrite (IH fuel) by lia. cbn zeta. f_equal. f_equal.
    rewrite app_length. replace (length (enc ops) + length rest - length rest) with (length (enc ops)) by lia.
    now rewrite firstn_app, firstn_all, Nat.sub_diag, firstn_O, app_nil_r.
Qed.
(* the executable summary of the reader on a cut file: how many frames lie wholly before the cut, and how the iteration ends *)
Fixpoint prefix_count (lens : list nat) (k : nat) : nat :=
  match lens with [] => 0 | l :: r => if l <=? k then S (prefix_count r (k - l)) else 0 end.
Fixpoint cut_status (lens : list nat) (k : nat) : status :=
  match lens with
  | [] => Eof
  | l :: r => if l <=? k then cut_status r (k - l) else if k =? 0 then Eof else Trunc
  end.

Theorem C19_truncation_exact frames : Forall (Forall wf_inst) frames -> forall k fuel, length frames < fuel ->
  read_all fuel (firstn k (file frames)) =
  (map enc (firstn (prefix_count (map (fun f => length (enc f)) frames) k) frames),
   cut_status (map (fun f => length (enc f)) frames) k).
Proof.
  induction 1 as [|ops frames Hops _ IH]; intros k fuel Hf.
  - unfold file; simpl. rewrite firstn_nil. destruct fuel; [simpl in Hf; lia|]. reflexivity.
  - destruct fuel as [|fuel]; [simpl in Hf; lia|]. simpl in Hf.
    unfold file in *. cbn [map concat prefix_count cut_status]. rewrite firstn_app.
    destruct (length (enc ops) <=? k) eqn:E.
    + apply Nat.leb_le in E. rewrite (firstn_all2 (enc ops)) by lia.
      set (rest := firstn (k - length (enc ops)) (concat (map enc frames))).
      assert (Hne : enc ops ++ rest <> []) by (destruct (enc ops) eqn:X; [now apply enc_nonempty in X|discriminate]).
      rewrite (read_all_step fuel _ Hne).
      rewrite (scan_complete classify stopb stop_class ops Hops rest) by (rewrite app_length; pose proof (enc_ops_length ops); lia).
      unfold rest. rewrite (IH (k - length (enc ops)) fuel) by lia. cbn zeta. cbn [firstn map]. f_equal. f_equal.
      fold rest. rewrite app_length. replace (length (enc ops) + length rest - length rest) with (length (enc ops)) by lia.
      now rewrite firstn_app, firstn_all, Nat.sub_diag, firstn_O, app_nil_r.
    + apply Nat.leb_gt in E. replace (k - length (enc ops)) with 0 by lia. rewrite firstn_O, app_nil_r. cbn [firstn map].
      destruct k as [|k]; [reflexivity|]. cbn [Nat.eqb].
      assert (Hne : firstn (S k) (enc ops) <> []) by (destruct (enc ops) eqn:X; [now apply enc_nonempty in X|discriminate]).
      rewrite (read_all_step fuel _ Hne).
      now rewrite (C19_prefix_free classify stopb ops Hops (S k) _ E).
Qed.
End Reader.
Print Assumptions C19_truncation.
