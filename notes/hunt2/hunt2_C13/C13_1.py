"""
C13, last clause: "The wavelength-dependent variant used for plotting equals, at
every filter wavelength, the linear interpolant at that filter's aperture",
for requests "in the table's unit or another length unit, passed as bare
numbers (AU) or quantities where the API allows".

SED.interpolate_variable accepts the apertures as a Quantity without complaint,
but throws the unit away (np.array(apertures, dtype=float)) and reads the bare
numbers as AU.  SED.interpolate, given the very same Quantity, converts it.
 * apertures given in the TABLE'S OWN unit (cm): silently wrong fluxes
   (1.5e16 "AU" is beyond the table, so the largest-aperture SED comes back);
 * apertures given in pc: "Aperture(s) requested too small" although the radii
   are tabulated ones.
"""
import numpy as np
from astropy import units as u
from sedfitter.sed import SED

s = SED()
s.name = 'x'
s.distance = 1 * u.kpc
s.wav = [1., 10., 100.] * u.micron
s.apertures = ([100., 1000., 10000.] * u.au).to(u.cm)      # table in cm
s.flux = np.array([[1., 2., 3.], [10., 20., 30.], [100., 200., 300.]]) * u.mJy
s.error = s.flux * 0.1

filt_wav = np.array([1., 100.])                  # two filters, both tabulated
request = s.apertures[[1, 1]]                    # the 2nd tabulated radius, in cm (the table's unit)

expected = np.array([10., 20., 30.])             # the row of the 2nd aperture

# reference 1: the same request as bare AU numbers
bare = np.asarray(s.interpolate_variable(filt_wav, request.to(u.au).value))
assert np.allclose(bare, expected, rtol=1e-12), bare

# reference 2: the constant-aperture method with the same Quantity
const = np.asarray(s.interpolate(request))[:, 0]
assert np.allclose(const, expected, rtol=1e-12), const

msgs = []

got = np.asarray(s.interpolate_variable(filt_wav, request))
if not np.allclose(got[[0, 2]], expected[[0, 2]], rtol=1e-9):
    msgs.append("apertures %s (a tabulated radius, in the table's own unit): interpolate_variable "
                "returned %s at the filter wavelengths, the tabulated values are %s "
                "(the Quantity's unit was dropped and 1.5e16 read as AU -> clamped to the largest aperture)"
                % (request, got[[0, 2]], expected[[0, 2]]))

try:
    got_pc = np.asarray(s.interpolate_variable(filt_wav, request.to(u.pc)))
    if not np.allclose(got_pc[[0, 2]], expected[[0, 2]], rtol=1e-9):
        msgs.append("apertures in pc: got %s, expected %s" % (got_pc[[0, 2]], expected[[0, 2]]))
except Exception as e:
    msgs.append("apertures %s (the same tabulated radius in pc) refused with %r although the radius is on the table"
                % (request.to(u.pc), e))

assert not msgs, "C13 (wavelength-dependent variant, request given as a Quantity): " + " | ".join(msgs)
print("no violation")
