(* C05 — selection tuples keep exactly the fits the syntax page promises.
   Only statements here; proofs live in Keep.v / Xnum.v.  Model: Keep.nkeep / Keep.keep
   (FitInfo.keep: a count, then every column sliced [:count]). *)
From Coq Require Import QArith List Lia.
Import ListNotations.
From SedV Require Import Xnum Keep.

(* ('A',) keeps everything *)
Theorem C05_A : forall (A : Type) (chi : A -> xnum) nd rows, keep SelA nd chi rows = rows.
Proof. exact @C05_A_rows. Qed.

(* ('N', n) keeps the min(n, total) best *)
Theorem C05_N : forall (A : Type) (chi : A -> xnum) nd n rows,
  keep (SelN n) nd chi rows = firstn n rows /\ length (keep (SelN n) nd chi rows) = Nat.min n (length rows).
Proof. exact @C05_N_rows. Qed.

(* C, D, E, F keep exactly the fits that meet the criterion; everything dropped fails it *)
Theorem C05_CDEF : forall (A : Type) (chi : A -> xnum) s nd r0 rows,
  ranked (map chi (r0 :: rows)) ->
  match s with SelA | SelN _ => True | _ =>
    keep s nd chi (r0 :: rows) = filter (fun r => crit s nd (chi r0) (chi r)) (r0 :: rows) /\
    forall r, In r (skipn (nkeep s nd (map chi (r0 :: rows))) (r0 :: rows)) -> crit s nd (chi r0) (chi r) = false
  end.
Proof. exact @C05_CDEF_rows. Qed.

(* the kept fits are a prefix; slicing each column with the count = slicing the rows *)
Theorem C05_prefix : forall (A : Type) (chi : A -> xnum) s nd rows,
  keep s nd chi rows = firstn (nkeep s nd (map chi rows)) rows.
Proof. reflexivity. Qed.

Theorem C05_columns : forall (A B : Type) n (col1 : list A) (col2 : list B),
  combine (firstn n col1) (firstn n col2) = firstn n (combine col1 col2).
Proof. exact @C05_columns_alike. Qed.

(* selecting with a looser selector first, or twice, changes nothing *)
Theorem C05_looser_first : forall (A : Type) (chi : A -> xnum) s1 s2 nd rows,
  ranked (map chi rows) -> eff s2 nd (map chi rows) <= eff s1 nd (map chi rows) ->
  keep s2 nd chi (keep s1 nd chi rows) = keep s2 nd chi rows.
Proof. exact @C05_looser_first_rows. Qed.

Theorem C05_idempotent : forall (A : Type) (chi : A -> xnum) s nd rows,
  ranked (map chi rows) -> keep s nd chi (keep s nd chi rows) = keep s nd chi rows.
Proof. exact @C05_idempotent_rows. Qed.

(* non-vacuity: a ranked vector with a tie, +inf and NaN; ('D', 1.2) keeps three *)
Example C05_example :
  ranked [Fin 0; Fin 1; Fin 1; Fin (5#2); PInf; NaN] /\
  nkeep (SelD (6#5)) 2 [Fin 0; Fin 1; Fin 1; Fin (5#2); PInf; NaN] = 3%nat.
Proof. split; [|reflexivity]. split; [|repeat constructor].
  simpl. repeat split; repeat constructor; simpl; auto; try (unfold Qle; simpl; lia). Qed.

(* ---- sources without any fitted point (n_data = 0, limits only; Fitter.fit produces them): chi2 / 0 is modelled as numpy
   evaluates it (Keep0.xdiv0: +inf, nan or -inf), not as Coq's total division.  The per-point selectors then keep nothing,
   the others do not depend on n_data. *)
From SedV Require Import Keep0.
Theorem C05_nd0_E : forall v chi, Forall xnonneg chi -> nkeepN (SelE v) 0 chi = 0%nat.
Proof. exact nd0_E. Qed.
Theorem C05_nd0_F : forall v chi, ranked chi -> nkeepN (SelF v) 0 chi = 0%nat.
Proof. exact nd0_F. Qed.
Theorem C05_nd_irrelevant : forall s p chi, match s with SelE _ | SelF _ => True | _ => nkeepN s 0 chi = nkeep s p chi end.
Proof. exact nd0_others. Qed.
Theorem C05_nd_pos : forall s p chi, nkeepN s (Npos p) chi = nkeep s p chi.
Proof. exact ndpos. Qed.
Example C05_nd0_example : nkeepN (SelE 2) 0 [Fin 0; Fin (3#10); PInf; NaN] = 0%nat /\ nkeepN (SelC 2) 0 [Fin 0; Fin (3#10); PInf; NaN] = 2%nat
  /\ Forall xnonneg [Fin 0; Fin (3#10); PInf; NaN] /\ ranked [Fin 0; Fin (3#10); PInf; NaN].
Proof. vm_compute. repeat split; try reflexivity; try discriminate; repeat constructor; try discriminate. Qed.
