(* C12 — SED, cube and convolved-flux files read back exactly what was stored.
   Model (per (model, aperture) row, wavelengths as order-preserving integer keys): SedIO.write_fixed (SED.write: the table
   sorted by frequency AND the flux/error columns re-ordered alike), SedIOM.need_reverse / SedIO.read (the reversal branch of
   SED.read and BaseCube.read on the spectral axis), SedIOM.get_sed_m.  FITS is a lossless store of these arrays
   (exercised by the correspondence runs, not modelled). *)
From Coq Require Import List ZArith Permutation Sorted.
Import ListNotations.
From SedV Require Import Argsort SortRows SedIO SedIOM ReadFlip.

(* every (wavelength, value) cell comes back, for either supplied order and either requested order *)
Theorem C12_sed_cells : forall (V : Type) (dV : V) want_wav wav flux, length wav = length flux ->
  Permutation (cells V (sed_roundtrip V dV want_wav wav flux)) (combine wav flux).
Proof. exact sed_cells. Qed.

Theorem C12_cube_cells : forall (V : Type) want_wav wav row, length wav = length row ->
  Permutation (cells V (cube_roundtrip V want_wav wav row)) (combine wav row).
Proof. exact cube_cells. Qed.

(* requesting the other order only reverses the spectral axis, of wavelengths and values together *)
Theorem C12_order : forall (V : Type) (f : list Z * list V), read V true f = (rev (fst f), rev (snd f)) /\ read V false f = f.
Proof. exact other_order_reverses. Qed.

(* asking for the other spectral order twice gives back the arrays as stored *)
Theorem C12_order_twice : forall (V : Type) (f : list Z * list V), read V true (read V true f) = f.
Proof. exact read_flip_twice. Qed.

(* the other order keeps the pairing: the (wavelength, value) cells are the same cells, listed backwards *)
Theorem C12_order_cells : forall (V : Type) (f : list Z * list V), length (fst f) = length (snd f) ->
  combine (fst (read V true f)) (snd (read V true f)) = rev (combine (fst f) (snd f)).
Proof. exact read_flip_cells. Qed.

(* the file is stored by increasing frequency *)
Theorem C12_sed_file_order : forall (V : Type) (dV : V) wav flux,
  StronglySorted (fun a b => Z.leb a b = true) (map Z.opp (fst (write_fixed V dV wav flux))).
Proof. exact sed_file_order. Qed.

(* extracting one model from a cube gives the slice that was put in under that name *)
Theorem C12_get_sed : forall (S : Type) (names : list Z) (slices : list S) i d, NoDup names -> length names = length slices ->
  i < length names -> get_sed_m names slices (nth i names 0%Z) = Some (nth i slices d).
Proof. exact @get_sed_spec. Qed.

(* leaving the fluxes in the caller's order while sorting the wavelength table (the unrepaired SED.write) is refuted *)
Theorem C12_unsorted_flux_refuted :
  cells Z (write_current Z [1; 2; 4]%Z [10; 20; 40]%Z) = [(4, 10); (2, 20); (1, 40)]%Z /\
  cells Z (write_fixed Z 0%Z [1; 2; 4]%Z [10; 20; 40]%Z) = [(4, 40); (2, 20); (1, 10)]%Z.
Proof. split; [exact C12_sed_write_refuted|exact C12_fixed_ok]. Qed.

Example C12_example : sed_roundtrip Z 0%Z true [1; 2; 4]%Z [10; 20; 40]%Z = ([1; 2; 4], [10; 20; 40])%Z
                      /\ sed_roundtrip Z 0%Z false [1; 2; 4]%Z [10; 20; 40]%Z = ([4; 2; 1], [40; 20; 10])%Z.
Proof. split; reflexivity. Qed.
