"""
C03, clause "A flag-4 point carrying the log10 flux and log10 error that a flag-1
point transforms to (log10 F - 0.5*(sigma/F)^2/ln10, |sigma/F|/ln10) yields identical
fits".

Source.get_log_fluxes() evaluates np.log10(self.flux[r]) (and sigma/F) in the dtype
of the arrays held by the Source.  When the photometry is held in single precision
(what one gets from an 'E' column of a FITS catalogue: s.flux = row['flux']), the
transform of the flag-1 points is therefore only computed to ~1e-7, although the
numbers themselves are exact.  The very same photometry

  (a) as flag-1 points in a float32 array,
  (b) as flag-1 points in a float64 array (numerically identical values: Source.__eq__ is True),
  (c) as flag-4 points carrying the transform of the statement, evaluated in double,

gives (b) == (c) exactly, but (a) differs from both by ~6e-7 (relative to max(1,|value|),
in A_V / scale / chi^2) -- five to six orders of magnitude above double-precision
rounding (the 1e-12 level).
"""
import os, io, tempfile, contextlib
import numpy as np
from astropy import units as u
from sedfitter.fit import Fitter
from sedfitter.source import Source
from sedfitter.extinction import Extinction
from sedfitter.convolved_fluxes import ConvolvedFluxes

rng = np.random.default_rng(3)
nm = 10
names = np.array(['model_%02d' % i for i in range(nm)])
wavs = [1.2, 2.2, 3.6, 8.0]
filt = ['fa', 'fb', 'fc', 'fd']
mflux = 10 ** rng.uniform(0, 2, (nm, 4))

d = tempfile.mkdtemp()
os.mkdir(os.path.join(d, 'convolved'))
with open(os.path.join(d, 'models.conf'), 'w') as f:
    f.write("name = test\nlength_subdir = 0\naperture_dependent = no\nlogd_step = 0.02\n")
for i, fn in enumerate(filt):
    ConvolvedFluxes(wavelength=wavs[i] * u.micron, model_names=names,
                    flux=mflux[:, i].reshape(nm, 1) * u.mJy,
                    error=0.01 * mflux[:, i].reshape(nm, 1) * u.mJy
                    ).write(os.path.join(d, 'convolved', fn + '.fits'))

ext = Extinction()
ext.wav = np.logspace(-2., 3., 50) * u.micron
ext.chi = ext.wav.value ** -1.5 * u.cm ** 2 / u.g

with contextlib.redirect_stdout(io.StringIO()):
    F = Fitter(filt, [3., 3., 3., 3.] * u.arcsec, d, extinction_law=ext, av_range=[0., 20.])

# photometry: every number is exactly representable in single precision
flux32 = np.array([3., 11., 90., 37.], dtype=np.float32)
err32 = np.array([0.015625, 0.0625, 0.5, 0.25], dtype=np.float32)
flux64 = flux32.astype(np.float64)
err64 = err32.astype(np.float64)
assert np.all(flux64 == flux32) and np.all(err64 == err32)


def source(valid, flux, error):
    s = Source()
    s.name = 'src'
    s.x = 0.
    s.y = 0.
    s.valid = valid
    s.flux = flux
    s.error = error
    return s


s_a = source([1, 1, 1, 1], flux32, err32)
s_b = source([1, 1, 1, 1], flux64, err64)
s_c = source([4, 4, 4, 4],
             np.log10(flux64) - 0.5 * (err64 / flux64) ** 2 / np.log(10.),
             np.abs(err64 / flux64) / np.log(10.))
assert s_a == s_b          # the package itself regards (a) and (b) as the same source


def as_dict(info):
    return {n: np.array([a, s, c], dtype=float) for n, a, s, c in
            zip(info.model_name, info.av, info.sc, info.chi2)}


ra, rb, rc = as_dict(F.fit(s_a)), as_dict(F.fit(s_b)), as_dict(F.fit(s_c))


def worst(x, y):
    return max(np.max(np.abs(x[k] - y[k]) / np.maximum(1., np.abs(x[k]))) for k in x)


print("flag 1 (float64) vs flag 4 (float64):", worst(rb, rc))
print("flag 1 (float32) vs flag 4 (float64):", worst(ra, rc))
print("flag 1 (float32) vs flag 1 (float64):", worst(ra, rb))
assert worst(rb, rc) < 1e-11
assert worst(ra, rc) < 1e-9, \
    ("C03 (flag 4 == transformed flag 1): flag-1 photometry held in a float32 array "
     "(values exactly representable) and the flag-4 source carrying log10 F - 0.5 (sigma/F)^2/ln10, "
     "|sigma/F|/ln10 give fits that differ by %.2e (relative, in av/sc/chi2); the same flag-1 "
     "photometry in a float64 array agrees with the flag-4 source to %.1e. "
     "Source.get_log_fluxes takes log10 in single precision."
     % (worst(ra, rc), worst(rb, rc)))
