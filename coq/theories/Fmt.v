(* Fmt — decimal formatting of the kind "%.{p}e" and "%.{p}f" (Source.to_ascii, write_parameters, write_parameter_ranges,
   extract_parameters): correctly rounded, ties to even, on the exact value of the number printed.
   The decimal exponent is proposed by an oracle (floor(log10|x|) in floating point) and VALIDATED here, so every theorem
   holds whatever the oracle answers. *)
From Coq Require Import QArith Qabs Qpower ZArith Lia List.
Import ListNotations.
Open Scope Q_scope.

Definition pow10 (e : Z) : Q := (inject_Z 10) ^ e.

(* round to nearest integer, ties to even *)
Definition rhe (x : Q) : Z :=
  let y := Qred x in
  let n := Qnum y in let d := Zpos (Qden y) in
  let q := (n / d)%Z in let r2 := (2 * (n mod d))%Z in
  if (r2 <? d)%Z then q else if (d <? r2)%Z then (q + 1)%Z else if Z.even q then q else (q + 1)%Z.

(* "%.{p}e": mantissa (an integer of p+1 digits) and decimal exponent of |x|; None when the proposed exponent is wrong or x = 0 *)
Definition fmt_e (p : nat) (e : Z) (x : Q) : option (Z * Z) :=
  let a := Qabs x in
  if Qle_bool (pow10 e) a && negb (Qle_bool (pow10 (e + 1)) a) then
    let m := rhe (a / pow10 (e - Z.of_nat p)) in
    if (m =? 10 ^ (Z.of_nat p + 1))%Z then Some ((10 ^ Z.of_nat p)%Z, (e + 1)%Z) else Some (m, e)
  else None.

(* value denoted by a printed mantissa / exponent pair *)
Definition val_e (p : nat) (me : Z * Z) : Q := inject_Z (fst me) * pow10 (snd me - Z.of_nat p).

(* "%.{p}f": the integer |x| * 10^p rounded *)
Definition fmt_f (p : nat) (x : Q) : Z := rhe (Qabs x * pow10 (Z.of_nat p)).
Definition val_f (p : nat) (m : Z) : Q := inject_Z m / pow10 (Z.of_nat p).
