(* Line-protocol driver around the extracted model (Sedmodel).
   Request :  <op> <value>          one per line
   Response:  <value>               one per line  (or "!<message>" when the driver itself fails)
   Values  :  i<int>  q<num>/<den>  xinf xninf xnan  s<text>  [ v v ... ]
   The driver only parses, converts and prints; every computation is done by extracted code. *)

module BZ = Z
module BQ = Q
module M = Sedmodel

type v = I of BZ.t | R of BQ.t | X of string | S of string | L of v list

exception Bad of string

let tokenize (s : string) : string list =
  List.filter (fun t -> t <> "") (String.split_on_char ' ' s)

let rec parse (ts : string list) : v * string list =
  match ts with
  | [] -> raise (Bad "eof")
  | "[" :: rest ->
      let rec items acc ts =
        match ts with
        | "]" :: rest -> (L (List.rev acc), rest)
        | _ -> let (x, rest) = parse ts in items (x :: acc) rest
      in
      items [] rest
  | t :: rest ->
      let body = String.sub t 1 (String.length t - 1) in
      (match t.[0] with
       | 'i' -> (I (BZ.of_string body), rest)
       | 'q' -> (R (BQ.of_string body), rest)
       | 'x' -> (X body, rest)
       | 's' -> (S body, rest)
       | _ -> raise (Bad ("token " ^ t)))

let rec print (b : Buffer.t) (x : v) : unit =
  match x with
  | I z -> Buffer.add_char b 'i'; Buffer.add_string b (BZ.to_string z)
  | R q -> Buffer.add_char b 'q'; Buffer.add_string b (BZ.to_string (BQ.num q));
           Buffer.add_char b '/'; Buffer.add_string b (BZ.to_string (BQ.den q))
  | X s -> Buffer.add_char b 'x'; Buffer.add_string b s
  | S s -> Buffer.add_char b 's'; Buffer.add_string b s
  | L l -> Buffer.add_string b "[";
           List.iter (fun y -> Buffer.add_char b ' '; print b y) l;
           Buffer.add_string b " ]"

(* ---- conversions between protocol values and extracted types ---- *)
let to_q (x : v) : M.q =
  match x with
  | R q -> { M.qnum = BQ.num q; M.qden = BQ.den q }
  | I z -> { M.qnum = z; M.qden = BZ.one }
  | _ -> raise (Bad "q expected")
let of_q (q : M.q) : v = R (BQ.make q.M.qnum q.M.qden)     (* Q.make normalises *)
let to_z (x : v) : BZ.t = match x with I z -> z | _ -> raise (Bad "int expected")
let of_z (z : BZ.t) : v = I z
let rec nat_of_int (n : int) : M.nat = if n <= 0 then M.O else M.S (nat_of_int (n - 1))
let rec int_of_nat (n : M.nat) : int = match n with M.O -> 0 | M.S m -> 1 + int_of_nat m
let to_nat (x : v) : M.nat = nat_of_int (BZ.to_int (to_z x))
let of_nat (n : M.nat) : v = I (BZ.of_int (int_of_nat n))
let to_pos (x : v) : BZ.t = let z = to_z x in if BZ.sign z <= 0 then raise (Bad "positive expected") else z
let to_list (f : v -> 'a) (x : v) : 'a list = match x with L l -> List.map f l | _ -> raise (Bad "list expected")
let of_list (f : 'a -> v) (l : 'a list) : v = L (List.map f l)
let to_bool (x : v) : bool = BZ.sign (to_z x) <> 0
let of_bool (b : bool) : v = I (if b then BZ.one else BZ.zero)
let to_xnum (x : v) : M.xnum =
  match x with
  | X "inf" -> M.PInf | X "ninf" -> M.NInf | X "nan" -> M.NaN
  | _ -> M.Fin (to_q x)
let of_xnum (x : M.xnum) : v =
  match x with M.PInf -> X "inf" | M.NInf -> X "ninf" | M.NaN -> X "nan" | M.Fin q -> of_q q
let to_opt (f : v -> 'a) (x : v) : 'a option =
  match x with L [] -> None | L [y] -> Some (f y) | _ -> raise (Bad "option expected")
let of_opt (f : 'a -> v) (o : 'a option) : v = match o with None -> L [] | Some y -> L [f y]
let to_pair f g (x : v) = match x with L [a; b] -> (f a, g b) | _ -> raise (Bad "pair expected")
let of_pair f g (a, b) = L [f a; g b]
let args (x : v) : v list = match x with L l -> l | _ -> raise (Bad "argument list expected")

