import sys, itertools
sys.path.insert(0, '/tmp/hunt3_C03/hunt_out')
from _common import *
from sedfitter.fit import Fitter
rng = np.random.default_rng(3)
nm, nf = 8, 4
names = ['m_%d' % (i * 7 % 11) for i in range(nm)]  # unsorted, prefix-like
wavs = [0.5, 1.2, 3.6, 8.0]
fn = ['f%d' % i for i in range(nf)]
aps = np.logspace(1, 6, 8) * u.au
fl_ind = 10 ** rng.uniform(-1, 2, (nm, 1, nf))
fl_dep = np.cumsum(10 ** rng.uniform(-1, 1, (nm, 8, nf)), axis=1)
ext = extinction()
def cmp(a, b, tol=1e-9):
    da, db = result_dict(a), result_dict(b)
    assert set(da) == set(db), (set(da), set(db))
    w = 0
    for k in da:
        for x, y in zip(da[k], db[k]):
            if x == y: continue
            w = max(w, abs(x - y) / max(1, abs(x)))
    return w
for dep in (False, True):
    fl = fl_dep if dep else fl_ind
    kw = dict(extinction_law=ext, av_range=[0., 5.])
    if dep: kw['distance_range'] = [0.5, 3.] * u.kpc
    base = write_v1(names, fl, wavs, fn, apertures=aps if dep else None)
    apx = np.array([2., 3., 5., 7.])
    F0 = quiet(Fitter, fn, apx * u.arcsec, base, **kw)
    for trial in range(10):
        orders = [rng.permutation(nm) for _ in range(nf)]
        d = write_v1(names, fl, wavs, fn, apertures=aps if dep else None, orders=orders)
        p = rng.permutation(nf)
        F = quiet(Fitter, [fn[i] for i in p], apx[p] * u.arcsec, d, remove_resolved=bool(trial % 2) and dep, **kw)
        F0b = quiet(Fitter, fn, apx * u.arcsec, base, remove_resolved=bool(trial % 2) and dep, **kw)
        for t in range(10):
            full = rng.choice([0, 1, 1, 1, 2, 3, 4, 9], size=nf)
            if np.sum((full == 1) | (full == 4)) < 2: continue
            flux = 10 ** rng.uniform(-1, 2, nf); err = flux * rng.uniform(0.02, 0.3, nf)
            lim = (full == 2) | (full == 3)
            err[lim] = rng.choice([0., 1., 0.5], size=lim.sum())
            f4 = full == 4
            lf = np.log10(flux) - 0.5 * (err / flux) ** 2 / np.log(10); le = np.abs(err / flux) / np.log(10)
            flux[f4] = lf[f4]; err[f4] = le[f4]
            s0 = mksource(full, flux, err); s1 = mksource(full[p], flux[p], err[p])
            w = cmp(F0b.fit(s0), F.fit(s1))
            if w > 1e-9: print("DIFF", dep, trial, full, w)
print("done")
