From Coq Require Import List Arith Lia Permutation Sorted Bool ZArith.
Import ListNotations.
From SedV Require Import Argsort.

(* FitInfo.sort: one argsort, applied to every column separately *)
Section SortCols.
Variables A B : Type. Variables (dA : A) (dB : B).
Variable leb : A -> A -> bool.       (* order on chi2 values, numpy style (NaN last) *)

Lemma gather_combine (la : list A) (lb : list B) idx : length la = length lb ->
  (forall i, In i idx -> i < length la) ->
  combine (gather A dA la idx) (gather B dB lb idx) = gather (A * B) (dA, dB) (combine la lb) idx.
Proof.
  intros Hl Hi. unfold gather. induction idx as [|i r IH]; simpl; [reflexivity|].
  rewrite IH by (intros j Hj; apply Hi; now right). f_equal.
  symmetry. apply combine_nth. exact Hl.
Qed.

(* code-shaped: chi2 and a second column (av, sc, names, fluxes ... all alike) re-ordered by the same index *)
Definition sort_cols (chi : list A) (col : list B) : list A * list B * list nat :=
  let order := argsort A leb dA chi in
  (gather A dA chi order, gather B dB col order, order).

Theorem C04_aligned chi col : length chi = length col ->
  let '(chi', col', order) := sort_cols chi col in
  combine chi' col' = gather (A * B) (dA, dB) (combine chi col) order /\
  Permutation (combine chi' col') (combine chi col) /\
  Permutation order (seq 0 (length chi)).
Proof.
  intros Hl. unfold sort_cols.
  assert (Hi : forall i, In i (argsort A leb dA chi) -> i < length chi).
  { intros i Hi. eapply Permutation_in in Hi; [|apply argsort_perm]. apply in_seq in Hi. lia. }
  rewrite (gather_combine chi col _ Hl Hi). split; [reflexivity|]. split; [|apply argsort_perm].
  apply gather_perm. rewrite combine_length, <- Hl, Nat.min_id. apply argsort_perm.
Qed.
End SortCols.
Print Assumptions C04_aligned.
