(* integrate_subset (repaired literal index) computes the exact integral of the piecewise-linear function. *)
From Coq Require Import QArith Lqa Lia List Bool.
Import ListNotations.
Open Scope Q_scope.
From SedV Require Import PLin Xnum Slice Interp Isub.

Lemma Qle_bool_proper a a' b b' : a == a' -> b == b' -> Qle_bool a b = Qle_bool a' b'.
Proof. intros Ea Eb. destruct (Qle_bool a b) eqn:E1, (Qle_bool a' b') eqn:E2; try reflexivity.
  - apply Qle_bool_iff in E1. apply nle_bool in E2. lra.
  - apply Qle_bool_iff in E2. apply nle_bool in E1. lra. Qed.

Lemma lin_proper p0 p1 t t' : t == t' -> lin p0 p1 t == lin p0 p1 t'.
Proof. intros E. unfold lin. now rewrite E. Qed.

Lemma fval_proper l : forall t t', t == t' -> fval l t == fval l t'.
Proof.
  induction l as [|p0 r IH]; intros t t' E; [reflexivity|].
  destruct r as [|p1 r']; [reflexivity|]. cbn [fval].
  rewrite (Qle_bool_proper t t' (fst p1) (fst p1) E (Qeq_refl _)).
  destruct (Qle_bool t' (fst p1)); [now apply lin_proper|now apply IH].
Qed.

(* the two-point interpolation at index searchsorted(t) is the piecewise-linear function *)
Lemma ss_ge1 p r t : fst p < t -> (1 <= ss (p :: r) t)%nat.
Proof. intros H. rewrite ss_cons. unfold ltv. assert (E : Qle_bool t (fst p) = false) by (apply nle_bool; exact H). rewrite E. simpl. lia. Qed.

Lemma two_point_fval l : incr l -> forall t, x0 l < t -> t <= xn l -> two_point l (ss l t) t == fval l t.
Proof.
  induction l as [|p0 r IH]; intros Hi t H0 Hn; [unfold x0, xn in *; simpl in *; lra|].
  destruct r as [|p1 r']; [unfold x0, xn in *; simpl in *; lra|].
  destruct Hi as [H01 Hi]. unfold x0 in H0. simpl in H0.
  rewrite ss_cons. unfold ltv at 1. assert (E0 : Qle_bool t (fst p0) = false) by (apply nle_bool; exact H0). rewrite E0. cbn [negb].
  cbn [fval]. destruct (Qle_bool t (fst p1)) eqn:E1.
  - apply Qle_bool_iff in E1.
    assert (Z : ss (p1 :: r') t = 0%nat).
    { apply ss_zero. constructor; [exact E1|]. eapply Forall_impl; [|apply incr_forall; exact Hi]. simpl. intros; lra. }
    rewrite Z. reflexivity.
  - apply nle_bool in E1.
    assert (Hn' : t <= xn (p1 :: r')) by exact Hn.
    specialize (IH Hi t E1 Hn').
    pose proof (ss_ge1 p1 r' t E1) as G1.
    rewrite <- IH. unfold two_point.
    unfold pt in *. remember (ss (p1 :: r') t) as k eqn:Ek.
    destruct k as [|k]; [inversion G1|].
    cbn [Nat.add Nat.sub nth]. rewrite Nat.sub_0_r. reflexivity.
Qed.

(* trapz is compatible with == on the ordinate of the last point *)
Lemma trapz_last l : forall b y y', y == y' -> trapz (l ++ [(b, y)]) == trapz (l ++ [(b, y')]).
Proof.
  induction l as [|p r IH]; intros b y y' E; [reflexivity|].
  destruct r as [|q r'].
  - cbn [app trapz]. unfold area; simpl. now rewrite E.
  - cbn [app]. change ((q :: r') ++ [(b, y)]) with (q :: (r' ++ [(b, y)])).
    change ((q :: r') ++ [(b, y')]) with (q :: (r' ++ [(b, y')])).
    rewrite !trapz_cons2. apply Qplus_inj_l. exact (IH b y y' E).
Qed.

(* searchsorted of the last abscissa is n - 1; of the first is 0 *)
Lemma ss_first l : incr l -> forall a, a == x0 l -> ss l a = 0%nat.
Proof.
  intros Hi a E. destruct l as [|p r]; [reflexivity|]. unfold x0 in E. simpl in E.
  apply ss_zero. constructor; [lra|]. eapply Forall_impl; [|apply incr_forall; exact Hi]. simpl; intros; lra.
Qed.

Lemma last_in {A} (l : list A) d : l <> [] -> In (last l d) l.
Proof. induction l as [|a r IH]; intros H; [congruence|]. destruct r as [|b r']; [now left|]. right. apply IH. discriminate. Qed.

Lemma ss_last l : incr l -> forall b, b == xn l -> (1 <= length l)%nat -> ss l b = (length l - 1)%nat.
Proof.
  induction l as [|p r IH]; intros Hi b E L; [simpl in L; lia|].
  destruct r as [|q r'].
  - unfold xn in E. simpl in E. rewrite ss_cons. unfold ltv. assert (X : Qle_bool b (fst p) = true) by (apply Qle_bool_iff; lra). now rewrite X.
  - destruct Hi as [Hpq Hi]. rewrite ss_cons.
    assert (E' : b == xn (q :: r')) by exact E.
    assert (Hl : fst p < b).
    { rewrite E'. pose proof (incr_forall p (q :: r') (conj Hpq Hi)) as F. rewrite Forall_forall in F. apply F.
      unfold xn. apply last_in. discriminate. }
    unfold ltv at 1. assert (X : Qle_bool b (fst p) = false) by (apply nle_bool; exact Hl). rewrite X. cbn [negb].
    rewrite (IH Hi b E') by (simpl; lia). simpl length. lia.
Qed.

Lemma yat_last l : (1 <= length l)%nat -> yat l (length l - 1) = snd (last l (0, 0)).
Proof.
  induction l as [|p r IH]; intros L; [simpl in L; lia|]. destruct r as [|q r']; [reflexivity|].
  unfold yat in *. simpl length. replace (Datatypes.S (Datatypes.S (length r')) - 1)%nat with (Datatypes.S (length r')) by lia.
  change (nth (Datatypes.S (length r')) (p :: q :: r') (0, 0)) with (nth (length r') (q :: r') (0, 0)).
  change (last (p :: q :: r') (0, 0)) with (last (q :: r') (0, 0)).
  specialize (IH ltac:(simpl; lia)). simpl length in IH. replace (Datatypes.S (length r') - 1)%nat with (length r') in IH by lia. exact IH.
Qed.

(* value and index used at the upper limit *)
Lemma upper_end l a b : incr l -> (2 <= length l)%nat -> x0 l <= a -> a < b -> b <= xn l ->
  let '(i2, yb) := if Qeq_bool b (xn l) then ((length l - 1)%nat, yat l (length l - 1)) else (ss l b, two_point l (ss l b) b) in
  i2 = ss l b /\ yb == fval l b.
Proof.
  intros Hi L H0 Hab Hb. destruct (Qeq_bool b (xn l)) eqn:E.
  - apply Qeq_bool_iff in E. split; [symmetry; apply ss_last; [exact Hi|exact E|lia]|].
    rewrite yat_last by lia. rewrite (fval_proper l b (xn l) E). unfold xn. symmetry.
    apply (fval_knot l Hi (last l (0, 0))). apply last_in. destruct l; [simpl in L; lia|discriminate].
  - split; [reflexivity|]. apply two_point_fval; [exact Hi|lra|exact Hb].
Qed.

Theorem isub_fixed_exact l a b : incr l -> (2 <= length l)%nat -> x0 l <= a -> a < b -> b <= xn l ->
  isub_fixed l a b == G l b - G l a.
Proof.
  intros Hi L H0 Hab Hb.
  rewrite <- (isub_exact l Hi a b 0 L) by (try exact H0; try lra; try exact Hb).
  unfold isub_fixed, isub_m.
  pose proof (upper_end l a b Hi L H0 Hab Hb) as U.
  destruct (if Qeq_bool b (xn l) then ((length l - 1)%nat, yat l (length l - 1)) else (ss l b, two_point l (ss l b) b)) as [i2 yb].
  destruct U as [-> Eyb].
  unfold cut.
  destruct (Qeq_bool a (x0 l)) eqn:Ea.
  - (* lower limit on the first node: i1 = 1, the zero-width duplicate is dropped *)
    apply Qeq_bool_iff in Ea.
    destruct l as [|[x y] r]; [simpl in L; lia|]. unfold x0 in Ea, H0. simpl in Ea, H0. unfold pt in *.
    assert (S0 : ss ((x, y) :: r) a = 0%nat) by (apply ss_first; [exact Hi|exact Ea]).
    assert (Sb : (1 <= ss ((x, y) :: r) b)%nat) by (apply ss_ge1; simpl; lra).
    rewrite <- (slice_is_mid _ a b Hi) by lra. rewrite S0.
    assert (E1 : slice ((x, y) :: r) 0 (ss ((x, y) :: r) b) = (x, y) :: slice ((x, y) :: r) 1 (ss ((x, y) :: r) b)).
    { unfold slice. remember (ss ((x, y) :: r) b) as k. destruct k as [|k]; [lia|].
      simpl. now rewrite Nat.sub_0_r. }
    unfold pt in *. rewrite E1. cbn [app]. rewrite (trapz_cons2 (a, fval ((x, y) :: r) a) (x, y)).
    rewrite (area_zero (a, fval ((x, y) :: r) a) (x, y)) by exact Ea.
    unfold yat. cbn [nth snd].
    rewrite (trapz_hd a x y y _ Ea (Qeq_refl y)).
    rewrite (trapz_last ((x, y) :: slice ((x, y) :: r) 1 (ss ((x, y) :: r) b)) b yb (fval ((x, y) :: r) b) Eyb).
    rewrite Qplus_0_l. reflexivity.
  - (* general lower limit *)
    assert (Na : ~ a == x0 l) by (intros X; apply Qeq_bool_iff in X; congruence).
    assert (Ha : x0 l < a) by lra.
    rewrite (slice_is_mid l a b Hi) by lra.
    assert (Eya : two_point l (ss l a) a == fval l a) by (apply two_point_fval; [exact Hi|exact Ha|lra]).
    rewrite (trapz_hd a a _ _ _ (Qeq_refl a) Eya).
    change ((a, fval l a) :: mid l a b ++ [(b, yb)]) with (((a, fval l a) :: mid l a b) ++ [(b, yb)]).
    rewrite (trapz_last ((a, fval l a) :: mid l a b) b yb (fval l b) Eyb). reflexivity.
Qed.

(* the literal index of the current code (-2) is refuted in Isub.C06_isub_refuted *)
