(* C04 — results are ranked by chi^2 and every row describes one model.
   Model: FitModel.rank_m (np.argsort, NaN last) + SortRows.sort_cols (every column gathered by the one order).
   Proofs: Argsort, SortRows, RankProofs, FitModelProofs, Fit3Proofs. *)
From Coq Require Import QArith List ZArith Permutation Sorted.
Import ListNotations.
From SedV Require Import Xnum Argsort SortRows FilterOut Clamp FitCore Flags Fit3 FitModel FitModelProofs Fit3Proofs Keep RankProofs.

(* one order applied to chi2 and to any other column = re-ordering the zipped rows; the result is a permutation of the rows
   (every model exactly once) and model_id is a permutation of 0..n-1 *)
Theorem C04_aligned : forall (A B : Type) (dA : A) (dB : B) (leb : A -> A -> bool) chi col, length chi = length col ->
  let '(chi', col', order) := sort_cols A B dA dB leb chi col in
  combine chi' col' = gather (A * B) (dA, dB) (combine chi col) order /\
  Permutation (combine chi' col') (combine chi col) /\
  Permutation order (seq 0 (length chi)).
Proof. exact SortRows.C04_aligned. Qed.

(* the ranked chi^2 column is non-decreasing in numpy's order (NaN last), in the form C05 assumes *)
Theorem C04_sorted : forall chi, StronglySorted (fun a b => xleb a b = true) (gather xnum NaN chi (rank_m chi)).
Proof. exact rank_sorted. Qed.

Theorem C04_sorted_for_C05 : forall chi, sorted xnum xord (gather xnum NaN chi (rank_m chi)).
Proof. exact rank_sorted_xord. Qed.

Theorem C04_perm : forall chi, Permutation (rank_m chi) (seq 0 (length chi)).
Proof. exact rank_perm. Qed.

(* the same holds for any other sorting permutation (numpy's sort is not stable) *)
Theorem C04_any_ranking : forall (B : Type) (dB : B) (rows : list B) order,
  Permutation order (seq 0 (length rows)) -> Permutation (gather B dB rows order) rows.
Proof. exact @any_ranking_perm. Qed.

(* predictions stored with a row: log model flux + A_V k - 2 scale (aperture-independent) *)
Theorem C04_pred_2d : forall pen lo hi rows,
  f_pred (fit2_one pen lo hi rows) =
  map (fun x => f_av (fit2_one pen lo hi rows) * r_a x + f_sc (fit2_one pen lo hi rows) * r_s x + r_lm x)%Q rows.
Proof. intros. unfold fit2_one. destruct (fit2_avsc lo hi rows). reflexivity. Qed.

(* ... and log of the flux scaled to the reported distance + A_V k (aperture-dependent) *)
Theorem C04_pred_3d : forall pen lo hi logds per_dist, per_dist <> [] ->
  let r := fit3_one pen lo hi logds per_dist in
  g_pred r = map (fun x => g_av r * r_a x + r_lm x)%Q (nth (g_best r) per_dist []) /\ g_sc r = nth (g_best r) logds 0%Q.
Proof. intros pen lo hi logds per_dist H. pose proof (fit3_one_spec pen lo hi logds per_dist H) as S. cbv zeta in *. tauto. Qed.

Example C04_example : rank_m [Fin 3; NaN; Fin 1; PInf; Fin 1] = [4; 2; 0; 3; 1]%nat.
Proof. reflexivity. Qed.

(* --- sorting again (Resort, F39): FitInfo.sort() gathers model_id by the same order as every other column, so a result in which
   every row carries the columns of the model its index names stays that way under any sequence of sorts with any orders; the
   unrepaired step (model_id := order) breaks it on the second call *)
From SedV Require Import Resort.
Theorem C04_resort_aligned : forall (B : Type) (dB : B) (base : nat -> B) order ids cols,
  (forall i, In i order -> (i < length ids)%nat) -> aligned B base ids cols ->
  let '(ids', cols') := resort B dB order ids cols in aligned B base ids' cols'.
Proof. exact resort_keeps_aligned. Qed.
Theorem C04_resort_many : forall (B : Type) (dB : B) (base : nat -> B) orders ids cols, aligned B base ids cols ->
  Forall (fun order => Permutation order (seq 0 (length ids))) orders ->
  let '(ids', cols') := fold_left (fun st order => resort B dB order (fst st) (snd st)) orders (ids, cols) in
  aligned B base ids' cols' /\ Permutation ids' ids.
Proof. exact resort_many. Qed.
Theorem C04_unrepaired_sort_refuted :
  let base := fun i : nat => (i * 10)%nat in
  aligned nat base [2; 0; 1]%nat [20; 0; 10]%nat /\
  resort nat 0%nat [1; 2; 0]%nat [2; 0; 1]%nat [20; 0; 10]%nat = ([0; 1; 2], [0; 10; 20])%nat /\
  resort_old nat 0%nat [1; 2; 0]%nat [2; 0; 1]%nat [20; 0; 10]%nat = ([1; 2; 0], [0; 10; 20])%nat /\
  ~ aligned nat base [1; 2; 0]%nat [0; 10; 20]%nat.
Proof. exact resort_old_refuted. Qed.
