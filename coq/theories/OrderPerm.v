(* sort_to_match: the index list is a permutation of 0..n-1 (every row used exactly once). *)
From Coq Require Import ZArith List Arith Lia Permutation.
Import ListNotations.
From SedV Require Import Argsort Table.

(* the index list of sort_to_match uses every row exactly once: it is a permutation of 0 .. n-1 *)
Theorem order_to_match_perm a r : length a = length r ->
  Permutation (order_to_match a r) (seq 0 (length a)).
Proof.
  intros L. unfold order_to_match.
  assert (La : length (argsortK a) = length a) by (unfold argsortK; apply argsort_length).
  assert (Lr : length (argsortK r) = length r) by (unfold argsortK; apply argsort_length).
  transitivity (argsortK a).
  - apply gather_perm. unfold argsortn. rewrite La, L, <- Lr. apply argsort_perm.
  - unfold argsortK. apply argsort_perm.
Qed.

Theorem order_to_match_length a r : length (order_to_match a r) = length r.
Proof.
  unfold order_to_match, gather. rewrite map_length. unfold argsortn. rewrite argsort_length.
  unfold argsortK. apply argsort_length.
Qed.
