import sys; sys.path.insert(0, 'hunt_out')
from _common import *
from sedfitter.fit import Fitter
import copy
rng = np.random.RandomState(7)
worst = 0
for trial in range(60):
    d = tempfile.mkdtemp()
    nf = rng.randint(2, 7); nm = rng.randint(1, 9)
    wavs = np.sort(10 ** rng.uniform(-0.5, 2, nf))
    M = 10 ** rng.uniform(-6, 6, (nm, nf))
    names = ['mod_%d' % i for i in rng.permutation(nm)]
    fn = make_v1(d, names, wavs, M)
    law = make_law()
    lo = rng.choice([0., -5., 2., 1.5]); hi = lo + rng.choice([0., 1., 10., 100.])
    with quiet():
        fitter = Fitter(fn, [1.]*nf*u.arcsec, d, extinction_law=law, av_range=(lo, hi), distance_range=[1., 2.]*u.kpc)
    k = np.asarray(fitter.av_law)
    srcs = []
    for si in range(4):
        while True:
            valid = rng.choice([0, 1, 2, 3, 4, 9], nf)
            fitted = np.isin(valid, [1, 4])
            if fitted.sum() >= 2 and len(set(k[fitted])) > 1: break
        flux = 10 ** rng.uniform(-3, 3, nf)
        err = flux * 10 ** rng.uniform(-3, 0, nf)
        for i in range(nf):
            if valid[i] in (2, 3): err[i] = rng.uniform(0.01, 0.99)
            if valid[i] == 4: flux[i] = rng.uniform(0.1, 3); err[i] = rng.uniform(0.01, 0.5)
        srcs.append(make_source(valid, flux, err))
    first = {}
    for si in list(rng.randint(0, 4, 6)):
        s = srcs[si]
        before = copy.deepcopy(s.to_dict())
        info = fitter.fit(s)
        after = s.to_dict()
        for key in before:
            assert np.all(before[key] == after[key])
        res = {nm_: (float(a), float(sc), float(c)) for nm_, a, sc, c in zip(info.model_name, info.av, info.sc, info.chi2)}
        if si in first:
            assert res == first[si], 'history'
        first[si] = res
        for nm_, (a, sc, c) in res.items():
            i = names.index(nm_)
            ra, rs, rc = reference(s.valid, s.flux, s.error, np.log10(M[i]), k, lo, hi)
            dd = max(abs(a - ra) / max(1, abs(ra)), abs(sc - rs) / max(1, abs(rs)), abs(c - rc) / max(1, abs(rc)))
            if dd > 1e-7:
                print('DISCREPANCY', trial, si, nm_, (a, sc, c), (ra, rs, rc), s.valid, lo, hi)
            worst = max(worst, dd)
print('worst', worst)
