"""
C07 - "A per-file package and a cube package built from the same SEDs produce
the same fluxes and errors".

Configuration corner: the interpreter is started with -O (or PYTHONOPTIMIZE=1),
which is a legal way of running Python and changes nothing in the cube path.

_convolve_model_dir_1 (per-file packages) decides whether the filters have to
be re-binned with

    try:
        assert binned_nu is not None
        np.testing.assert_array_almost_equal_nulp(s.nu.value, binned_nu.value, 100)
    except (ValueError, AssertionError):
        ... rebin ...

i.e. an `assert` statement is used for control flow.  Under -O the assert is
compiled away, binned_nu is still None for the first SED, and the next line
raises  AttributeError: 'NoneType' object has no attribute 'value',  which is
not caught.  Every per-file package (any number of models / apertures) is
refused, while the cube package built from the same SEDs is convolved fine.

This script builds one per-file package and the equivalent cube package with
the public API and convolves both in a child interpreter started with -O.
"""
import os
import subprocess
import sys
import tempfile

CHILD = r'''
import os, sys
import numpy as np
from astropy import units as u
from astropy.table import Table
from sedfitter.sed import SED, SEDCube
from sedfitter.filter import Filter
from sedfitter.convolve import convolve_model_dir
from sedfitter.convolved_fluxes import ConvolvedFluxes

tmp = sys.argv[1]
d1 = os.path.join(tmp, 'perfile'); d2 = os.path.join(tmp, 'cube')
os.makedirs(os.path.join(d1, 'seds')); os.makedirs(d2)

names = ['m_b', 'm_a', 'm_c']
nu = np.linspace(1.e13, 3.e13, 12) * u.Hz
aps = np.array([100., 1000.]) * u.au
rng = np.random.RandomState(1)
val = (1. + rng.random_sample((3, 2, 12))) * u.mJy
unc = 0.1 * val

for k, n in enumerate(names):
    s = SED()
    s.name = n
    s.distance = 1. * u.kpc
    s.nu = nu
    s.wav = nu.to(u.micron, equivalencies=u.spectral())
    s.apertures = aps
    s.flux = val[k]
    s.error = unc[k]
    s.write(os.path.join(d1, 'seds', n + '_sed.fits'))

cube = SEDCube()
cube.names = np.array(names)
cube.distance = 1. * u.kpc
cube.nu = nu
cube.apertures = aps
cube.val = val
cube.unc = unc
cube.write(os.path.join(d2, 'flux.fits'))

for d, version in ((d1, 1), (d2, 2)):
    with open(os.path.join(d, 'models.conf'), 'w') as f:
        f.write("name = test\nlength_subdir = 0\naperture_dependent = yes\nlogd_step = 0.02\n")
        if version == 2:
            f.write("version = 2\n")
    t = Table()
    t['MODEL_NAME'] = np.array(names, dtype='S30')
    t['par1'] = [1., 2., 3.]
    t.write(os.path.join(d, 'parameters.fits'))

filt = Filter(name='F', central_wavelength=15. * u.micron,
              nu=np.linspace(1.5e13, 2.5e13, 7) * u.Hz,
              response=np.array([0., 1., 2., 3., 2., 1., 0.]))
filt.normalize()

status = {}
for label, d in (('cube', d2), ('perfile', d1)):
    try:
        convolve_model_dir(d, [filt])
        c = ConvolvedFluxes.read(os.path.join(d, 'convolved', 'F.fits'))
        status[label] = 'ok'
    except Exception as e:
        status[label] = 'CRASH %s: %s' % (type(e).__name__, e)
print("RESULT|%s|%s" % (status['cube'], status['perfile']))
'''


def run(flags):
    tmp = tempfile.mkdtemp()
    env = dict(os.environ)
    env.pop('PYTHONOPTIMIZE', None)
    env['PYTHONDONTWRITEBYTECODE'] = '1'
    p = subprocess.run([sys.executable] + flags + ['-c', CHILD, tmp],
                       stdout=subprocess.PIPE, stderr=subprocess.STDOUT,
                       universal_newlines=True, env=env)
    line = [l for l in p.stdout.splitlines() if l.startswith('RESULT|')]
    assert line, "child did not finish:\n" + p.stdout[-2000:]
    _, cube, perfile = line[-1].split('|', 2)
    return cube, perfile


cube, perfile = run([])
print("python     : cube ->", cube, "; per-file ->", perfile)
assert cube == 'ok' and perfile == 'ok', "set-up problem: the plain run should work"

cube_O, perfile_O = run(['-O'])
print("python -O  : cube ->", cube_O, "; per-file ->", perfile_O)

assert cube_O == 'ok', "unexpected: cube package fails under -O: " + cube_O
assert perfile_O == 'ok', (
    "C07 violated (clause: 'a per-file package and a cube package built from the same SEDs "
    "produce the same fluxes and errors'): with the interpreter started with -O the cube "
    "package is convolved, but convolve_model_dir refuses EVERY per-file package: "
    + perfile_O + "  (an `assert` is used for control flow in _convolve_model_dir_1)")
print("no violation")
