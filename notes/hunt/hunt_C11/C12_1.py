"""
C12, clause "optional parts (apertures, uncertainties) may be absent" /
"Writing ... a convolved-flux table and reading it back returns the same value".

A ConvolvedFluxes object whose (optional, default None) uncertainties are
absent cannot be written at all: ConvolvedFluxes.write() crashes with a
TypeError raised from inside astropy (object column) instead of producing a
file that reads back the stored fluxes.
"""
import os
import sys
import tempfile

import numpy as np
from astropy import units as u

from sedfitter.convolved_fluxes import ConvolvedFluxes

tmp = tempfile.mkdtemp()

# Control: the same table WITH uncertainties round-trips exactly
c = ConvolvedFluxes()
c.model_names = np.array(['model_a', 'model_b', 'model_c'])
c.central_wavelength = 3.6 * u.micron
c.apertures = [100., 1000.] * u.au
c.flux = np.array([[1., 2.], [3., 4.], [5., 6.]]) * u.mJy
c.error = c.flux * 0.1
c.write(os.path.join(tmp, 'with_err.fits'))
r = ConvolvedFluxes.read(os.path.join(tmp, 'with_err.fits'))
assert np.array_equal(r.flux.to(u.mJy).value, c.flux.value), "control round trip failed"

# Same table, uncertainties absent (error is an optional attribute, default None)
c2 = ConvolvedFluxes(wavelength=3.6 * u.micron,
                     model_names=np.array(['model_a', 'model_b', 'model_c']),
                     apertures=[100., 1000.] * u.au,
                     flux=np.array([[1., 2.], [3., 4.], [5., 6.]]) * u.mJy)
assert c2.error is None

try:
    c2.write(os.path.join(tmp, 'no_err.fits'))
    r2 = ConvolvedFluxes.read(os.path.join(tmp, 'no_err.fits'))
except Exception as exc:
    print("C12 VIOLATED: a convolved-flux table without uncertainties (3 models, "
          "2 apertures, mJy) cannot be written/read back: %s: %s"
          % (type(exc).__name__, exc))
    sys.exit(1)

assert np.array_equal(r2.flux.to(u.mJy).value, c2.flux.value), \
    "C12 VIOLATED: fluxes differ after round trip without uncertainties"
print("no violation")
