import sys; sys.path.insert(0, 'hunt_out/scratch')
from c11lib import *
import io, contextlib
e = ext()
def quiet(f, *a, **k):
    with contextlib.redirect_stdout(io.StringIO()):
        return f(*a, **k)
names = ['a','b','c']
fl = np.array([1.,2.,3.]).reshape(3,1,1)
d = make_v1(names, ['F0'], [2.2], fl)
F = quiet(Fitter, ['F0'], [3.]*u.arcsec, d, extinction_law=e, av_range=[0.,10.], distance_range=[1,2]*u.kpc)
for c in [1, 10., 100., 0.01]:
    i = F.fit(make_source([1],[5.*c],[0.5*c]))
    print(c, i.model_name, i.av, i.sc, i.chi2)
# two filters
fl = np.random.default_rng(0).uniform(1,2,(3,1,2))
d = make_v1(names, ['F0','F1'], [2.2, 8.], fl)
F = quiet(Fitter, ['F0','F1'], [3.,3]*u.arcsec, d, extinction_law=e, av_range=[0.,10.], distance_range=[1,2]*u.kpc)
for c in [1, 10., 100., 0.01]:
    i = F.fit(make_source([1,1],[5.*c,7*c],[0.5*c,0.3*c]))
    print(c, i.model_name, i.av, i.sc, i.chi2)
