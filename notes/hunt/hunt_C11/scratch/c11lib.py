import os, tempfile, itertools
import numpy as np
from astropy import units as u
from sedfitter.convolved_fluxes import ConvolvedFluxes
from sedfitter.sed import SEDCube
from sedfitter.extinction import Extinction
from sedfitter.fit import Fitter
from sedfitter.source import Source

def ext():
    e = Extinction()
    e.wav = np.logspace(-2., 3., 60) * u.micron
    e.chi = e.wav.value ** -1.5 * u.cm ** 2 / u.g
    return e

def make_v1(names, filt_names, filt_wavs, fluxes, apertures=None, unit=u.mJy, perm=None):
    """fluxes: (n_models, n_ap, n_filt)"""
    d = tempfile.mkdtemp()
    os.mkdir(os.path.join(d, 'convolved'))
    names = np.array(names)
    if perm is not None:
        names = names[perm]; fluxes = fluxes[perm]
    for j, fn in enumerate(filt_names):
        c = ConvolvedFluxes()
        c.model_names = names
        c.central_wavelength = filt_wavs[j] * u.micron
        if apertures is not None:
            c.apertures = apertures
        c.flux = (fluxes[:, :, j] * u.mJy).to(unit)
        c.error = c.flux * 0.01
        c.write(os.path.join(d, 'convolved', fn + '.fits'))
    with open(os.path.join(d, 'models.conf'), 'w') as f:
        f.write("name = test\nlength_subdir = 0\naperture_dependent = %s\nlogd_step = 0.02\n" % ('yes' if apertures is not None else 'no'))
    return d

def make_source(valid, flux, error, name='s'):
    s = Source()
    s.name = name
    s.x = 1.; s.y = 2.
    s.valid = np.array(valid)
    s.flux = np.array(flux, dtype=float)
    s.error = np.array(error, dtype=float)
    return s

def as_map(info):
    return {str(n).strip(): (a, s, c) for n, a, s, c in zip(info.model_name, info.av, info.sc, info.chi2)}

def cmp_maps(m1, m2, dsc=0., tol=1e-9):
    worst = 0.
    assert set(m1) == set(m2), (set(m1), set(m2))
    for k in m1:
        a1, s1, c1 = m1[k]; a2, s2, c2 = m2[k]
        for x, y in [(a1, a2), (s1 + dsc, s2), (c1, c2)]:
            if np.isnan(x) and np.isnan(y): continue
            if x == y: continue
            d = abs(x - y) / max(1., abs(x), abs(y))
            worst = max(worst, d)
    return worst
