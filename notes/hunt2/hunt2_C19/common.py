import os, sys, tempfile, io, contextlib
import numpy as np
from astropy import units as u
from astropy.table import Table

def build_models(models_dir, nmod=5, aperture_dependent=False):
    from sedfitter.sed import SEDCube
    from sedfitter.filter import Filter
    from sedfitter.convolve import convolve_model_dir
    rng = np.random.RandomState(12345)
    cube = SEDCube()
    cube.names = np.array(['model_{0:04d}'.format(i) for i in range(nmod)])
    cube.distance = 1 * u.kpc
    cube.wav = np.logspace(-2., 3., 100) * u.micron
    if aperture_dependent:
        cube.apertures = np.logspace(1., 6., 10) * u.au
        cube.val = np.cumsum(rng.random_sample((nmod, 10, 100)), axis=0) * u.mJy
    else:
        cube.apertures = None
        cube.val = (1 + rng.random_sample((nmod, 1, 100))) * u.mJy
    cube.unc = cube.val * 0.01 * rng.random_sample(cube.val.shape)
    cube.write(os.path.join(models_dir, 'flux.fits'))
    with open(os.path.join(models_dir, 'models.conf'), 'w') as f:
        f.write("name = test\nlength_subdir = 0\naperture_dependent = {0}\nlogd_step = 0.02\nversion = 2\n".format('yes' if aperture_dependent else 'no'))
    t = Table()
    t['MODEL_NAME'] = np.array(cube.names, dtype='S')
    t['par1'] = rng.random_sample(nmod)
    t.write(os.path.join(models_dir, 'parameters.fits'))
    filters = []
    for name, lo, hi, cen in [('alice', 1., 5., 3.), ('bob', 10., 15., 12.), ('eve', 15., 25., 20.)]:
        fw = np.linspace(hi, lo, 100) * u.micron
        f = Filter()
        f.name = name
        f.central_wavelength = cen * u.micron
        f.nu = fw.to(u.Hz, equivalencies=u.spectral())
        f.response = rng.random_sample(100) + 0.1
        f.normalize()
        filters.append(f)
    with contextlib.redirect_stdout(io.StringIO()):
        convolve_model_dir(models_dir, filters=filters)

def extinction():
    from sedfitter.extinction import Extinction
    e = Extinction()
    e.wav = np.logspace(-2., 3.) * u.micron
    e.chi = e.wav.value ** -2 * u.cm ** 2 / u.g
    return e
