"""
C13, clauses "returns the tabulated value at a tabulated radius" and "the
wavelength-dependent variant used for plotting equals, at every filter
wavelength, the linear interpolant at that filter's aperture".

Input: an SED whose aperture table is stored in single precision in cm (what a
FITS file with an 'E' column gives), three apertures, and a request that is
exactly the SMALLEST TABULATED radius, passed as bare AU numbers (what plot()
passes).

SED.interpolate converts the request to the table's unit in double precision
and returns the tabulated fluxes.  SED.interpolate_variable instead converts
the TABLE to AU in the table's own single precision, which moves the smallest
node up by a few 1e-8 (relative), far more than the 1e-10 tolerance of the too-small
check: the request on the smallest tabulated radius is refused with
"Aperture(s) requested too small".

Second part: the same thing through the public pipeline.  A fit made by Fitter
at a distance where aperture x distance is the smallest tabulated radius (the
fitter accepts it and returns the tabulated flux) cannot be plotted with the
default sed_type='interp', while sed_type='all' (SED.interpolate) plots it.
"""
import os
import io
import sys
import tempfile
import contextlib

import numpy as np
from astropy import units as u

import matplotlib
matplotlib.use('Agg')

from sedfitter.sed import SED
from sedfitter.convolved_fluxes import ConvolvedFluxes
from sedfitter.extinction import Extinction
from sedfitter.fit import Fitter
from sedfitter.source import Source
from sedfitter import plot

failures = []

# ---------------------------------------------------------------- part 1: API

aps = np.array([1.e15, 1.e16, 1.e17], dtype=np.float32) * u.cm
wav = np.array([1., 2., 4.]) * u.micron
flux = np.array([[1., 2., 3.], [2., 3., 4.], [4., 5., 6.]])


def make_sed(name):
    s = SED()
    s.name = name
    s.distance = 1. * u.kpc
    s.wav = wav
    s.nu = wav.to(u.Hz, equivalencies=u.spectral())
    s.apertures = aps
    s.flux = flux * u.mJy
    s.error = flux * 0.01 * u.mJy
    return s


s = make_sed('m1')

# the smallest tabulated radius, in AU (double precision)
a0 = s.apertures.astype(float).to(u.au).value[0]
request = np.array([a0, a0, a0])

plain = s.interpolate(request)[:, 0]
assert np.allclose(plain, flux[0], rtol=1e-6), plain   # tabulated value: fine

try:
    var = s.interpolate_variable(np.array([1., 2., 4.]), request)
except Exception as e:
    failures.append("SED.interpolate_variable refuses the smallest tabulated "
                    "radius (%.17g AU = %.17g cm, table stored as float32 cm): "
                    "'%s'; SED.interpolate returns the tabulated fluxes %s for "
                    "the same request" % (a0, float(aps.value[0]), e, plain))
else:
    if not np.allclose(var, flux[0], rtol=1e-6):
        failures.append("interpolate_variable differs: %s" % var)

# ----------------------------------------------------------- part 2: pipeline

d = tempfile.mkdtemp()
os.mkdir(os.path.join(d, 'seds'))
os.mkdir(os.path.join(d, 'convolved'))
with open(os.path.join(d, 'models.conf'), 'w') as f:
    f.write("name = test\nlength_subdir = 0\naperture_dependent = yes\nlogd_step = 0.02\n")
names = ['m1', 'm2']
for n in names:
    make_sed(n).write(os.path.join(d, 'seds', n + '_sed.fits'))
for j, fn in enumerate(['F1', 'F2', 'F3']):
    c = ConvolvedFluxes()
    c.model_names = np.array(names)
    c.central_wavelength = wav[j]
    c.apertures = aps
    c.flux = np.array([flux[:, j], flux[:, j] * 1.5]) * u.mJy
    c.error = c.flux * 0.01
    c.write(os.path.join(d, 'convolved', fn + '.fits'))

law = Extinction()
law.wav = np.logspace(-2., 3., 50) * u.micron
law.chi = law.wav.value ** -1.5 * u.cm ** 2 / u.g

# 1 arcsec at this distance is the smallest tabulated radius
dist = a0 / 1000. * u.kpc
with contextlib.redirect_stdout(io.StringIO()):
    fitter = Fitter(['F1', 'F2', 'F3'], [1., 1., 1.] * u.arcsec, d,
                    extinction_law=law, av_range=[0., 1.],
                    distance_range=u.Quantity([dist, dist]))
src = Source()
src.name = 'src'
src.x = 0.
src.y = 0.
src.valid = [1, 1, 1]
src.flux = flux[0] / dist.value ** 2
src.error = src.flux * 0.1
info = fitter.fit(src)
assert info.model_name[0] == 'm1' and info.chi2[0] < 0.1, (info.model_name, info.chi2)

with contextlib.redirect_stdout(io.StringIO()):
    plot(info, sed_type='all')           # SED.interpolate: works
    try:
        plot(info, sed_type='interp')    # SED.interpolate_variable
    except Exception as e:
        failures.append("plot(sed_type='interp') of a fit made by Fitter at "
                        "d = %.17g kpc (1 arcsec = smallest tabulated aperture, "
                        "table in float32 cm) raises '%s'; sed_type='all' plots "
                        "the same fit" % (dist.value, e))

if failures:
    print("C13 VIOLATED:")
    for m in failures:
        print(" - " + m)
    sys.exit(1)
print("no violation")
