From Coq Require Import QArith Lqa Lia List Bool ZArith.
Import ListNotations.
From SedV Require Import Xnum.
Close Scope Q_scope.

(* FitInfo.keep: count, then slice every column to that length *)
Inductive sel := SelA | SelN (n : nat) | SelC (v : Q) | SelD (v : Q) | SelE (v : Q) | SelF (v : Q).

Definition crit (s : sel) (nd : positive) (c0 : xnum) (x : xnum) : bool :=
  match s with
  | SelA | SelN _ => true
  | SelC v => xle x (Fin v)
  | SelD v => xle (xsub x c0) (Fin v)
  | SelE v => xle (xdivn x nd) (Fin v)
  | SelF v => xle (xdivn (xsub x c0) nd) (Fin v)
  end.
Definition nkeep (s : sel) (nd : positive) (chi : list xnum) : nat :=
  match chi with
  | [] => 0
  | c0 :: _ => match s with
               | SelA => length chi
               | SelN n => n                                   (* slicing clips to the length *)
               | _ => count xnum (crit s nd c0) chi
               end
  end.
Definition keep {A} (s : sel) (nd : positive) (chi : A -> xnum) (rows : list A) : list A :=
  firstn (nkeep s nd (map chi rows)) rows.

(* ranked: numpy order, no -inf *)
Definition ranked (chi : list xnum) : Prop := sorted xnum xord chi /\ Forall noninf chi.

Lemma critF_anti (v : Q) n c0 x y : noninf x -> noninf c0 -> xord c0 x -> xord x y ->
  xle (xdivn (xsub y c0) n) (Fin v) = true -> xle (xdivn (xsub x c0) n) (Fin v) = true.
Proof.
  destruct c0 as [c| | |], x as [x| | |], y as [y| | |]; simpl; intros N1 N0 H0 H1 H2;
    try discriminate; try contradiction; try reflexivity.
  apply Qle_bool_iff in H2. apply Qle_bool_iff.
  assert ((0 < (Z.pos n # 1))%Q) by reflexivity.
  assert (((x - c) / (Z.pos n # 1) <= (y - c) / (Z.pos n # 1))%Q).
  { unfold Qdiv. apply Qmult_le_compat_r; [lra|]. apply Qinv_le_0_compat. lra. }
  lra.
Qed.

Lemma xord_refl x : xord x x.
Proof. destruct x; simpl; auto. apply Qle_refl. Qed.

Lemma sorted_strengthen (Pr : xnum -> Prop) l : sorted xnum xord l -> Forall Pr l ->
  sorted xnum (fun x y => xord x y /\ Pr x) l.
Proof.
  induction l as [|x r IH]; intros S F; [exact I|]. destruct S as [Fx S]. inversion F as [|? ? Px Fr]; subst.
  split; [|now apply IH]. rewrite Forall_forall in *. intros y Hy. split; [now apply Fx|exact Px].
Qed.

Lemma head_le_all c0 chi : sorted xnum xord (c0 :: chi) -> Forall (xord c0) (c0 :: chi).
Proof. intros [F _]. constructor; [apply xord_refl|exact F]. Qed.

(* the kept fits are exactly those meeting the criterion *)
Theorem C05_CDEF s nd c0 chi : ranked (c0 :: chi) ->
  match s with SelA | SelN _ => True | _ =>
    firstn (nkeep s nd (c0 :: chi)) (c0 :: chi) = filter (crit s nd c0) (c0 :: chi) /\
    forall x, In x (skipn (nkeep s nd (c0 :: chi)) (c0 :: chi)) -> crit s nd c0 x = false
  end.
Proof.
  intros [S N].
  assert (S' : sorted xnum (fun x y => xord x y /\ (noninf x /\ xord c0 x)) (c0 :: chi)).
  { apply sorted_strengthen; [exact S|]. pose proof (head_le_all c0 chi S) as H.
    rewrite Forall_forall in *. intros x Hx. split; [now apply N|now apply H]. }
  assert (N0 : noninf c0) by (inversion N; assumption).
  destruct s as [| |v|v|v|v]; try exact I; unfold nkeep.
  - apply (antitone_prefix xnum xord (crit (SelC v) nd c0)); [|exact S]. intros x y. apply critC_anti.
  - apply (antitone_prefix xnum (fun x y => xord x y /\ (noninf x /\ xord c0 x)) (crit (SelD v) nd c0)); [|exact S'].
    intros x y (Hxy & Nx & H0) Hy. simpl in *. eapply critD_anti; eauto.
  - apply (antitone_prefix xnum xord (crit (SelE v) nd c0)); [|exact S]. intros x y. apply critE_anti.
  - apply (antitone_prefix xnum (fun x y => xord x y /\ (noninf x /\ xord c0 x)) (crit (SelF v) nd c0)); [|exact S'].
    intros x y (Hxy & Nx & H0) Hy. simpl in *. eapply critF_anti; eauto.
Qed.
Print Assumptions C05_CDEF.

(* ---------- selecting twice / a looser selector first ---------- *)
Definition eff (s : sel) (nd : positive) (chi : list xnum) : nat := Nat.min (nkeep s nd chi) (length chi).
Definition keepx (s : sel) (nd : positive) (chi : list xnum) : list xnum := firstn (nkeep s nd chi) chi.

Lemma keepx_eff s nd chi : keepx s nd chi = firstn (eff s nd chi) chi.
Proof. unfold keepx, eff. destruct (Nat.le_gt_cases (nkeep s nd chi) (length chi)).
  - now rewrite Nat.min_l.
  - rewrite Nat.min_r by lia. rewrite !firstn_all2 by lia. reflexivity. Qed.


(* the passing elements of a ranked list form a prefix: split form *)
Lemma prefix_split (P : xnum -> bool) l :
  firstn (count xnum P l) l = filter P l -> (forall x, In x (skipn (count xnum P l) l) -> P x = false) ->
  forall k, count xnum P (firstn k l) = Nat.min k (count xnum P l).
Proof.
  set (c := count xnum P l). intros H1 H2 k.
  assert (Hl : l = firstn c l ++ skipn c l) by (symmetry; apply firstn_skipn).
  assert (T : forall x, In x (firstn c l) -> P x = true) by (intros x Hx; rewrite H1 in Hx; apply filter_In in Hx; tauto).
  assert (cnt_true : forall m, (forall x, In x m -> P x = true) -> count xnum P m = length m).
  { induction m as [|y m IH]; intros Hm; [reflexivity|]. simpl. rewrite (Hm y (or_introl eq_refl)). rewrite IH; [lia|]. intros; apply Hm; now right. }
  assert (cnt_false : forall m, (forall x, In x m -> P x = false) -> count xnum P m = 0).
  { induction m as [|y m IH]; intros Hm; [reflexivity|]. simpl. rewrite (Hm y (or_introl eq_refl)). apply IH. intros; apply Hm; now right. }
  assert (cnt_app : forall m1 m2, count xnum P (m1 ++ m2) = count xnum P m1 + count xnum P m2).
  { induction m1 as [|y m1 IH]; intros m2; [reflexivity|]. simpl. rewrite IH. lia. }
  assert (Hc : c <= length l).
  { unfold c. clear. induction l as [|y l IH]; simpl; [lia|]. destruct (P y); lia. }
  assert (Lc : length (firstn c l) = c) by (rewrite firstn_length; lia).
  rewrite Hl at 1. rewrite firstn_app, cnt_app, Lc.
  destruct (Nat.le_gt_cases k c) as [L|G].
  - replace (k - c) with 0 by lia. rewrite firstn_O. simpl. rewrite Nat.add_0_r.
    rewrite cnt_true; [rewrite firstn_length; lia|]. intros x Hx. apply T.
    rewrite <- (firstn_skipn k (firstn c l)). apply in_or_app. now left.
  - rewrite (firstn_all2 (firstn c l)) by lia. rewrite (cnt_true _ T), Lc.
    rewrite cnt_false; [lia|]. intros x Hx. apply H2.
    rewrite <- (firstn_skipn (k - c) (skipn c l)). apply in_or_app. now left.
Qed.

Lemma count_le_length (P : xnum -> bool) l : count xnum P l <= length l.
Proof. induction l as [|y m IH]; simpl; [lia|]. destruct (P y); lia. Qed.

Lemma firstn_firstn_min {A} (l : list A) i j : firstn i (firstn j l) = firstn (Nat.min i j) l.
Proof. apply firstn_firstn. Qed.

(* selecting with a looser selector first does not change the result *)
Theorem C05_looser_first s1 s2 nd l : ranked l -> eff s2 nd l <= eff s1 nd l ->
  keepx s2 nd (keepx s1 nd l) = keepx s2 nd l.
Proof.
  intros R Hle. rewrite (keepx_eff s1). set (k1 := eff s1 nd l) in *.
  assert (Hk0 : k1 <= length l) by (unfold k1, eff; lia). clearbody k1.
  destruct l as [|c0 chi]; [now rewrite firstn_nil|].
  destruct k1 as [|k1'].
  - simpl firstn. rewrite (keepx_eff s2 nd (c0 :: chi)). replace (eff s2 nd (c0 :: chi)) with 0 by lia.
    unfold keepx. now rewrite firstn_nil.
  - assert (Hk : S k1' <= length (c0 :: chi)) by exact Hk0.
    assert (Hl' : firstn (S k1') (c0 :: chi) = c0 :: firstn k1' chi) by reflexivity.
    pose proof (C05_CDEF s2 nd c0 chi R) as HP.
    unfold keepx at 1. rewrite Hl'. unfold nkeep at 1. rewrite <- Hl'.
    unfold eff in Hle. unfold keepx.
    destruct s2 as [|n|v|v|v|v].
    + (* A *) simpl nkeep in *. rewrite firstn_length. simpl length in *. rewrite Nat.min_l by lia.
      rewrite firstn_firstn_min, Nat.min_id. assert (E : k1' = length chi) by lia.
      rewrite E. change (S (length chi)) with (length (c0 :: chi)). rewrite !firstn_all. reflexivity.
    + (* N *) simpl nkeep in *. rewrite firstn_firstn_min.
      destruct (Nat.le_gt_cases n (S k1')); [now rewrite Nat.min_l|].
      rewrite Nat.min_r by lia. simpl length in *.
      rewrite !firstn_all2 by (simpl length; lia). reflexivity.
    + destruct HP as [H1 H2]. unfold nkeep in H1, H2, Hle |- *.
      rewrite (prefix_split _ _ H1 H2). rewrite firstn_firstn_min.
      pose proof (count_le_length (crit (SelC v) nd c0) (c0 :: chi)).
      f_equal. lia.
    + destruct HP as [H1 H2]. unfold nkeep in H1, H2, Hle |- *.
      rewrite (prefix_split _ _ H1 H2). rewrite firstn_firstn_min.
      pose proof (count_le_length (crit (SelD v) nd c0) (c0 :: chi)).
      f_equal. lia.
    + destruct HP as [H1 H2]. unfold nkeep in H1, H2, Hle |- *.
      rewrite (prefix_split _ _ H1 H2). rewrite firstn_firstn_min.
      pose proof (count_le_length (crit (SelE v) nd c0) (c0 :: chi)).
      f_equal. lia.
    + destruct HP as [H1 H2]. unfold nkeep in H1, H2, Hle |- *.
      rewrite (prefix_split _ _ H1 H2). rewrite firstn_firstn_min.
      pose proof (count_le_length (crit (SelF v) nd c0) (c0 :: chi)).
      f_equal. lia.
Qed.

Corollary C05_idempotent s nd l : ranked l -> keepx s nd (keepx s nd l) = keepx s nd l.
Proof. intros R. apply C05_looser_first; [exact R|lia]. Qed.
Print Assumptions C05_looser_first.

(* ---------- row level: the code slices every column with the same count ---------- *)
Lemma count_map {A} (f : A -> xnum) (P : xnum -> bool) l :
  count xnum P (map f l) = count A (fun r => P (f r)) l.
Proof. induction l as [|x r IH]; simpl; [reflexivity|]. now rewrite IH. Qed.

Lemma sorted_map {A} (f : A -> xnum) (R : xnum -> xnum -> Prop) l :
  sorted xnum R (map f l) -> sorted A (fun x y => R (f x) (f y)) l.
Proof.
  induction l as [|x r IH]; simpl; [trivial|]. intros [F S]. split; [|now apply IH].
  rewrite Forall_forall in *. intros y Hy. apply F. now apply in_map.
Qed.

Theorem C05_CDEF_rows {A} (chi : A -> xnum) s nd r0 rows :
  ranked (map chi (r0 :: rows)) ->
  match s with SelA | SelN _ => True | _ =>
    keep s nd chi (r0 :: rows) = filter (fun r => crit s nd (chi r0) (chi r)) (r0 :: rows) /\
    forall r, In r (skipn (nkeep s nd (map chi (r0 :: rows))) (r0 :: rows)) -> crit s nd (chi r0) (chi r) = false
  end.
Proof.
  intros [S N].
  set (c0 := chi r0).
  assert (S' : sorted xnum (fun x y => xord x y /\ (noninf x /\ xord c0 x)) (map chi (r0 :: rows))).
  { apply sorted_strengthen; [exact S|]. pose proof (head_le_all c0 (map chi rows) S) as H.
    rewrite Forall_forall in *. intros x Hx. split; [now apply N|now apply H]. }
  assert (N0 : noninf c0) by (inversion N; assumption).
  apply sorted_map in S. apply sorted_map in S'.
  destruct s as [| |v|v|v|v]; try exact I; unfold keep, nkeep; cbn [map]; change (chi r0 :: map chi rows) with (map chi (r0 :: rows)); rewrite count_map; fold c0.
  - apply (antitone_prefix A (fun x y => xord (chi x) (chi y)) (fun r => crit (SelC v) nd c0 (chi r))); [|exact S].
    intros x y. apply critC_anti.
  - apply (antitone_prefix A (fun x y => xord (chi x) (chi y) /\ (noninf (chi x) /\ xord c0 (chi x))) (fun r => crit (SelD v) nd c0 (chi r))); [|exact S'].
    intros x y (Hxy & Nx & H0) Hy. simpl in *. eapply critD_anti; eauto.
  - apply (antitone_prefix A (fun x y => xord (chi x) (chi y)) (fun r => crit (SelE v) nd c0 (chi r))); [|exact S].
    intros x y. apply critE_anti.
  - apply (antitone_prefix A (fun x y => xord (chi x) (chi y) /\ (noninf (chi x) /\ xord c0 (chi x))) (fun r => crit (SelF v) nd c0 (chi r))); [|exact S'].
    intros x y (Hxy & Nx & H0) Hy. simpl in *. eapply critF_anti; eauto.
Qed.

Theorem C05_A_rows {A} (chi : A -> xnum) nd rows : keep SelA nd chi rows = rows.
Proof. unfold keep, nkeep. destruct rows as [|r rs]; [reflexivity|]. cbn [map]. rewrite <- (map_cons chi r rs), map_length. apply firstn_all. Qed.

Theorem C05_N_rows {A} (chi : A -> xnum) nd n rows :
  keep (SelN n) nd chi rows = firstn n rows /\ length (keep (SelN n) nd chi rows) = Nat.min n (length rows).
Proof. unfold keep, nkeep. destruct rows as [|r rs]; cbn [map].
  - rewrite !firstn_nil. split; [reflexivity|simpl; lia].
  - split; [reflexivity|apply firstn_length]. Qed.

(* every per-fit column is cut with the same count: slicing columns = slicing the zipped rows *)
Theorem C05_columns_alike {A B} n (col1 : list A) (col2 : list B) :
  combine (firstn n col1) (firstn n col2) = firstn n (combine col1 col2).
Proof. symmetry. apply combine_firstn. Qed.

(* row-level composition laws *)
Lemma keep_as_keepx {A} (chi : A -> xnum) s nd rows :
  map chi (keep s nd chi rows) = keepx s nd (map chi rows).
Proof. unfold keep, keepx. now rewrite firstn_map. Qed.

Theorem C05_looser_first_rows {A} (chi : A -> xnum) s1 s2 nd rows :
  ranked (map chi rows) -> eff s2 nd (map chi rows) <= eff s1 nd (map chi rows) ->
  keep s2 nd chi (keep s1 nd chi rows) = keep s2 nd chi rows.
Proof.
  intros R Hle.
  pose proof (C05_looser_first s1 s2 nd (map chi rows) R Hle) as H.
  unfold keep at 1. rewrite keep_as_keepx.
  unfold keepx in H at 1. unfold keep at 1.
  (* lengths decide: firstn a (firstn b rows) with the counts from the chi lists *)
  assert (L : forall (l : list A) i j, firstn i (firstn j l) = firstn (Nat.min i j) l) by (intros; apply firstn_firstn).
  rewrite L. unfold keep.
  assert (M : forall (l : list A) k, firstn k l = firstn (Nat.min k (length l)) l).
  { intros l k. destruct (Nat.le_gt_cases k (length l)); [now rewrite Nat.min_l|].
    rewrite Nat.min_r by lia. rewrite firstn_all. apply firstn_all2. lia. }
  apply (f_equal (@length xnum)) in H. unfold keepx in H. rewrite !firstn_length, map_length in H.
  rewrite (M rows (Nat.min _ _)), (M rows (nkeep s2 nd (map chi rows))). f_equal. unfold keepx. lia.
Qed.

Corollary C05_idempotent_rows {A} (chi : A -> xnum) s nd rows :
  ranked (map chi rows) -> keep s nd chi (keep s nd chi rows) = keep s nd chi rows.
Proof. intros R. apply C05_looser_first_rows; [exact R|lia]. Qed.
