import os, tempfile
import numpy as np
from astropy import units as u
from sedfitter.sed import SED, SEDCube
from sedfitter.convolved_fluxes import ConvolvedFluxes
tmp = tempfile.mkdtemp()
c = SEDCube(); c.names = ['x','y']; c.distance = 1*u.kpc; c.wav = [3,2,1]*u.micron
c.val = np.arange(6.).reshape(2,1,3)*u.mJy
for mm in [True, False]:
    fn = os.path.join(tmp, 'c%i.fits.gz'%mm)
    c.write(fn)
    for order in ['nu','wav']:
        r = SEDCube.read(fn, order=order, memmap=mm)
        print(mm, order, r.wav, r.val[1,0], r.unc)
# overwrite
fn = os.path.join(tmp, 'c.fits'); c.write(fn)
c.val = c.val*2; c.write(fn, overwrite=True)
print(SEDCube.read(fn).val[0,0])
# memmap: read, then overwrite the file while mapped?
r = SEDCube.read(fn, memmap=True)
c.val = c.val*2; c.write(fn, overwrite=True)
print('after overwrite, earlier memmapped read:', r.val[0,0], ' fresh:', SEDCube.read(fn).val[0,0])
s = SED(); s.name='a'; s.distance=1*u.kpc; s.wav=[1,2,3]*u.micron; s.nu = s.wav.to(u.Hz, equivalencies=u.spectral()); s.flux=np.ones((1,3))*u.mJy; s.error=s.flux*0.1
s.write(os.path.join(tmp,'a_sed.fits.gz'))
print(SED.read(os.path.join(tmp,'a_sed.fits'), unit_flux=u.mJy).apertures)
