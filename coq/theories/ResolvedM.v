(* ResolvedM — the `extended` array of Models.read with remove_resolved=True, as the code computes it: for each model and band the
   surface-brightness radius (RadiusM.radius_sigma_m, fraction 1/2) of the ALREADY distance-interpolated and 1/d^2-scaled fluxes,
   taken over the aperture radii theta*d of the trial distances, compared with those same radii.  No property states what
   remove_resolved should remove; this file says what it does, and RadiusM what that means. *)
From Coq Require Import QArith List Bool Arith Lia Lra Psatz.
Import ListNotations.
From SedV Require Import PLin FitModel RadiusM.
Open Scope Q_scope.

Definition aps_of (theta : Q) (ds : list Q) : list Q := map (fun d => theta * (d * 1000)) ds.

Definition column (j : nat) (fl : list (list Q)) : list Q := map (fun row => nth j row 0) fl.

(* per band: the radius, the mask over the distances, and (for the correspondence check's tie detection) the threshold and the
   surface brightnesses the radius was computed from *)
Record bandres := { b_radius : Q; b_mask : list bool; b_thr : Q; b_sigma : list Q }.

Definition band_masks (thetas ds : list Q) (fl : list (list Q)) : list bandres :=
  map (fun jt => let aps := aps_of (snd jt) ds in
                 let col := column (fst jt) fl in
                 let sg := sigma_m aps col in
                 let r := radius_sigma_m (1 # 2) aps col in
                 {| b_radius := r; b_mask := ext_mask aps r; b_thr := (1 # 2) * qmax sg; b_sigma := sg |})
      (combine (seq 0 (length thetas)) thetas).

Definition ext_rows (n : nat) (bm : list bandres) : list (list bool) :=
  map (fun i => map (fun b => nth i (b_mask b) false) bm) (seq 0 n).

(* one model: per-band results and the mask [distance][band] *)
Definition resolved_model (thetas ds : list Q) (tabs : list (list pt)) : option (list bandres * list (list bool)) :=
  match all_some (map (fun d => all_some (scaled_band_list tabs thetas d)) ds) with
  | Some fl => let bm := band_masks thetas ds fl in Some (bm, ext_rows (length ds) bm)
  | None => None
  end.

Definition resolved_pkg (thetas ds : list Q) (models : list (list (list pt))) : option (list (list bandres * list (list bool))) :=
  all_some (map (resolved_model thetas ds) models).

(* the mask of a band is the one RadiusM describes *)
Lemma band_masks_spec thetas ds fl b : In b (band_masks thetas ds fl) ->
  exists j theta, nth_error thetas j = Some theta /\
    b_radius b = radius_sigma_m (1 # 2) (aps_of theta ds) (column j fl) /\
    b_mask b = ext_mask (aps_of theta ds) (b_radius b).
Proof.
  unfold band_masks. intro H. apply in_map_iff in H. destruct H as ((j, theta) & <- & Hin).
  exists j, theta. split; [|split; reflexivity].
  assert (G : forall l k, In (j, theta) (combine (seq k (length l)) l) -> nth_error l (j - k) = Some theta /\ (k <= j)%nat).
  { induction l as [|x l IH]; intros k Hk; [destruct Hk|]. simpl in Hk. destruct Hk as [E|Hk].
    - injection E as <- <-. rewrite Nat.sub_diag. split; [reflexivity|lia].
    - destruct (IH (S k) Hk) as [A B]. split; [|lia]. replace (j - k)%nat with (S (j - S k)) by lia. exact A. }
  destruct (G thetas 0%nat Hin) as [A _]. now rewrite Nat.sub_0_r in A.
Qed.

(* a larger distance never turns an unresolved model into a resolved one (per band): the mask is an initial segment of the grid *)
Lemma aps_increasing theta ds : 0 < theta -> increasing ds -> increasing (aps_of theta ds).
Proof.
  intros T I. induction I as [| |a a' r L I IH]; simpl; try constructor.
  - nra.
  - exact IH.
Qed.

Theorem resolved_initial_segment theta ds fl i j : 0 < theta -> increasing ds -> (i <= j)%nat ->
  let aps := aps_of theta ds in
  let m := ext_mask aps (radius_sigma_m (1 # 2) aps fl) in
  nth j m false = true -> nth i m false = true.
Proof.
  intros T I Hij aps m. apply ext_mask_initial; [apply aps_increasing; assumption|exact Hij].
Qed.
