"""
C02 - "trial distances form a log-uniform grid that includes both ends of the
requested range ... all distance ranges ... with theta*dmin not below the
smallest aperture ... both package formats".

A distance range handed over in SINGLE PRECISION (e.g. np.float32([0.5, 1.5]) * u.kpc,
or a range in pc taken from a single-precision catalogue column) makes
Models._read_version_1/_2 build the whole distance grid in single precision
(np.log10 / np.logspace keep float32).  Consequences:

 (a) 10**log10(0.5) evaluated in float32 is 0.49999997: with theta*dmin exactly on
     the smallest tabulated aperture (legal: "not below") the Fitter refuses the
     range with "Aperture(s) requested too small" - the edge tolerance of the
     earlier repair (1e-10) is far below the single-precision error (6e-8);
 (b) when it is not refused, the grid does not include the ends of the range
     (3.0000005 kpc for dmax = 3 kpc, i.e. even outside the range), the
     reported scales are not log10 of the double-precision grid distances and
     chi^2 differs at the 1e-7 level from the same range given in float64.

The values 0.5, 1.5, 1, 3 are exactly representable in float32, so the float32
and float64 ranges denote exactly the same distances.
"""
import io
import os
import sys
import tempfile
import contextlib

import numpy as np
from astropy import units as u
from astropy.table import Table

from sedfitter import Fitter
from sedfitter.source import Source
from sedfitter.extinction import Extinction
from sedfitter.convolved_fluxes import ConvolvedFluxes
from sedfitter.sed import SEDCube


def make_package(version, ap_min_au):
    rng = np.random.default_rng(11)
    d = tempfile.mkdtemp(prefix='hunt5_T2_C02_')
    os.mkdir(os.path.join(d, 'convolved'))
    names = np.array(['m_%02d' % i for i in range(4)])
    ap = np.array([1., 3., 20., 100.]) * ap_min_au
    for j, w in enumerate([0.55, 2.2, 8.0]):
        val = np.cumsum(rng.uniform(0.5, 2., (4, 4)), axis=1)
        c = ConvolvedFluxes(wavelength=w * u.micron, model_names=names, apertures=ap * u.au,
                            flux=val * u.mJy, error=0.01 * val * u.mJy)
        c.write(os.path.join(d, 'convolved', 'F%d.fits' % j))
    with open(os.path.join(d, 'models.conf'), 'w') as f:
        f.write("name = test\nlength_subdir = 0\naperture_dependent = yes\nlogd_step = 0.02\n")
        if version == 2:
            f.write("version = 2\n")
    t = Table()
    t['MODEL_NAME'] = np.array(names, dtype='S')
    t['par1'] = rng.uniform(size=4)
    t.write(os.path.join(d, 'parameters.fits'))
    if version == 2:
        cube = SEDCube()
        cube.names = names
        cube.distance = 1 * u.kpc
        cube.wav = np.array([0.3, 1., 10., 100.]) * u.micron
        cube.val = np.ones((4, 1, 4)) * u.mJy
        cube.unc = cube.val * 0.1
        cube.write(os.path.join(d, 'flux.fits'))
    return d


law = Extinction()
law.wav = np.array([0.1, 0.3, 0.55, 1.0, 2.2, 5., 10., 30.]) * u.micron
law.chi = np.array([900., 400., 220., 90., 30., 12., 20., 6.]) * u.cm ** 2 / u.g

source = Source()
source.name = 's'
source.x = source.y = 0.
source.valid = [1, 1, 1]
source.flux = np.array([0.5, 2.0, 1.4])
source.error = np.array([0.05, 0.1, 0.03])


def fitter_for(model_dir, distance_range):
    with contextlib.redirect_stdout(io.StringIO()):
        return Fitter(['F0', 'F1', 'F2'], [1., 1., 1.] * u.arcsec, model_dir,
                      extinction_law=law, av_range=[0., 5.],
                      distance_range=distance_range, use_memmap=False)


failures = []

for version in (1, 2):

    # (a) theta * dmin = 1" * 500 pc = 500 AU = smallest tabulated aperture
    model_dir = make_package(version, 500.)
    fitter_for(model_dir, np.array([0.5, 1.5]) * u.kpc)          # float64: accepted
    for label, dr in [('np.float32([0.5, 1.5]) * u.kpc', np.array([0.5, 1.5], dtype=np.float32) * u.kpc),
                      ('np.float32([500, 1500]) * u.pc', np.array([500., 1500.], dtype=np.float32) * u.pc)]:
        try:
            fitter_for(model_dir, dr)
        except Exception as exc:
            failures.append("format %i: distance_range = %s with theta*dmin exactly on the smallest "
                            "aperture (500 AU) is refused: %r (the same range in float64 is accepted)"
                            % (version, label, exc))

    # (b) a range that is accepted: grid ends and results
    model_dir = make_package(version, 1000.)
    f64 = fitter_for(model_dir, np.array([1., 3.]) * u.kpc)
    f32 = fitter_for(model_dir, np.array([1., 3.], dtype=np.float32) * u.kpc)
    d64 = f64.models.distances.to(u.kpc).value
    d32 = f32.models.distances.to(u.kpc).value
    if abs(float(d32[-1]) / 3. - 1.) > 1e-12:
        failures.append("format %i: distance_range = np.float32([1, 3]) * u.kpc: last grid distance is %r kpc, "
                        "not dmax = 3 kpc (float64 range: %r)" % (version, d32[-1], d64[-1]))
    i64, i32 = f64.fit(source), f32.fit(source)
    dsc = np.max(np.abs(np.asarray(i32.sc, dtype=float) - np.asarray(i64.sc)))
    dch = np.max(np.abs(np.asarray(i32.chi2) / np.asarray(i64.chi2) - 1.))
    if dsc > 1e-12 or dch > 1e-12:
        failures.append("format %i: the same range [1, 3] kpc in float32 and float64 gives scales differing by "
                        "%.1e and chi^2 differing by %.1e (relative)" % (version, dsc, dch))

if failures:
    print("C02 VIOLATED for a single-precision distance range:")
    for f in failures:
        print(" -", f)
    sys.exit(1)
print("no violation")
