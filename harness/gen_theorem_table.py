"""Regenerates the table of DESIGN.md section 0.8 from coq/theories/Props_C*.v (python3 harness/gen_theorem_table.py)."""
import glob
import os
import re

VERIF = os.path.dirname(os.path.dirname(os.path.abspath(__file__)))
rows = []
for f in sorted(glob.glob(os.path.join(VERIF, 'coq', 'theories', 'Props_C*.v'))):
    pid = re.search(r'Props_(C\d+)\.v', f).group(1)
    names = re.findall(r'^(?:Theorem|Example)\s+([A-Za-z0-9_]+)', open(f).read(), re.M)
    rows.append('| %s | %s |' % (pid, ', '.join('`%s`' % n for n in names)))
table = '| property | theorems (and the non-vacuity `Example`) |\n|---|---|\n' + '\n'.join(rows) + '\n'
p = os.path.join(VERIF, 'DESIGN.md')
s = open(p).read()
m = re.search(r'(### 0\.8 [^\n]*\n\n)\| property \|.*?\n(?=\n|\Z)', s, re.S)
s = s[:m.start()] + m.group(1) + table + s[m.end():]
open(p, 'w').write(s)
print(sum(len(r.split(',')) for r in rows), 'statements')
