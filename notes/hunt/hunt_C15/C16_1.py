"""
C16, clause: "writes exactly one file per SED wavelength lying inside the
requested wavelength window ... every window [wav_min, wav_max] whose ends fall
between or ON tabulated wavelengths, including windows holding a single
wavelength".

convolve_model_dir_monochromatic treats the two ends of the window differently:
a tabulated wavelength equal to wav_min is kept, a tabulated wavelength equal
to wav_max is dropped (searchsorted(..., side='left') is used for both ends).
Consequences, all independent of max_ram:
  (a) window [2, 8] micron on the package {1, 2, 4, 8} micron writes 2 and 4
      micron only (the 8 micron file is missing);
  (b) window [2, 2] (a single tabulated wavelength) crashes with
      "ValueError: range() arg 3 must not be zero";
  (c) window [1.5, 2] (holds exactly the 2 micron point) crashes the same way;
  control: window [2, 3] (lower end on a tabulated wavelength) works.
"""
import glob
import os
import shutil
import sys

sys.path.insert(0, os.path.dirname(os.path.abspath(__file__)))
from _common import build_per_file_package, u

from sedfitter.convolve import convolve_model_dir_monochromatic

wav = [1.0, 2.0, 4.0, 8.0]           # micron, tabulated wavelengths
d, seds, pn = build_per_file_package(wav, n_ap=2, names=['model_a', 'model_b'])

# File numbering follows increasing frequency: MO001 = 8 um ... MO004 = 1 um
index_of = {8.0: 1, 4.0: 2, 2.0: 3, 1.0: 4}

failures = []


def run(wmin, wmax, max_ram):
    shutil.rmtree(os.path.join(d, 'convolved'), ignore_errors=True)
    expected = sorted('MO%03d.fits' % index_of[w] for w in wav if wmin <= w <= wmax)
    label = "window [%g, %g] micron, max_ram=%g" % (wmin, wmax, max_ram)
    try:
        convolve_model_dir_monochromatic(d, max_ram=max_ram,
                                         wav_min=wmin * u.micron, wav_max=wmax * u.micron)
    except Exception as exc:
        failures.append("%s: expected files %s but the call raised %r" % (label, expected, exc))
        return
    got = sorted(os.path.basename(f) for f in glob.glob(os.path.join(d, 'convolved', '*')))
    if got != expected:
        failures.append("%s: expected files %s, got %s" % (label, expected, got))


bytes_per_wav = 8 * 2 * 2   # 4 * 2 * n_models * n_ap
for chunk in (1, 2, 4):
    max_ram = (chunk + 0.5) * bytes_per_wav / 1024. ** 3
    run(2.0, 8.0, max_ram)   # (a) both ends on tabulated wavelengths
    run(2.0, 2.0, max_ram)   # (b) single tabulated wavelength
    run(1.5, 2.0, max_ram)   # (c) holds exactly one wavelength, upper end on it
    run(2.0, 3.0, max_ram)   # control: lower end on a wavelength -> works
run(2.0, 8.0, 8)             # default memory limit

# The control case must not be among the failures (shows the asymmetry)
assert not any('[2, 3]' in f for f in failures), failures

shutil.rmtree(d)

assert not failures, (
    "C16 violated: a tabulated wavelength equal to wav_max is not written "
    "(wav_min is inclusive, wav_max exclusive), and single-wavelength windows "
    "ending on a tabulated wavelength crash:\n  " + "\n  ".join(failures))
print("C16_1: no violation")
