import os, tempfile, shutil, sys, glob
import numpy as np
from astropy import units as u
from astropy.table import Table
from sedfitter.convolve import convolve_model_dir_monochromatic
from sedfitter.convolved_fluxes import ConvolvedFluxes
sys.path.insert(0, os.path.dirname(__file__))
from e2e1 import write_sed
c = 299792458.

def build(rng, n_wav, n_ap, n_models, wav_um=None):
    d = tempfile.mkdtemp(); os.mkdir(d + '/seds')
    if wav_um is None:
        wav_um = np.sort(rng.uniform(0.5, 500, n_wav))
    nu = c / wav_um * 1e6   # decreasing
    wav_um = c / nu * 1e6  # as stored in the files
    ap = np.sort(rng.uniform(10, 1000, n_ap))
    pool = ['m_1', 'm_10', 'm_2', 'B', 'a', 'Zz', 'model_x', 'model']; rng.shuffle(pool)
    names = pool[:n_models]; seds = {}
    for name in names:
        o = slice(None, None, -1) if rng.random() < .5 else slice(None)
        flux = rng.uniform(0.1, 10, (n_ap, n_wav)); err = rng.uniform(0.01, 1, (n_ap, n_wav))
        sub = rng.random() < .3
        if sub and not os.path.exists(d + '/seds/sub'): os.mkdir(d + '/seds/sub')
        write_sed(d + '/seds/' + ('sub/' if sub else '') + name + '_sed.fits', name, nu[o], flux[:, o], err[:, o], ap,
                  nu_unit=rng.choice(['Hz', 'GHz']), wav_unit='um', flux_unit=rng.choice(['mJy', 'Jy', 'erg/(cm2 s)', 'erg/s']), gz=rng.random() < .3)
        seds[name] = (flux, err)
    with open(d + '/models.conf', 'w') as f:
        f.write("name = test\nlength_subdir = 0\naperture_dependent = %s\nlogd_step = 0.02\n" % ('yes' if n_ap > 1 else 'no'))
    perm = rng.permutation(n_models)
    t = Table(); t['MODEL_NAME'] = np.array([names[k] for k in perm], dtype='S30'); t['par1'] = rng.random(n_models); t.write(d + '/parameters.fits')
    return d, wav_um, [names[k] for k in perm], seds

def check(d, wav_um, order, seds, n_ap, kwargs, lo, hi):
    n_wav = len(wav_um)
    res = convolve_model_dir_monochromatic(d, **kwargs)
    files = sorted(os.path.basename(x) for x in glob.glob(d + '/convolved/*'))
    inside = [k for k in range(n_wav) if lo <= wav_um[k] < hi]
    # file index: position in increasing-frequency order (1-based)
    exp_files = sorted('MO%03d.fits' % (n_wav - k) for k in inside)
    assert files == exp_files, (files, exp_files, wav_um, lo, hi, kwargs)
    # table
    named = [(float(w), (f.decode() if isinstance(f, bytes) else str(f))) for w, f in zip(res['wav'].quantity.to(u.micron).value if hasattr(res['wav'], 'quantity') else res['wav'], res['filter']) if len(f) > 0]
    assert sorted(n for _, n in named) == sorted(x[:-5] for x in exp_files), (named, exp_files)
    for w, n in named:
        k = n_wav - int(n[2:])
        assert abs(w - wav_um[k]) < 1e-9 * wav_um[k], (w, wav_um[k])
        cf = ConvolvedFluxes.read(d + '/convolved/' + n + '.fits')
        assert list(np.char.strip(cf.model_names)) == order
        assert abs(cf.central_wavelength.to(u.micron).value - wav_um[k]) < 1e-9 * wav_um[k]
        for row, name in enumerate(order):
            flux, err = seds[name]
            assert np.allclose(cf.flux[row].to(u.mJy).value, flux[:, k], rtol=1e-10, atol=0), (cf.flux[row], flux[:, k])
            assert np.allclose(cf.error[row].to(u.mJy).value, err[:, k], rtol=1e-10, atol=0)
    shutil.rmtree(d + '/convolved')

def run(seed):
    rng = np.random.default_rng(seed)
    n_wav = rng.integers(2, 10); n_ap = rng.integers(1, 4); n_models = rng.integers(1, 6)
    d, wav_um, order, seds = build(rng, n_wav, n_ap, n_models)
    # window edges candidates: on and between
    edges = [-np.inf] + sorted(list(wav_um) + list(0.5 * (wav_um[1:] + wav_um[:-1])) + [wav_um[0] * 0.5, wav_um[-1] * 2]) + [np.inf]
    count = 0
    for cs in range(1, n_wav + 1):
        max_ram = (cs + 0.5) * 8. * n_models * n_ap / 1024. ** 3
        for a in edges:
            for b in edges:
                if not a < b: continue
                if not any(a <= w < b for w in wav_um): continue
                if rng.random() > 0.15: continue
                unit = rng.choice(['um', 'mm', 'Angstrom', 'cm'])
                kwargs = dict(max_ram=max_ram)
                if np.isfinite(a) or rng.random() < .5: kwargs['wav_min'] = (a * u.micron).to(unit) if unit == 'um' or not np.isfinite(a) else (a * u.micron)
                if np.isfinite(b) or rng.random() < .5: kwargs['wav_max'] = (b * u.micron)
                check(d, wav_um, order, seds, n_ap, kwargs, a, b); count += 1
    check(d, wav_um, order, seds, n_ap, {}, -np.inf, np.inf)
    shutil.rmtree(d)
    return count
if __name__ == '__main__':
    tot = 0
    for seed in range(int(sys.argv[1]), int(sys.argv[2])):
        tot += run(seed)
    print('checked', tot)
