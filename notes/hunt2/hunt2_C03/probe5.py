import sys; sys.path.insert(0,'hunt_out')
from harness import *
from astropy.table import Table
from sedfitter import fit, write_parameters, write_parameter_ranges, extract_parameters, filter_output
from sedfitter.fit_info import FitInfoFile
np.seterr(all='ignore')
d=tempfile.mkdtemp(); w=tempfile.mkdtemp()
nf=5; nmod=9
filt=make_models(d, nf=nf, apdep=False, nmod=nmod)
t=Table(); t['MODEL_NAME']=np.array(['m%03d'%i for i in range(nmod)],dtype='S30'); t['p1']=np.arange(nmod)*1.; t.write(d+'/parameters.fits')
lines=[
 "s1 0 0 1 1 1 0 9  3.0 0.3 5.0 0.5 7.0 0.7 -999 -999 nan nan",
 "s2 0 0 1 4 3 2 1  3.0 0.3 0.6 0.05 7.0 0.9 2.0 0.5 6. 1.",
 "s3 0 0 9 9 1 1 1  0 0 -1 -1 7.0 0.9 2.0 0.5 6. 1.",
 "s4 0 0 1 1 3 3 3  3.0 0.3 5.0 0.5 0.001 1 0.001 1 0.001 1",
 "s5 0 0 1 1 0 0 0  3.0 0.3 5.0 0.5 0.001 1 0.001 1 0.001 1",
]
open(w+'/data','w').write("\n".join(lines)+"\n")
for sel in [('A',),('N',4),('C',50.),('D',30.),('E',20.),('F',10.)]:
    out=w+'/out_%s'%sel[0]
    fit(w+'/data', filt, [3.]*nf*u.arcsec, d, out, n_data_min=2, extinction_law=ext(), av_range=[0.,10.], distance_range=[0.5,3.]*u.kpc, output_format=sel, output_convolved=True)
full={i.source.name:i for i in FitInfoFile(w+'/out_A','r')}
for sel in [('N',4),('C',50.),('D',30.),('E',20.),('F',10.)]:
    for i in FitInfoFile(w+'/out_%s'%sel[0],'r'):
        f=full[i.source.name]; c=f.chi2; nd=i.source.n_data
        exp={'N':np.arange(len(c))<sel[1],'C':c<sel[1],'D':c-c[0]<sel[1],'E':c/nd<sel[1],'F':(c-c[0])/nd<sel[1]}[sel[0]]
        k=exp.sum()
        print(sel, i.source.name, nd, list(i.source.valid), k, len(i.chi2), np.array_equal(i.chi2,c[:k],equal_nan=True), np.array_equal(i.model_name,f.model_name[:k]), i.model_fluxes.shape)
for i in full.values(): print(i.source.name, i.chi2)
write_parameters(w+'/out_A', w+'/pars.txt', select_format=('F',10.))
print(open(w+'/pars.txt').read())
write_parameter_ranges(w+'/out_A', w+'/parr.txt', select_format=('E',20.))
print(open(w+'/parr.txt').read())
