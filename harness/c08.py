"""C08 — plant a model, run the whole pipeline (convolve_model_dir, fit(), write_parameters), recover it."""
import math
import os
import tempfile
from fractions import Fraction

import common
from common import Rng, F, close
import pkgcase
import fitcase

PROP = 'C08'
MODEL_OPS = 'ConvDirM.conv_dir1_m / conv_dir2_m -> FitModel.fit2_pkg / fit3_pkg -> rank_m -> FTable.filter_table_m (composition)'
RULE = ('packages with 2-8 models, 1-4 apertures, 3 filters, permuted parameter table, both formats; photometry synthesised from the implementation\'s own convolved fluxes '
        'of model m at a planted A_V inside the range and a planted scale (aperture-independent) or grid distance (aperture-dependent), as flag-1 data with relative error '
        '1e-4..0.5 or flag-4 data, preceded in the same data file by 0-2 other sources (other planted models and A_V); convolve_model_dir, fit() to a file, write_parameters; first record and first listing row compared with the planted truth and the model. '
        'non-trivial = the runner-up has chi2 > 1e-6 (non-degenerate package) and the regression is well conditioned.')
EXHAUSTIVE = {'quick': False, 'thorough': False}
ASSUMPTIONS = ['cube packages are fitted by fit() from float32 memory maps whose log10 is taken in float32: one model log flux is off by up to eps = 4 ulp32(|log10 F|) + 1e-7 (per-file packages: 1e-12)',
               '"~" is quantified by error propagation: |A_V - A_V0| <= 4 eps x (sum of |row| of (A^T A)^-1 A^T) + 1e-9 (1 + A_V0), same for the scale, chi2 <= 1e-6 + 3 w (2 eps)^2',
               'flag-1 data are read by the fitter as log10 F - (sigma/F)^2/(2 ln10) (C03): aperture-independent cases leave it in and expect the scale shifted by (sigma/F)^2/(4 ln10) (C08_bias); distance-dependent cases plant the flux whose fitter-side log flux is the model\'s',
               'planted A_V0 k(lambda) that under/overflows float64 photometry is skipped (counted)',
               'packages whose runner-up also has chi2 <= 1e-6 are degenerate (outside the quantifier) and skipped (counted)']


def generate(tier, seed):
    rng = Rng(seed * 217645199 + 8)
    cases = []
    for k in range(40 if tier == 'quick' else 500):
        mode = '2d' if k % 2 == 0 else '3d'
        pkg = pkgcase.gen_package(rng, nm=rng.randint(2, 8), nap=1 if mode == '2d' else rng.randint(2, 4), nfilt=3)
        for f, w in zip(pkg['filters'], rng.sample([0.4, 0.8, 1.25, 2.2, 4.5, 8.0, 24.0], 3)):
            f['wav'] = w
        ext = fitcase.gen_ext(rng, [f['wav'] for f in pkg['filters']])
        ext['wav'][0], ext['wav'][-1] = min(ext['wav'][0], 0.05), max(ext['wav'][-1], 100.0)
        c = dict(mode=mode, fmt=rng.choice(['v1', 'v2']), pkg=pkg, ext=ext, planted=rng.choice(pkg['names']), av0=rng.dyadic(0.0, 20.0, 8), av_range=[0.0, 40.0],
                 flag=rng.choice([1, 1, 4]), rel=rng.choice([1e-4, 1e-3, 0.01, 0.1, 0.5]), memmap=rng.random() < 0.5)
        if mode == '2d':
            c['sc0'] = rng.dyadic(-2.0, 2.0, 10)
        else:
            c['theta'] = [rng.dyadic(1.0, 8.0, 6) for _ in range(3)]
            amin, amax = pkg['aps'][0], pkg['aps'][-1]
            tmax = max(c['theta'])
            tmin = min(c['theta'])
            dmin = amin / (tmin * 1000.0) * rng.dyadic(1.05, 2.0, 6)
            c['drange'] = [dmin, dmin * rng.logdyadic(2.0, 30.0, 6)]
            c['logd_step'] = rng.choice([0.05, 0.1, 0.25])
            c['dindex'] = rng.random()
        # other sources fitted before the planted one in the same fit() call (the planted source's result must not depend on them)
        c['decoys'] = [dict(model=rng.choice(pkg['names']), av0=rng.dyadic(0.0, 20.0, 8), sc0=rng.dyadic(-2.0, 2.0, 10), dindex=rng.random())
                       for _ in range(rng.choice([0, 1, 2]))]
        if c['fmt'] == 'v1' and k % 5 == 3 and len(pkg['par_order']) > 1:
            # history: one filter is convolved, the parameter table is rewritten with its rows in another order, then the other filters are convolved
            po = list(pkg['par_order'])
            while po == pkg['par_order']:
                rng.shuffle(po)
            c['reconv'] = po
        cases.append(c)
    return cases


def impl(case):
    import numpy as np
    from astropy import units as u
    from sedfitter.convolve import convolve_model_dir
    from sedfitter import fit, write_parameters
    from sedfitter.fit_info import FitInfoFile
    pkg = case['pkg']
    names = [f['name'] for f in pkg['filters']]
    with tempfile.TemporaryDirectory() as d:
        (pkgcase.write_v1 if case['fmt'] == 'v1' else pkgcase.write_v2)(d, pkg, logd_step=case.get('logd_step', 0.02))
        if case.get('reconv'):
            filts = pkgcase.make_filters(pkg)
            convolve_model_dir(d, filts[:1])
            os.remove(os.path.join(d, 'parameters.fits'))
            pkgcase.write_params(d, dict(pkg, par_order=case['reconv']))
            convolve_model_dir(d, filts[1:])
        else:
            convolve_model_dir(d, pkgcase.make_filters(pkg))
        conv = {n: pkgcase.read_convolved(d, n) for n in names}
        grid = None
        if case['fmt'] == 'v1' and case['mode'] == '2d':
            # the model grid as Models.read puts it together from the convolved files (ReadM.read_files answers for it)
            from sedfitter.models import Models
            mm = Models.read(d, [dict(name=n, aperture_arcsec=3.0) for n in names])
            grid = dict(names=[str(x).strip() for x in mm.names], flux=[[float(v) for v in row] for row in np.asarray(mm.fluxes.to(u.mJy).value)])
        ext = fitcase.make_extinction(case['ext'])
        wavs = np.array([f['wav'] for f in pkg['filters']]) * u.micron       # the filters' own central wavelengths (not what the convolved files say)
        ks = np.asarray(ext.get_av(wavs))
        d0s = []

        def synth(label, planted, av0, sc0, dindex):
            mi_ = {n: conv[n]['names'].index(planted) for n in names}      # row of the planted model in each file, by name
            if case['mode'] == '2d':
                logf = np.array([np.log10(conv[n]['flux'][mi_[n]][0]) for n in names]) + av0 * ks - 2.0 * sc0
                d0s.append(None)
            else:
                d0r, d1r = case['drange']
                ng = fitcase.n_grid(case)[0]
                grid = np.logspace(np.log10(d0r), np.log10(d1r), ng)
                d0 = float(grid[min(int(dindex * ng), ng - 1)])
                d0s.append(d0)
                fl = []
                for j, n in enumerate(names):
                    aps = np.array(conv[n]['apertures'])
                    ap = min(theta[j] * d0 * 1000.0, aps.max())
                    fl.append(np.interp(ap, aps, conv[n]['flux'][mi_[n]]) / d0 ** 2)
                logf = np.log10(np.array(fl)) + av0 * ks
            if case['flag'] == 1:
                # the fitter reads linear (F, sigma) as the log-normal mean log10 F - (sigma/F)^2 / (2 ln 10) (C03); with a fixed distance grid that
                # shift cannot be absorbed by the scale, so distance-dependent cases plant the flux whose fitter-side log flux is the model's
                flux = 10.0 ** (logf + (0.5 * case['rel'] ** 2 / np.log(10.) if case['mode'] == '3d' else 0.0))
                return [label, '0.0', '0.0', '1', '1', '1'] + [repr(float(x)) for pair in zip(flux, flux * case['rel']) for x in pair]
            return [label, '0.0', '0.0', '4', '4', '4'] + [repr(float(x)) for pair in zip(logf, [case['rel'] / np.log(10.)] * 3) for x in pair]
        if case['mode'] == '2d':
            drange = np.array([1.0, 2.0]) * u.kpc
            theta = [3.0] * 3
        else:
            theta = case['theta']
            drange = np.array(case['drange']) * u.kpc
        decoys = [synth('decoy_%d' % i, dc['model'], dc['av0'], dc['sc0'], dc['dindex']) for i, dc in enumerate(case.get('decoys', []))]
        cols = synth('src_plant', case['planted'], case['av0'], case.get('sc0'), case.get('dindex'))
        d0 = d0s[-1]
        data = os.path.join(d, 'data.txt')
        open(data, 'w').write(''.join(' '.join(c) + '\n' for c in decoys + [cols]))
        out = os.path.join(d, 'out.fitinfo')
        fit(data, names, np.array(theta) * u.arcsec, d, out, n_data_min=1, extinction_law=ext, av_range=tuple(case['av_range']), distance_range=drange,
            output_format=('A', 0.), output_convolved=False)
        fin = FitInfoFile(out, 'r')
        info = [i for i in fin if i.source.name == 'src_plant'][0]
        fin.close()
        rec = fitcase.info_out(info)
        txt = os.path.join(d, 'pars.txt')
        write_parameters(out, txt, select_format=('N', 1))
        lines = [l.split() for l in open(txt).read().split('\n')[3:] if l.strip()][2 * len(decoys):]
        # the object interface, with ONE Source object: first fitted with other photometry (the planted one shifted by a dex in one band),
        # then its arrays are updated in place to the planted photometry and it is fitted again
        from sedfitter.fit import Fitter
        from sedfitter.source import Source
        fitter = Fitter(names, np.array(theta) * u.arcsec, d, extinction_law=ext, av_range=tuple(case['av_range']), distance_range=drange)
        planted = Source.from_ascii(' '.join(cols))
        obj = Source.from_ascii(' '.join(cols))
        if case['flag'] == 1:
            obj.flux[0] = obj.flux[0] * 10.0
            obj.error[0] = obj.error[0] * 10.0
        else:
            obj.flux[0] = obj.flux[0] + 1.0
        fitter.fit(obj)
        obj.flux[:] = planted.flux
        obj.error[:] = planted.error
        rec2 = fitcase.info_out(fitter.fit(obj))
    return dict(rec_inplace=dict(model_name=rec2['model_name'][:1], av=rec2['av'][:1], sc=rec2['sc'][:1], chi2=rec2['chi2'][:1]), rec=dict(model_name=rec['model_name'][:3], av=rec['av'][:3], sc=rec['sc'][:3], chi2=rec['chi2'][:3]), listing=lines[:2], d0=d0, ks=[float(x) for x in ks],
                data=cols, filtwav=[conv[n]['filtwav'] for n in names], conv={n: conv[n] for n in names}, grid=grid)


MODEL_NEEDS_IMPL = True


def model_requests(case, im):
    if not isinstance(im, dict) or 'data' not in im:
        return []
    pkg = case['pkg']
    # phase 1: the model's own convolved rows (by name)
    par = [pkgcase.key(n) for n in pkg['par_order']]
    reqs = []
    for k, f in enumerate(pkg['filters']):
        if case['fmt'] == 'v1':
            files = [[pkgcase.key(pkg['fnames'][n]), pkgcase.sedm(pkg, n)] for n in pkg['names']]
            reqs.append(('conv_dir1', [pkgcase.filt_pts(pkg, k), f['normalize'], files, par]))
        else:
            cube = [pkgcase.sedm(pkg, n, order=pkg['cube_order']) for n in pkg['par_order']]
            reqs.append(('conv_dir2', [pkgcase.filt_pts(pkg, k), f['normalize'], cube, par]))
    rows = common.run_model(reqs, nproc=1)
    if any(isinstance(r, tuple) or r == [] for r in rows):
        return [('rank', [[]])]
    rows = [r[0] for r in rows]                      # per filter: list of [namekey, flux per ap, var per ap] in parameter order
    d = im['data']
    flags = [int(x) for x in d[3:6]]
    vals = [float(x) for x in d[6:]]
    raws = [[flags[j], F(vals[2 * j]), F(vals[2 * j + 1])] for j in range(3)]
    ext = fitcase.ext_tab(case['ext'])
    wavs = [F(f['wav']) for f in pkg['filters']]
    lo, hi = F(case['av_range'][0]), F(case['av_range'][1])
    nm = len(pkg['par_order'])
    if case['mode'] == '2d':
        models = [[rows[j][i][1][0] for j in range(3)] for i in range(nm)]
        reqs2 = [('fit2_pkg', [ext, F(fitcase.V_UM), wavs, lo, hi, raws, models])]
        if im.get('grid'):
            # the convolved files as the implementation wrote them (row order of each file), keyed by name
            files = [[[pkgcase.key(nme), [F(v) for v in fl]] for nme, fl in zip(im['conv'][f['name']]['names'], im['conv'][f['name']]['flux'])] for f in pkg['filters']]
            reqs2.append(('read_files', [files]))
        return reqs2
    ds, logds = fitcase.grid_of(case)
    models = [[[[F(a), rows[j][i][1][t]] for t, a in enumerate(pkg['aps'])] for j in range(3)] for i in range(nm)]
    return [('fit3_pkg', [ext, F(fitcase.V_UM), wavs, lo, hi, raws, [F(t) for t in case['theta']], [F(x) for x in ds], [F(x) for x in logds], models])]


def judge(case, im, mo):
    pkg = case['pkg']
    tags = ['mode=' + case['mode'], 'fmt=' + case['fmt'], 'flag=%d' % case['flag'], 'rel=%g' % case['rel'], 'reconv=%s' % bool(case.get('reconv'))]
    if 'exc' in im:
        return dict(disagree=['implementation raised ' + im['msg']], fail=['raised: %s' % im['msg']], nontrivial=False, tags=tags + ['raised'])
    if not mo or isinstance(mo[0], tuple):
        return dict(disagree=['driver %r' % (mo[:1],)], fail=[], nontrivial=False)
    disagree, fail = [], []
    rec = im['rec']
    m = mo[0]
    # conditioning of the regression at the filter wavelengths
    import c01
    _, _, cond = c01.conditioning(dict(src=dict(flags=[1, 1, 1], flux=[1.0, 1.0, 1.0], err=[0.1, 0.1, 0.1]), ext=case['ext'], wav=[f['wav'] for f in pkg['filters']]))
    if case['mode'] == '2d' and cond > 1e5:
        return dict(disagree=[], fail=[], nontrivial=False, tags=tags + ['ill-conditioned-skipped'])
    if len(rec['chi2']) > 1 and rec['chi2'][1] <= 1e-6:
        return dict(disagree=[], fail=[], nontrivial=False, tags=tags + ['degenerate-skipped'])
    data = [float(x) for x in im['data'][6:]]
    if any(not math.isfinite(x) for x in data) or (case['flag'] == 1 and any(x <= 1e-300 or x >= 1e300 for x in data)):
        return dict(disagree=[], fail=[], nontrivial=False, tags=tags + ['photometry-under/overflow-skipped'])    # A_V0 k(lambda) beyond the float64 range: no such photometry exists
    bias = 0.0
    if case['flag'] == 1 and case['mode'] == '2d':
        bias = 0.25 * case['rel'] ** 2 / math.log(10.0)
    f32 = case['fmt'] == 'v2'      # fit() memory-maps cube packages: model fluxes are stored as float32 and their log10 is taken in float32
    logs = [abs(math.log10(x)) for x in data[0::2]] if case['flag'] == 1 else [abs(x) for x in data[0::2]]
    ulp32 = 2.0 ** (math.floor(math.log2(max(max(logs), 1.0))) - 23)
    eps = (4 * ulp32 + 1e-7) if f32 else 1e-12          # bound on the error of one model log flux
    ks = im['ks']
    if case['mode'] == '2d':      # sensitivity of the two fitted parameters to a perturbation of the three log fluxes: rows of (A^T A)^-1 A^T, A = [k_i, -2]
        m11, m12, m22 = sum(k * k for k in ks), sum(-2 * k for k in ks), 4.0 * len(ks)
        det = m11 * m22 - m12 * m12
        amp_av = sum(abs((m22 * k - m12 * -2) / det) for k in ks)
        amp_sc = sum(abs((-m12 * k + m11 * -2) / det) for k in ks)
    else:
        amp_av = sum(abs(k) for k in ks) / sum(k * k for k in ks)
        amp_sc = 0.0
    tol_av = 4 * eps * amp_av + 1e-9 * (1 + case['av0'])
    tol_sc = 4 * eps * amp_sc + 1e-9
    if tol_av > 0.5 or tol_sc > 0.05:
        return dict(disagree=[], fail=[], nontrivial=False, tags=tags + ['ill-conditioned-skipped'])
    wmax = (math.log(10.0) / case['rel']) ** 2
    chi_tol = 1e-6 + 3 * wmax * (2 * eps) ** 2
    want_sc = (case['sc0'] + bias) if case['mode'] == '2d' else math.log10(im['d0'])
    # ---- the model's own first rank
    res = m[2] if case['mode'] == '2d' else (m[2][0] if m[2] else None)
    if res is None:
        disagree.append('model refuses the apertures')
    else:
        chis = [float(r[2]) if not isinstance(r[2], float) else r[2] for r in res]
        best = min(range(len(chis)), key=lambda i: chis[i])
        mname = pkg['par_order'][best]
        if mname != rec['model_name'][0]:
            disagree.append('model ranks %s first, implementation %s' % (mname, rec['model_name'][0]))
        else:
            r = res[best]
            if abs(rec['av'][0] - float(r[0])) > tol_av or abs(rec['sc'][0] - float(r[1])) > tol_sc:
                disagree.append('first record (A_V, scale) = (%r, %r), model (%r, %r)' % (rec['av'][0], rec['sc'][0], float(r[0]), float(r[1])))
    # ---- the grid put together from the convolved files (ReadM.read_files)
    if im.get('grid') and len(mo) > 1:
        g = mo[1]
        tags.append('grid')
        if isinstance(g, tuple) or g == []:
            disagree.append('model read_files refuses the files (%r)' % (g,))
        else:
            keys = [pkgcase.key(n) for n in im['grid']['names']]
            for j, col in enumerate(g[0]):
                if [int(r[0]) for r in col] != keys:
                    disagree.append('grid: model order of band %d is %r, implementation %r' % (j, [int(r[0]) for r in col], keys))
                    break
                if any(abs(float(r[1][0]) - im['grid']['flux'][i][j]) > 1e-12 * abs(float(r[1][0])) for i, r in enumerate(col)):
                    disagree.append('grid: fluxes of band %d differ from the by-name rows of its convolved file' % j)
                    break
            # property side: the row of the grid labelled X carries X's own flux of every file
            for i, nme in enumerate(im['grid']['names']):
                for j, f in enumerate(pkg['filters']):
                    cf = im['conv'][f['name']]
                    own = cf['flux'][cf['names'].index(nme)][0]
                    if abs(own - im['grid']['flux'][i][j]) > 1e-12 * abs(own):
                        fail.append('grid: the model grid holds %r for model %s in band %s; the convolved file lists %r for that model' % (im['grid']['flux'][i][j], nme, f['name'], own))
                        break
                if fail:
                    break
    # ---- the same source object fitted before with other photometry and then updated in place
    r2 = im.get('rec_inplace')
    if r2 and rec['model_name'][0] == case['planted']:
        if r2['model_name'][0] != rec['model_name'][0] or abs(r2['av'][0] - rec['av'][0]) > tol_av or abs(r2['sc'][0] - rec['sc'][0]) > tol_sc or abs(r2['chi2'][0] - rec['chi2'][0]) > chi_tol:
            fail.append('inplace: a Source object fitted before with other photometry and then updated in place gives %s (A_V %r, scale %r, chi2 %r); the planted source read from the file gives %s (%r, %r, %r)'
                        % (r2['model_name'][0], r2['av'][0], r2['sc'][0], r2['chi2'][0], rec['model_name'][0], rec['av'][0], rec['sc'][0], rec['chi2'][0]))
    # ---- property
    if rec['model_name'][0] != case['planted']:
        fail.append('first: model %s is ranked first, %s was planted' % (rec['model_name'][0], case['planted']))
    else:
        if rec['chi2'][0] > chi_tol:
            fail.append('chi2: planted model has chi2 %r' % rec['chi2'][0])
        if abs(rec['av'][0] - case['av0']) > tol_av:
            fail.append('av: A_V %r recovered, %r planted' % (rec['av'][0], case['av0']))
        if abs(rec['sc'][0] - want_sc) > tol_sc:
            fail.append('scale: scale %r recovered, %r planted%s' % (rec['sc'][0], want_sc, ' (incl. the log-normal bias)' if bias else ''))
        lst = im['listing']
        if len(lst) < 2 or lst[1][1] != case['planted'] or abs(float(lst[1][5]) - pkg['par1'][case['planted']]) > 6e-4 * abs(pkg['par1'][case['planted']]) + 1e-12:
            fail.append('listing: first listing row %r does not carry the parameters of %s (par1 = %r)' % (lst[1] if len(lst) > 1 else None, case['planted'], pkg['par1'][case['planted']]))
    return dict(disagree=disagree[:3], fail=fail[:4], nontrivial=True, tags=tags)


def signature(case, im, mo, v):
    return None
