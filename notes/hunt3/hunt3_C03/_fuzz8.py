import sys
sys.path.insert(0, '/tmp/hunt3_C03/hunt_out')
from _common import *
from sedfitter.fit import Fitter, fit
from sedfitter.fit_info import FitInfoFile
from sedfitter.source import Source
rng = np.random.default_rng(8)
nm, nf = 9, 5
names = ['m%03d' % i for i in range(nm)]
wavs = [0.5, 1.2, 3.6, 8.0, 24.]
fn = ['f%d' % i for i in range(nf)]
aps = np.logspace(1, 6, 8) * u.au
fl_dep = np.cumsum(10 ** rng.uniform(-1, 1, (nm, 8, nf)), axis=1)
fl_ind = 10 ** rng.uniform(-1, 2, (nm, 1, nf))
ext = extinction()
for dep in (False, True):
    d = write_v1(names, fl_dep if dep else fl_ind, wavs, fn, apertures=aps if dep else None)
    kw = dict(extinction_law=ext, av_range=[0., 4.])
    if dep: kw.update(distance_range=[0.5, 3.] * u.kpc, remove_resolved=True)
    F = quiet(Fitter, fn, [3.] * nf * u.arcsec, d, **kw)
    lines = []
    for i in range(12):
        full = rng.choice([0, 1, 1, 1, 2, 3, 4, 9], size=nf)
        flux = 10 ** rng.uniform(-1, 2, nf); err = flux * rng.uniform(0.02, 0.3, nf)
        lim = (full == 2) | (full == 3); err[lim] = rng.choice([0., 1., 0.5], size=lim.sum())
        f4 = full == 4
        lf = np.log10(flux) - 0.5 * (err / flux) ** 2 / np.log(10); le = np.abs(err / flux) / np.log(10)
        flux[f4] = lf[f4]; err[f4] = le[f4]
        un = (full == 0) | (full == 9)
        flux[un] = -999.; err[un] = -999.
        lines.append("s%d 1.0 2.0 " % i + " ".join(str(v) for v in full) + " " + " ".join("%r %r" % (float(a), float(b)) for a, b in zip(flux, err)))
    tmp = tempfile.mkdtemp()
    open(tmp + '/data', 'w').write("\n".join(lines) + "\n")
    quiet(fit, tmp + '/data', fn, [3.] * nf * u.arcsec, d, tmp + '/out', n_data_min=2, output_format=('A',), output_convolved=True, **kw)
    got = {i.source.name: i for i in FitInfoFile(tmp + '/out', 'r')}
    for l in lines:
        s = Source.from_ascii(l)
        if s.n_data < 2:
            assert s.name not in got; continue
        r = F.fit(s); g = got[s.name]
        assert np.array_equal(r.chi2, g.chi2, equal_nan=True) and np.array_equal(r.av, g.av, equal_nan=True) and np.array_equal(r.sc, g.sc) and np.array_equal(r.model_name, g.model_name) and np.array_equal(r.model_fluxes, g.model_fluxes, equal_nan=True), s.name
        assert g.source == s
print('ok')
