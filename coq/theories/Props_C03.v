(* C03 — data flags mean what the data-format page says.
   Model: Flags.get_log_fluxes_m / chi_term / chi2_m, FitCore.fit2_avsc, Fit3.optscale_av_m.  Proofs: Flags, FlagsProofs, FitModelProofs. *)
From Coq Require Import QArith List ZArith Bool.
Import ListNotations.
From SedV Require Import Clamp FitCore Flags Fit3 FitModel FitModelProofs FlagsProofs FitMask.
Open Scope Q_scope.

(* rows built from any source have zero weight off flags 1 and 4 (so the hypotheses below are met by every source) *)
Theorem C03_weights : forall lg ln10 raws alaw lms, Forall wf_row (mkrows (bands_of lg ln10 raws) alaw lms).
Proof. exact mkrows_wf. Qed.

(* bands that are not fitted (flags 0, 9 and the limits 2, 3) never enter the least-squares solution, whatever they carry:
   2-D (A_V, scale) and the one-distance A_V of the aperture-dependent branch *)
Theorem C03_not_in_lsq : forall lo hi rows rows',
  Forall2 same_fitted rows rows' -> Forall wf_row rows ->
  let '(av, sc) := fit2_avsc lo hi rows in let '(av', sc') := fit2_avsc lo hi rows' in av == av' /\ sc == sc'.
Proof. exact lsq_blind_to_unfitted. Qed.

Theorem C03_not_in_lsq_3d : forall rows rows',
  Forall2 same_fitted rows rows' -> Forall wf_row rows -> optscale_av_m rows == optscale_av_m rows'.
Proof. exact lsq3_blind_to_unfitted. Qed.

(* flags 0 and 9 do not influence chi^2 either *)
Theorem C03_unused_chi2 : forall pen rows rows' av sc,
  Forall2 same_but_unused rows rows' -> Forall wf_row rows ->
  chi2_m pen rows av sc == chi2_m pen rows' av sc.
Proof. exact chi2_blind_to_unused. Qed.

Theorem C03_chi2_respects_eq : forall pen rows av av' sc sc', av == av' -> sc == sc' ->
  chi2_m pen rows av sc == chi2_m pen rows av' sc'.
Proof. exact chi2_proper. Qed.

(* a limit adds its penalty when and only when the fitted model is on the forbidden side *)
Theorem C03_penalty : forall pen rows av sc, Forall wf_row rows ->
  chi2_m pen rows av sc == S rows av sc + qsum (fun r => pen_term pen r (av * r_a r + sc * r_s r)) rows.
Proof. exact chi2_is_S_plus_penalties. Qed.

(* confidence 0 is equivalent to flag 0; a violated limit of confidence 1 gives chi^2 >= 1e30 *)
Theorem C03_conf0 : forall pen r m, wf_row r -> (b_flag (r_b r) = 2 \/ b_flag (r_b r) = 3)%Z ->
  b_le (r_b r) = 0 -> pen 0 = Some 0 -> chi_term pen r m == 0.
Proof. exact conf0_is_unused. Qed.

Theorem C03_conf1 : forall pen rows av sc r, In r rows ->
  Forall (fun x => 0 <= w x) rows -> (forall c q, pen c = Some q -> 0 <= q) ->
  ((b_flag (r_b r) = 2)%Z /\ av * r_a r + sc * r_s r < resid r \/ (b_flag (r_b r) = 3)%Z /\ resid r < av * r_a r + sc * r_s r) ->
  pen (b_le (r_b r)) = None -> big <= chi2_m pen rows av sc.
Proof. exact conf1_gives_huge. Qed.

(* flag 4 carrying the transformed values is the same band as flag 1 *)
Theorem C03_flag4 : forall lg ln10 f e,
  let b1 := get_log_fluxes_m lg ln10 {| rb_flag := 1; rb_flux := f; rb_err := e |} in
  let b4 := get_log_fluxes_m lg ln10 {| rb_flag := 4; rb_flux := b_lf b1; rb_err := b_le b1 |} in
  b_lf b4 = b_lf b1 /\ b_le b4 = b_le b1 /\ b_w b4 = b_w b1.
Proof. exact Flags.C03_flag4. Qed.

Example C03_example :
  n_data_m [ {| rb_flag := 1; rb_flux := 1; rb_err := 1 |}; {| rb_flag := 9; rb_flux := -999; rb_err := 0 |};
             {| rb_flag := 4; rb_flux := 1; rb_err := 1 |}; {| rb_flag := 2; rb_flux := 1; rb_err := 1 |} ] = 2%nat.
Proof. reflexivity. Qed.

(* --- the remove_resolved step (FitMask): which (model, distance) entries are removed depends only on the bands that constrain
   the fit.  Flags 0 and 9 and confidence-0 limits are not looked at, whatever values they carry and whatever the resolved-mask
   says about their band; fitted bands and limits with non-zero confidence are. *)
Theorem C03_mask_flag0 : forall r, rb_flag r = 0%Z -> FitMask.band_used r = false.
Proof. exact FitMask.band_used_0. Qed.
Theorem C03_mask_flag9 : forall r, rb_flag r = 9%Z -> FitMask.band_used r = false.
Proof. exact FitMask.band_used_9. Qed.
Theorem C03_mask_conf0 : forall r, (rb_flag r = 2 \/ rb_flag r = 3)%Z -> rb_err r == 0 -> FitMask.band_used r = false.
Proof. exact FitMask.band_used_conf0. Qed.
Theorem C03_mask_fitted : forall r, (rb_flag r = 1 \/ rb_flag r = 4)%Z -> FitMask.band_used r = true.
Proof. exact FitMask.band_used_fitted. Qed.
Theorem C03_mask_limit : forall r, (rb_flag r = 2 \/ rb_flag r = 3)%Z -> ~ rb_err r == 0 -> FitMask.band_used r = true.
Proof. exact FitMask.band_used_limit. Qed.
Theorem C03_mask_blind : forall raws ext raws' ext', FitMask.same_use raws ext raws' ext' ->
  FitMask.any_ext (FitMask.valid_pos raws) ext = FitMask.any_ext (FitMask.valid_pos raws') ext'.
Proof. exact FitMask.any_ext_same_use. Qed.

Example C03_mask_example :
  FitMask.same_use [ {| rb_flag := 1; rb_flux := 1; rb_err := 1 |}; {| rb_flag := 9; rb_flux := 5; rb_err := 1 |}; {| rb_flag := 3; rb_flux := 2; rb_err := 0 |} ]
                   [false; true; true]
                   [ {| rb_flag := 4; rb_flux := 0; rb_err := 1 |}; {| rb_flag := 0; rb_flux := -999; rb_err := -1 |}; {| rb_flag := 0; rb_flux := 0; rb_err := 0 |} ]
                   [false; false; false]
  /\ FitMask.any_ext (FitMask.valid_pos [ {| rb_flag := 1; rb_flux := 1; rb_err := 1 |}; {| rb_flag := 9; rb_flux := 5; rb_err := 1 |} ]) [false; true] = false.
Proof. split; [|reflexivity]. apply FitMask.su_used; try reflexivity. apply FitMask.su_unused; try reflexivity. apply FitMask.su_unused; try reflexivity. constructor. Qed.

(* --- the first clause at the level of the fit OUTPUT (BlindFit): sources that differ only in what their flag-0 / flag-9 bands
   carry produce related rows, and related rows give the same A_V, scale / distance index, chi^2 and predicted fluxes - in the
   aperture-independent branch, in the aperture-dependent branch including the argmin over the distance grid, and with the
   remove_resolved step for any mask (xeq / == : equality of the rational values) *)
From SedV Require Import BlindFit Xnum FilterOut.
Theorem C03_rows_blind : forall lg ln10 raws raws', Forall2 raw_same_unused raws raws' -> forall alaw lms,
  Forall2 same_but_unused (mkrows (bands_of lg ln10 raws) alaw lms) (mkrows (bands_of lg ln10 raws') alaw lms).
Proof. exact mkrows_blind. Qed.

Theorem C03_fit2_blind : forall pen lo hi rows rows', Forall2 same_but_unused rows rows' -> Forall wf_row rows ->
  let r := fit2_one pen lo hi rows in let r' := fit2_one pen lo hi rows' in
  f_av r == f_av r' /\ f_sc r == f_sc r' /\ xeq (f_chi2 r) (f_chi2 r') /\ Forall2 Qeq (f_pred r) (f_pred r').
Proof. exact fit2_blind. Qed.

Theorem C03_fit3_blind : forall pen lo hi logds pd pd', blind_dist pd pd' ->
  let r := fit3_one pen lo hi logds pd in let r' := fit3_one pen lo hi logds pd' in
  g_best r = g_best r' /\ g_sc r = g_sc r' /\ g_av r == g_av r' /\ xeq (g_chi2 r) (g_chi2 r') /\ Forall2 Qeq (g_pred r) (g_pred r').
Proof. exact fit3_blind. Qed.

Theorem C03_fit3_masked_blind : forall pen lo hi logds pd pd' ms, blind_dist pd pd' ->
  let r := fit3_one_masked pen lo hi logds pd ms in let r' := fit3_one_masked pen lo hi logds pd' ms in
  g_best r = g_best r' /\ g_sc r = g_sc r' /\ g_av r == g_av r' /\ xeq (g_chi2 r) (g_chi2 r') /\ Forall2 Qeq (g_pred r) (g_pred r').
Proof. exact fit3_masked_blind. Qed.

Example C03_blind_example :
  raw_same_unused {| rb_flag := 9; rb_flux := 1; rb_err := 1 |} {| rb_flag := 9; rb_flux := -999; rb_err := 0 |} /\
  raw_same_unused {| rb_flag := 1; rb_flux := 2; rb_err := 1 |} {| rb_flag := 1; rb_flux := 2; rb_err := 1 |}.
Proof. exact blind_example. Qed.
