From Coq Require Import QArith Lqa Lia List Bool ZArith.
Import ListNotations.
Open Scope Q_scope.
From SedV Require Import Clamp.

(* ---- rows ---- *)
Record band := { b_flag : Z; b_lf : Q; b_le : Q; b_w : Q }.
Record row := { r_b : band; r_a : Q; r_s : Q; r_lm : Q }.
Definition resid (r : row) : Q := b_lf (r_b r) - r_lm r.
Definition w (r : row) : Q := b_w (r_b r).

Fixpoint qsum {A} (f : A -> Q) (l : list A) : Q :=
  match l with [] => 0 | x :: r => f x + qsum f r end.

(* code-shaped: fitting_routines.linear_regression on one model's rows *)
Definition c1 rows := qsum (fun r => resid r * r_a r * w r) rows.
Definition c2 rows := qsum (fun r => resid r * r_s r * w r) rows.
Definition m11 rows := qsum (fun r => r_a r * r_a r * w r) rows.
Definition m12 rows := qsum (fun r => r_a r * r_s r * w r) rows.
Definition m22 rows := qsum (fun r => r_s r * r_s r * w r) rows.
Definition c0 rows := qsum (fun r => resid r * resid r * w r) rows.
Definition det rows := m11 rows * m22 rows - m12 rows * m12 rows.
Definition linreg_m rows : Q * Q :=
  let inv_det := 1 / det rows in
  ((m22 rows * c1 rows - m12 rows * c2 rows) * inv_det,
   (m11 rows * c2 rows - m12 rows * c1 rows) * inv_det).
(* optimal_scaling(residual - av*av_law, weight, sc_law) *)
Definition optscale_sc_m (av : Q) rows : Q :=
  qsum (fun r => (resid r - av * r_a r) * r_s r * w r) rows / m22 rows.

(* Models.fit, ndim == 2, the (av, sc) part *)
Definition fit2_avsc (lo hi : Q) rows : Q * Q :=
  let '(av, sc) := linreg_m rows in
  if Qlt_le_dec av lo then (lo, optscale_sc_m lo rows)
  else if Qlt_le_dec hi av then (hi, optscale_sc_m hi rows)
  else (av, sc).

(* spec objective: weighted squared residual of the fitted points.  Weights of unused rows are 0. *)
Definition S rows (av sc : Q) : Q :=
  qsum (fun r => w r * ((resid r - av * r_a r - sc * r_s r) * (resid r - av * r_a r - sc * r_s r))) rows.

Lemma S_moments rows av sc :
  S rows av sc == S6 (c0 rows) (c1 rows) (c2 rows) (m11 rows) (m12 rows) (m22 rows) av sc.
Proof.
  unfold S, S6, c0, c1, c2, m11, m12, m22.
  induction rows as [|r rs IH]; simpl; [ring|]. rewrite IH. ring.
Qed.

Lemma optscale_num av rows :
  qsum (fun r => (resid r - av * r_a r) * r_s r * w r) rows == c2 rows - av * m12 rows.
Proof. unfold c2, m12. induction rows as [|r rs IH]; simpl; [ring|]. rewrite IH. ring. Qed.

Lemma optscale_is_sopt av rows :
  optscale_sc_m av rows == sopt (c2 rows) (m12 rows) (m22 rows) av.
Proof. unfold optscale_sc_m, sopt. rewrite optscale_num. reflexivity. Qed.

Theorem C01_optimal lo hi rows :
  0 < m22 rows -> 0 < det rows -> lo <= hi ->
  let '(av, sc) := fit2_avsc lo hi rows in
  lo <= av <= hi /\ forall av' sc', lo <= av' <= hi -> S rows av sc <= S rows av' sc'.
Proof.
  intros H22 Hd Hlh. unfold fit2_avsc, linreg_m.
  set (A := (m22 rows * c1 rows - m12 rows * c2 rows) * (1 / det rows)).
  set (B := (m11 rows * c2 rows - m12 rows * c1 rows) * (1 / det rows)).
  assert (HA : A == areg (c1 rows) (c2 rows) (m11 rows) (m12 rows) (m22 rows)).
  { unfold A, areg, det. field. unfold det in Hd. lra. }
  assert (HB : B == sreg (c1 rows) (c2 rows) (m11 rows) (m12 rows) (m22 rows)).
  { unfold B, sreg, det. field. unfold det in Hd. lra. }
  unfold det in Hd.
  assert (K : forall a' s', is_clamp lo hi A a' -> s' == sopt (c2 rows) (m12 rows) (m22 rows) a' ->
              lo <= a' <= hi /\ forall av' sc', lo <= av' <= hi -> S rows a' s' <= S rows av' sc').
  { intros a' s' Hc Hs'. split.
    - destruct Hc as [[? E]|[[? E]|[? E]]]; rewrite E; lra.
    - intros av' sc' Hr. rewrite !S_moments.
      eapply (clamp_optimal_rel (c0 rows) (c1 rows) (c2 rows) (m11 rows) (m12 rows) (m22 rows) lo hi av' sc' A a' s'); eauto. }
  destruct (Qlt_le_dec A lo) as [L|L].
  - apply K; [left; split; [exact L|reflexivity]|apply optscale_is_sopt].
  - destruct (Qlt_le_dec hi A) as [G|G].
    + apply K; [right; left; split; [exact G|reflexivity]|apply optscale_is_sopt].
    + apply K; [right; right; split; [lra|reflexivity]|].
      rewrite HB. rewrite sreg_is_sopt by assumption. unfold sopt. rewrite HA. reflexivity.
Qed.
(* characterisation of the code path's result, over Q *)
Lemma fit2_char lo hi rows : (0 < m22 rows) -> (0 < det rows) ->
  let '(av, sc) := fit2_avsc lo hi rows in
  is_clamp lo hi (areg (c1 rows) (c2 rows) (m11 rows) (m12 rows) (m22 rows)) av /\
  (sc == sopt (c2 rows) (m12 rows) (m22 rows) av).
Proof.
  intros H22 Hd. unfold fit2_avsc, linreg_m.
  set (A := ((m22 rows * c1 rows - m12 rows * c2 rows) * (1 / det rows))).
  set (B := ((m11 rows * c2 rows - m12 rows * c1 rows) * (1 / det rows))).
  assert (HA : (A == areg (c1 rows) (c2 rows) (m11 rows) (m12 rows) (m22 rows))).
  { unfold A, areg, det. field. unfold det in Hd. lra. }
  assert (HB : (B == sreg (c1 rows) (c2 rows) (m11 rows) (m12 rows) (m22 rows))).
  { unfold B, sreg, det. field. unfold det in Hd. lra. }
  unfold det in Hd. unfold is_clamp.
  destruct (Qlt_le_dec A lo) as [L|L].
  - split; [left; split; [lra|reflexivity]|apply optscale_is_sopt].
  - destruct (Qlt_le_dec hi A) as [G|G].
    + split; [right; left; split; [lra|reflexivity]|apply optscale_is_sopt].
    + split; [right; right; split; [lra|exact HA]|].
      rewrite HB. rewrite sreg_is_sopt by assumption. unfold sopt. rewrite HA. reflexivity.
Qed.

Print Assumptions C01_optimal.
