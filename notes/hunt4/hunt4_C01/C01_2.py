"""
C01 - Fitter refuses a legal, distance-independent cube (version 2) package
when the bands are given as wavelengths and the cube has no UNCERTAINTIES
extension.

The UNCERTAINTIES extension of flux.fits is optional: SEDCube(unc=None) is the
default, SEDCube.write() leaves the extension out and SEDCube.read() accepts
its absence.  The fit does not use the model uncertainties at all.  But
MonochromaticFluxes.from_sed_cube does

    conv.error = cube.unc[:, :, wavelength_index]

so Fitter([... wavelengths ...], ...) raises TypeError ('NoneType' object is
not subscriptable) and no A_V / scale / chi^2 is reported for any source or
model.  The same cube with an UNCERTAINTIES extension (any values) is fitted,
and gives the least-squares optimum.
"""
import os
import io
import sys
import tempfile
import contextlib

import numpy as np
from astropy import units as u
from astropy.table import Table

from sedfitter.sed import SEDCube
from sedfitter.extinction import Extinction
from sedfitter.fit import Fitter
from sedfitter.source import Source


def quiet(fn, *a, **k):
    with contextlib.redirect_stdout(io.StringIO()):
        return fn(*a, **k)


def make_package(with_unc):
    rng = np.random.default_rng(1)
    d = tempfile.mkdtemp()
    cube = SEDCube()
    cube.names = np.array(['m%03d' % i for i in range(4)])
    cube.distance = 1 * u.kpc
    cube.wav = np.logspace(-0.5, 2, 20) * u.micron
    cube.apertures = None
    cube.val = rng.uniform(1, 2, (4, 1, 20)) * u.mJy        # strictly positive
    if with_unc:
        cube.unc = cube.val * 0.01
    cube.write(d + '/flux.fits')
    with open(d + '/models.conf', 'w') as f:
        f.write("name = test\nlength_subdir = 0\naperture_dependent = no\n"
                "logd_step = 0.02\nversion = 2\n")
    t = Table()
    t['MODEL_NAME'] = np.array(cube.names, dtype='S30')
    t['par1'] = np.arange(4) * 1.
    t.write(d + '/parameters.fits')
    return d, cube


ext = Extinction()
ext.wav = np.logspace(-2, 3, 60) * u.micron
ext.chi = ext.wav.value ** -1.5 * u.cm ** 2 / u.g

s = Source()
s.name = 'src'
s.x = 0.
s.y = 0.
s.valid = [1, 1, 1]
s.flux = [1., 2., 3.]
s.error = [0.1, 0.2, 0.3]

outcome = {}
for with_unc in (True, False):
    d, cube = make_package(with_unc)
    filters = [cube.wav[i] for i in (4, 10, 16)]            # tabulated wavelengths
    try:
        fitter = quiet(Fitter, filters, [1., 1., 1.] * u.arcsec, d,
                       extinction_law=ext, av_range=(0., 10.))
        info = quiet(fitter.fit, s)
        outcome[with_unc] = "fitted: best A_V=%.4f scale=%.4f chi2=%.4f" % (info.av[0], info.sc[0], info.chi2[0])
    except Exception as e:
        outcome[with_unc] = "%s: %s" % (type(e).__name__, e)
    print("cube with UNCERTAINTIES" if with_unc else "cube without UNCERTAINTIES", "->", outcome[with_unc])

assert outcome[True].startswith("fitted"), "unexpected: the control package is not fitted: " + outcome[True]
assert outcome[False].startswith("fitted"), (
    "C01 violated (clause: for every source and every model the best-fit A_V, scale and chi^2 are reported): "
    "a distance-independent version-2 package whose flux.fits has no (optional) UNCERTAINTIES extension, "
    "bands given as tabulated wavelengths: Fitter raised " + outcome[False] +
    " ; the same cube with an UNCERTAINTIES extension gives " + outcome[True])
print("no violation")
