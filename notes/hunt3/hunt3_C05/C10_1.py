"""
C10, clause "every post-processing function accepts a file, one result object
or a list of result objects interchangeably ... so a sequence of
post-processing calls gives the same outputs whichever form is passed"
(and "the shared metadata ... extinction law ... unchanged").

A result returned by Fitter.fit() does not own its metadata: info.meta.extinction_law
IS the caller's Extinction instance (fit.py: info.meta.extinction_law =
self.extinction_law).  The record written to a file holds a snapshot of the law,
the in-memory result keeps an alias.  When the caller afterwards re-uses the
Extinction instance for another law (a legal use of its public `chi` setter,
e.g. to set up a second Fitter), the very same fit gives different SED plots
depending on whether it is handed to plot() as a file or as a result object,
and a file written from the in-memory result now carries a law that was never
used in the fit.  (Same call-history pattern as the already repaired "result
keeps its own copy of the Source".)
"""
import os, sys, io, tempfile, contextlib
import numpy as np
import matplotlib
matplotlib.use('Agg')
from astropy import units as u
from astropy.table import Table

from sedfitter import Fitter, plot
from sedfitter.sed import SED
from sedfitter.filter import Filter
from sedfitter.convolve import convolve_model_dir
from sedfitter.extinction import Extinction
from sedfitter.source import Source
from sedfitter.fit_info import FitInfoFile


@contextlib.contextmanager
def quiet():
    old = sys.stdout
    sys.stdout = io.StringIO()
    try:
        yield
    finally:
        sys.stdout = old


tmp = tempfile.mkdtemp()
md = os.path.join(tmp, 'models')
os.makedirs(os.path.join(md, 'seds'))
rng = np.random.RandomState(1)
names = ['model_%04d' % i for i in range(5)]
for name in names:
    sed = SED()
    sed.name = name
    sed.distance = 1 * u.kpc
    sed.wav = np.logspace(-2., 3., 60) * u.micron
    sed.nu = sed.wav.to(u.Hz, equivalencies=u.spectral())
    sed.apertures = None
    sed.flux = (1 + rng.random_sample((1, 60))) * u.mJy
    sed.error = sed.flux * 0.01
    sed.write(os.path.join(md, 'seds', name + '_sed.fits'))
with open(os.path.join(md, 'models.conf'), 'w') as f:
    f.write("name = test\nlength_subdir = 0\naperture_dependent = no\nlogd_step = 0.02\n")
t = Table()
t['MODEL_NAME'] = np.array(names, dtype='S30')
t['par1'] = rng.random_sample(5)
t.write(os.path.join(md, 'parameters.fits'))

filters = []
for name, lo, hi, c in [('alice', 1., 5., 3.), ('bob', 10., 15., 12.), ('eve', 15., 25., 20.)]:
    fl = Filter()
    fl.name = name
    fl.central_wavelength = c * u.micron
    fl.nu = (np.linspace(hi, lo, 50) * u.micron).to(u.Hz, equivalencies=u.spectral())
    fl.response = rng.random_sample(50) + 0.1
    fl.normalize()
    filters.append(fl)
with quiet():
    convolve_model_dir(md, filters=filters)

law = Extinction()
law.wav = np.logspace(-2., 3.) * u.micron
law.chi = law.wav.value ** -2 * u.cm ** 2 / u.g

with quiet():
    fitter = Fitter(['bob', 'alice', 'eve'], [1., 3., 3.] * u.arcsec, md,
                    extinction_law=law, av_range=[0., 10.])

# a reddened source, so that the best fit has A_V > 0
result = fitter.fit(Source.from_ascii("s1 0.0 0.0 1 1 1 2.0 0.1 1.3 0.1 1.0 0.1"))
assert result.av[0] > 1., "set-up: best fit should be reddened"

out = os.path.join(tmp, 'out.fitinfo')
fout = FitInfoFile(out, 'w')
fout.write(result)
fout.close()


def sed_line(x):
    with quiet():
        figs = plot(x, select_format=('N', 1))
    return np.array(figs['s1']['lines'].get_segments()[0])


def same(a, b):
    return a.shape == b.shape and bool(np.all((a == b) | (np.isnan(a) & np.isnan(b))))


from_file_0, from_object_0 = sed_line(out), sed_line(result)
assert same(from_file_0, from_object_0), "set-up: file and object agree right after the fit"

# The caller now re-uses the Extinction instance for a different law
law.chi = law.wav.value ** -1. * u.cm ** 2 / u.g

from_file_1, from_object_1, from_list_1 = sed_line(out), sed_line(result), sed_line([result])

assert same(from_file_0, from_file_1), "file form changed (unexpected)"

ok = (from_file_1[:, 0] >= 1.) & np.isfinite(from_object_1[:, 1]) & np.isfinite(from_file_1[:, 1]) & (from_file_1[:, 1] > 0) & (from_object_1[:, 1] > 0)
rel = np.max(np.abs(from_object_1[ok, 1] / from_file_1[ok, 1] - 1.)) if ok.any() else 0.

# file written now from the same, untouched result object
out2 = os.path.join(tmp, 'out2.fitinfo')
fout = FitInfoFile(out2, 'w')
fout.write(result)
fout.close()
meta1 = FitInfoFile(out, 'r').meta
meta2 = FitInfoFile(out2, 'r').meta
law_same = meta1.extinction_law == meta2.extinction_law

assert same(from_object_1, from_file_1) and same(from_list_1, from_file_1) and law_same, (
    "C10 violated (file / result object / list not interchangeable; metadata not owned by the result): "
    "the same fit, written to a file and also kept as the FitInfo returned by Fitter.fit(), gives "
    "different SEDs in plot(..., select_format=('N', 1)) once the caller has re-used the Extinction "
    "instance that was passed to Fitter (law.chi = ...): plot(file) is unchanged, but plot(result) and "
    "plot([result]) now differ from it by up to a factor %.3g in lambda*F_lambda (at wavelengths >= 1 micron), because "
    "result.meta.extinction_law is the caller's object (is-identical: %s) and not a copy. "
    "A second file written from the same untouched result carries an extinction law %s the first one."
    % (1. + rel, result.meta.extinction_law is law, "equal to" if law_same else "DIFFERENT from"))
print("no violation")
