"""
C16, clause: "the monochromatic 'convolution' writes exactly one file per SED
wavelength ... whose rows hold each model's SED flux ... in parameter-table
order" for ALL per-file packages with 2..9 wavelengths, 1..3 apertures,
1..5 models.

(Lower-confidence finding: it depends on whether model names longer than 30
characters are considered legal.  Nothing in SED.write / parameters.fits /
models.conf forbids them.)

convolve_model_dir_monochromatic collects the model names into a fixed-width
'U30' array, silently truncating longer names; sort_to_match against the
parameter table then fails and the whole call aborts with
Exception('Sorting failed') - no file is written.  With names of exactly 30
characters the same package works (control).
"""
import glob
import os
import shutil
import sys

sys.path.insert(0, os.path.dirname(os.path.abspath(__file__)))
from _common import build_per_file_package, u

from sedfitter.convolve import convolve_model_dir_monochromatic

errors = []
for length in (30, 34):
    stem = 'grid_v2_teff05000_logg4.5_incl_' + 'x' * 10
    names = [stem[:length - 1] + c for c in 'ab']
    assert all(len(n) == length for n in names)
    d, seds, pn = build_per_file_package([1., 2., 4.], n_ap=1, names=names,
                                         par_order=[1, 0], name_width=40)
    try:
        convolve_model_dir_monochromatic(d)
        files = sorted(os.path.basename(f) for f in glob.glob(os.path.join(d, 'convolved', '*')))
        if files != ['MO001.fits', 'MO002.fits', 'MO003.fits']:
            errors.append("names of %d chars: files %s" % (length, files))
    except Exception as exc:
        errors.append("names of %d chars: raised %r" % (length, exc))
    shutil.rmtree(d)

assert not any('30 chars' in e for e in errors), errors   # control must pass

assert not errors, (
    "C16 violated: a per-file package (3 wavelengths, 1 aperture, 2 models) whose "
    "model names are longer than 30 characters produces no monochromatic files:\n  "
    + "\n  ".join(errors))
print("C16_3: no violation")
