(* convolve_model_dir_monochromatic: which SED wavelength indices get a file, for any chunk size and window; and the
   nearest-wavelength choice of Models.read for cube packages. *)
From Coq Require Import ZArith QArith Lia List Bool.
Import ListNotations.
From SedV Require Import Xnum FilterOut FitModel Fit3Proofs Mono Window.
Close Scope Q_scope.
Open Scope Z_scope.

(* indices (0-based, into the decreasing wavelength array) for which MO<j+1>.fits is written; repaired loop *)
Definition mono_m (wavs : list Q) (wmin wmax : Q) (chunk : Z) : Z * Z * list Z :=
  let lo := jlo wavs wmax in let hi := jhi wavs wmin in
  let c := Z.min chunk (hi - lo + 1) in
  (lo, hi, emit_fixed lo hi c).
(* the loop as it stood before the repair *)
Definition mono_current_m (wavs : list Q) (wmin wmax : Q) (chunk : Z) : Z * Z * list Z :=
  let lo := jlo wavs wmax in let hi := jhi wavs wmin in
  let c := Z.min chunk (hi - lo + 1) in
  (lo, hi, emit_current lo hi c).

Theorem mono_emits_window wavs wmin wmax chunk :
  let '(lo, hi, out) := mono_m wavs wmin wmax chunk in
  1 <= chunk -> lo <= hi -> out = zseq lo (Z.to_nat (hi - lo + 1)).
Proof. unfold mono_m. intros Hc Hle. apply emitted_all; lia. Qed.

Theorem mono_chunk_independent wavs wmin wmax c c' :
  1 <= c -> 1 <= c' -> jlo wavs wmax <= jhi wavs wmin ->
  mono_m wavs wmin wmax c = mono_m wavs wmin wmax c'.
Proof. intros Hc Hc' Hle. unfold mono_m. f_equal. rewrite !emitted_all by lia. reflexivity. Qed.

(* np.argmin(np.abs(cube.wav - w0)) *)
Definition Qabsd (a b : Q) : Q := if Qle_bool b a then (a - b)%Q else (b - a)%Q.
Definition nearest_m (wavs : list Q) (w0 : Q) : nat := argmin_x (map (fun w => Fin (Qabsd w w0)) wavs).

Theorem nearest_spec wavs w0 : wavs <> [] ->
  (nearest_m wavs w0 < length wavs)%nat /\
  forall w, In w wavs -> xlt (Fin (Qabsd w w0)) (Fin (Qabsd (nth (nearest_m wavs w0) wavs 0%Q) w0)) = false.
Proof.
  intros Hne. unfold nearest_m.
  assert (Hm : map (fun w => Fin (Qabsd w w0)) wavs <> []) by (destruct wavs; [congruence|discriminate]).
  destruct (argmin_x_spec _ NaN Hm) as [Hb Hmin]. rewrite map_length in Hb. split; [exact Hb|].
  intros w Hw.
  assert (E : nth (argmin_x (map (fun w1 => Fin (Qabsd w1 w0)) wavs)) (map (fun w1 => Fin (Qabsd w1 w0)) wavs) NaN =
              Fin (Qabsd (nth (argmin_x (map (fun w1 => Fin (Qabsd w1 w0)) wavs)) wavs 0%Q) w0)).
  { rewrite (nth_indep _ NaN (Fin (Qabsd 0%Q w0))) by (rewrite map_length; exact Hb).
    exact (map_nth (fun w1 => Fin (Qabsd w1 w0)) wavs 0%Q _). }
  rewrite <- E. apply Hmin. apply in_map_iff. exists w. split; [reflexivity|exact Hw].
Qed.
