import numpy as np
from astropy import units as u
from sedfitter.filter import Filter

def exact_integral(x, y, a, b):
    # x ascending; integrate piecewise-linear y over [a,b] within [x0,xn]
    if b <= a: return 0.
    pts = np.unique(np.concatenate([[a, b], x[(x > a) & (x < b)]]))
    vals = np.interp(pts, x, y)
    return np.sum(0.5 * (pts[1:] - pts[:-1]) * (vals[1:] + vals[:-1]))

def ref_rebin(fnu, fr, snu):
    if fnu[0] > fnu[-1]:
        fnu = fnu[::-1]; fr = fr[::-1]
    rev = snu[0] > snu[-1]
    s = snu[::-1] if rev else snu
    n = len(s)
    R = np.zeros(n)
    for i in range(n):
        lo = s[0] if i == 0 else 0.5 * (s[i-1] + s[i])
        hi = s[-1] if i == n-1 else 0.5 * (s[i] + s[i+1])
        lo = min(max(lo, fnu[0]), fnu[-1]); hi = min(max(hi, fnu[0]), fnu[-1])
        R[i] = exact_integral(fnu, fr, lo, hi)
    return R[::-1] if rev else R

rng = np.random.default_rng(1)
worst = 0
for trial in range(4000):
    nf = rng.integers(2, 61); ns = rng.integers(2, 81)
    mode = rng.integers(0, 4)
    if mode == 0:
        fnu = np.sort(rng.uniform(1e13, 2e13, nf)); snu = np.sort(rng.uniform(0.5e13, 2.5e13, ns))
    elif mode == 1:
        # integer grid to provoke coincidences
        fnu = np.sort(rng.choice(np.arange(10, 200), nf, replace=False)).astype(float) * 1e11
        snu = np.sort(rng.choice(np.arange(0, 220), ns, replace=False)).astype(float) * 1e11 + 1e11
    elif mode == 2:
        fnu = np.sort(rng.choice(np.arange(10, 200, 2), nf, replace=False)).astype(float) * 1e11
        snu = np.sort(rng.choice(np.arange(50, 150), min(ns, 90), replace=False)).astype(float) * 1e11
    else:
        fnu = np.sort(rng.uniform(1e13, 2e13, nf)); snu = np.sort(rng.uniform(1.4e13, 1.6e13, ns))
    if len(np.unique(fnu)) < nf or len(np.unique(snu)) < len(snu): continue
    fr = rng.uniform(0, 1, nf)
    if rng.random() < .5: fr[0] = 0
    if rng.random() < .5: fr[-1] = 0
    if rng.random() < .3: fr[rng.integers(0, nf)] = 0
    if rng.random() < .5: fnu = fnu[::-1]; fr = fr[::-1]
    if rng.random() < .5: snu = snu[::-1]
    f = Filter(name='x', central_wavelength=1*u.micron, nu=fnu*u.Hz, response=fr.copy())
    try:
        b = f.rebin(snu * u.Hz)
    except Exception as e:
        print('CRASH', trial, mode, repr(e), fnu, snu); raise
    R = ref_rebin(fnu, fr, snu)
    scale = max(np.abs(R).max(), 1)
    err = np.abs(b.response - R).max() / scale
    worst = max(worst, err)
    if err > 1e-10:
        print('MISMATCH', trial, mode, err, fnu, fr, snu, b.response, R); break
print('worst', worst)
