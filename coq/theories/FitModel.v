(* Executable top level of the fit model: Extinction.get_av, Models.fit (both branches), the per-filter part of
   Models.read for aperture-dependent packages, FitInfo.sort.  Definitions only; proofs in FitModelProofs.v. *)
From Coq Require Import QArith Lqa Lia List Bool ZArith.
Import ListNotations.
Open Scope Q_scope.
From SedV Require Import Clamp FitCore Flags Fit3 PLin Xnum Argsort FilterOut.

(* ---- extinction law: -0.4 * interp(chi, lambda; 0 outside) / interp(chi, V) ---- *)
Definition tab_lo (l : list pt) : Q := fst (hd (0, 0) l).
Definition tab_hi (l : list pt) : Q := fst (last l (0, 0)).
Definition interp0 (tab : list pt) (t : Q) : Q :=
  if Qlt_le_dec t (tab_lo tab) then 0 else if Qlt_le_dec (tab_hi tab) t then 0 else fval tab t.
Definition get_av_m (tab : list pt) (v t : Q) : Q := -(4#10) * interp0 tab t / fval tab v.

(* ---- ConvolvedFluxes.interpolate for one model and one requested radius ---- *)
Definition interp_clamp_m (tab : list pt) (r : Q) : option Q :=     (* None = "Aperture(s) requested too small" *)
  match tab with
  | [] => None
  | [p] => Some (snd p)                                              (* single aperture: repeated *)
  | _ => if Qlt_le_dec r (tab_lo tab) then None
         else if Qlt_le_dec (tab_hi tab) r then Some (snd (last tab (0, 0)))
         else Some (fval tab r)
  end.

(* ---- FitInfo.sort: numpy order on chi2 (NaN last), stable ---- *)
Definition xleb (a b : xnum) : bool :=
  match a, b with
  | _, NaN => true | NaN, _ => false
  | NInf, _ => true | _, PInf => true
  | _, NInf => false | PInf, _ => false
  | Fin x, Fin y => Qle_bool x y
  end.
Definition rank_m (chi : list xnum) : list nat := argsort xnum xleb NaN chi.

Fixpoint argmin_from (best : nat) (bv : xnum) (i : nat) (l : list xnum) : nat :=
  match l with [] => best | x :: r => if xlt x bv then argmin_from i x (Datatypes.S i) r else argmin_from best bv (Datatypes.S i) r end.
Definition argmin_x (l : list xnum) : nat := match l with [] => 0%nat | x :: r => argmin_from 0 x 1 r end.

(* Source.n_data: only flags 1 and 4 count *)
Definition n_data_m (raws : list rawband) : nat :=
  length (filter (fun r => (rb_flag r =? 1)%Z || (rb_flag r =? 4)%Z) raws).

Section FitModel.
Variable lg : Q -> Q.
Variable ln10 : Q.
Variable pen : Q -> option Q.

Definition mkrow (b : band) (a lm : Q) : row := {| r_b := b; r_a := a; r_s := -2; r_lm := lm |}.
Fixpoint mkrows (bands : list band) (alaw lms : list Q) : list row :=
  match bands, alaw, lms with
  | b :: bs, a :: al, m :: ms => mkrow b a m :: mkrows bs al ms
  | _, _, _ => []
  end.

Record fitres := { f_av : Q; f_sc : Q; f_chi2 : xnum; f_pred : list Q }.

(* Models.fit, ndim == 2, one model *)
Definition fit2_one (lo hi : Q) (rows : list row) : fitres :=
  let '(av, sc) := fit2_avsc lo hi rows in
  {| f_av := av; f_sc := sc; f_chi2 := Fin (chi2_m pen rows av sc);
     f_pred := map (fun r => av * r_a r + sc * r_s r + r_lm r) rows |}.

Definition bands_of (raws : list rawband) : list band := map (get_log_fluxes_m lg ln10) raws.

(* the whole grid; model fluxes given in mJy, strictly positive *)
Definition fit2_all (lo hi : Q) (raws : list rawband) (alaw : list Q) (models : list (list Q)) : list fitres :=
  map (fun fl => fit2_one lo hi (mkrows (bands_of raws) alaw (map lg fl))) models.

(* Fitter: av_law from the extinction table at the filter wavelengths, then the grid *)
Definition fit2_pkg (tab : list pt) (v : Q) (wavs : list Q) (lo hi : Q) (raws : list rawband) (models : list (list Q)) : list fitres :=
  fit2_all lo hi raws (map (get_av_m tab v) wavs) models.

(* determinant of the 2x2 regression (independent of the model fluxes); 0 = singular, outside C01's quantifier *)
Definition fit2_det (raws : list rawband) (alaw : list Q) : Q :=
  det (mkrows (bands_of raws) alaw (map (fun _ => 0) alaw)).
Definition fit3_m11 (raws : list rawband) (alaw : list Q) : Q :=
  m11 (mkrows (bands_of raws) alaw (map (fun _ => 0) alaw)).

(* Models.fit, ndim == 3, one model: per trial distance the rows carry lg of the scaled flux *)
Definition chi_at (lo hi : Q) (rows : list row) : Q * xnum :=
  let av := av_at_distance lo hi rows in (av, Fin (chi2_m pen rows av 0)).

Record fitres3 := { g_av : Q; g_sc : Q; g_chi2 : xnum; g_pred : list Q; g_best : nat; g_grid : list xnum; g_avs : list Q }.

Definition fit3_one (lo hi : Q) (logds : list Q) (per_dist : list (list row)) : fitres3 :=
  let res := map (chi_at lo hi) per_dist in
  let best := argmin_x (map snd res) in
  let av := fst (nth best res (0, NaN)) in
  {| g_av := av; g_sc := nth best logds 0; g_chi2 := snd (nth best res (0, NaN));
     g_pred := map (fun r => av * r_a r + r_lm r) (nth best per_dist []);
     g_best := best; g_grid := map snd res; g_avs := map fst res |}.

(* Models.read, aperture-dependent: flux of one model in one band at one distance (kpc):
   interpolate to theta[arcsec] * d[pc] AU, scale by (1 kpc / d)^2 *)
Definition scaled_flux_m (tab : list pt) (theta d : Q) : option Q :=
  match interp_clamp_m tab (theta * (d * 1000)) with
  | Some f => Some (f * ((1 / d) * (1 / d)))
  | None => None
  end.

Fixpoint all_some {A} (l : list (option A)) : option (list A) :=
  match l with
  | [] => Some []
  | Some x :: r => match all_some r with Some xs => Some (x :: xs) | None => None end
  | None :: _ => None
  end.

Fixpoint scaled_band_list (tabs : list (list pt)) (thetas : list Q) (d : Q) : list (option Q) :=
  match tabs, thetas with
  | t :: ts, th :: ths => scaled_flux_m t th d :: scaled_band_list ts ths d
  | _, _ => []
  end.

(* one model: tabs = its aperture table in every band *)
Definition fit3_model (lo hi : Q) (raws : list rawband) (alaw thetas ds logds : list Q) (tabs : list (list pt)) : option fitres3 :=
  match all_some (map (fun d => all_some (scaled_band_list tabs thetas d)) ds) with
  | Some fl => Some (fit3_one lo hi logds (map (fun f => mkrows (bands_of raws) alaw (map lg f)) fl))
  | None => None
  end.

Definition fit3_pkg (tab : list pt) (v : Q) (wavs : list Q) (lo hi : Q) (raws : list rawband) (thetas ds logds : list Q)
  (models : list (list (list pt))) : option (list fitres3) :=
  all_some (map (fit3_model lo hi raws (map (get_av_m tab v) wavs) thetas ds logds) models).

Definition fit3_all (lo hi : Q) (raws : list rawband) (alaw thetas ds logds : list Q) (models : list (list (list pt))) : option (list fitres3) :=
  all_some (map (fit3_model lo hi raws alaw thetas ds logds) models).
End FitModel.
