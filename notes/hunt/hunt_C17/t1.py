import sys; sys.path.insert(0, 'hunt_out')
from harness import *

def run(sed_type='interp', nsel=3, n_ap=10, distance=1*u.kpc, flux_unit=u.mJy, wav_unit=u.micron, ap_unit=u.au,
        wav_order='inc', wav_idx=(5, 12, 20, 30), aps=(3., 5., 3., 8.), drange=(0.5, 3.)*u.kpc, memmap=True, as_file=False, verbose=True, **kw):
    d = tempfile.mkdtemp()
    cube = make_pkg(d, n_ap=n_ap, distance=distance, flux_unit=flux_unit, wav_unit=wav_unit, ap_unit=ap_unit, wav_order=wav_order, **kw)
    wavs = [cube.wav[i] for i in wav_idx]
    ext = make_ext()
    fitter = quiet(Fitter, wavs, np.array(aps) * u.arcsec, d, extinction_law=ext, av_range=(0., 10.), distance_range=drange, use_memmap=memmap)
    src = make_source(len(wavs))
    info = fitter.fit(src)
    inp = info
    if as_file:
        from sedfitter.fit_info import FitInfoFile
        fn = os.path.join(d, 'out.fitinfo')
        fo = FitInfoFile(fn, 'w'); fo.write(info); fo.close()
        inp = fn
    figs = plot(inp, select_format=('N', nsel), sed_type=sed_type, memmap=memmap)
    segs = figs['src']['lines'].get_segments()
    wav = np.array([w.to(u.micron).value for w in wavs])
    ap = np.array(aps)
    if sed_type == 'interp' or not n_ap:
        shown = [None]
    elif sed_type == 'largest':
        shown = [ap.max()]
    elif sed_type == 'largest+smallest':
        shown = [ap.min(), ap.max()]
    else:
        shown = list(np.unique(ap))
    nshown = len(shown)
    if sed_type != 'interp' and not n_ap:
        nshown = {'largest':1, 'largest+smallest':2, 'all': len(np.unique(ap))}[sed_type]
        shown = [None]*nshown
    assert len(segs) == nsel * nshown, (len(segs), nsel, nshown)
    worst = 0
    for k in range(nsel):
        i = nsel - 1 - k  # fit index, best last
        for j in range(nshown):
            seg = segs[k * nshown + j]
            for f in range(len(wav)):
                if shown[j] is not None and ap[f] != shown[j]:
                    continue
                idx = np.argmin(np.abs(np.log(seg[:, 0]) - np.log(wav[f])))
                assert abs(seg[idx, 0] / wav[f] - 1) < 1e-6, ('wavelength not on curve', seg[idx, 0], wav[f])
                pred = 10. ** (info.model_fluxes[i, f] - 26. + np.log10(2.99792458e8 / (wav[f] * 1e-6)))
                r = seg[idx, 1] / pred
                worst = max(worst, abs(r - 1))
                if abs(r - 1) > 2e-3 and verbose:
                    print('MISMATCH fit', i, 'curve', j, 'filter', f, 'ratio', r)
    print('worst', worst)
    return worst

if __name__ == '__main__':
    for st in ['interp', 'largest', 'largest+smallest', 'all']:
        for nap in [10, 0]:
            print(st, nap, run(sed_type=st, n_ap=nap))
