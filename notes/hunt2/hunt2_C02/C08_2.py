"""
C08 (clause: "... building the convolved fluxes, fitting, and writing the
parameter table ranks m first ...", quantifier "both fitting modes": a
distance-INDEPENDENT package has no distance, the planted quantity is a scale).

Input: a distance-independent package (aperture_dependent = no), either
format, photometry synthesised from model_002 at A_V = 3 and scale 0.2, fitted
with the documented call
    fit(data, filters, apertures, model_dir, output, extinction_law=..., av_range=...)
i.e. with distance_range left at its default (None) - a distance range has no
meaning for such a package and is never used by the fit.

Observed: Fitter.__init__ validates distance_range unconditionally and raises
TypeError("distance_range should be given as a Quantity object"); nothing is
fitted.  (With any dummy distance_range the very same call recovers the planted
model, and the value of the range has no influence on the result - shown below.)
"""
import os
import io
import shutil
import tempfile
import contextlib

import numpy as np
from astropy import units as u
from astropy.table import Table

from sedfitter.sed import SED, SEDCube
from sedfitter.filter import Filter
from sedfitter.extinction import Extinction
from sedfitter.convolve import convolve_model_dir
from sedfitter.convolved_fluxes import ConvolvedFluxes
from sedfitter import fit, write_parameters


def quiet(fn, *a, **k):
    with contextlib.redirect_stdout(io.StringIO()), contextlib.redirect_stderr(io.StringIO()):
        return fn(*a, **k)


def make_filters():
    out = []
    for name, lo, hi, cen in [('fa', 1., 2., 1.5), ('fb', 3., 5., 4.), ('fc', 7., 10., 8.), ('fd', 18., 30., 24.)]:
        f = Filter()
        f.name = name
        f.central_wavelength = cen * u.micron
        w = np.linspace(hi, lo, 30) * u.micron
        f.nu = w.to(u.Hz, equivalencies=u.spectral())
        f.response = 1. + np.sin(np.linspace(0., 3., 30)) ** 2
        f.normalize()
        out.append(f)
    return out


ext = Extinction()
ext.wav = np.logspace(-2, 3, 60) * u.micron
ext.chi = ext.wav.value ** -1.3 * u.cm ** 2 / u.g

wav = np.logspace(-1, 2.5, 80)
rng = np.random.default_rng(11)
names = ['model_%03d' % i for i in range(5)]
lw = np.log10(wav)
seds = [10. ** (rng.uniform(0, 1) + rng.uniform(-1, 1) * lw + rng.uniform(-0.5, 0.5) * lw ** 2) for _ in names]


def build(version):
    d = tempfile.mkdtemp()
    if version == 1:
        os.mkdir(os.path.join(d, 'seds'))
        for name, b in zip(names, seds):
            s = SED()
            s.name = name
            s.distance = 1 * u.kpc
            s.wav = wav * u.micron
            s.nu = s.wav.to(u.Hz, equivalencies=u.spectral())
            s.apertures = None
            s.flux = b[None, :] * u.mJy
            s.error = s.flux * 0.01
            s.write(os.path.join(d, 'seds', name + '_sed.fits'))
    else:
        c = SEDCube()
        c.names = np.array(names)
        c.distance = 1 * u.kpc
        c.wav = wav * u.micron
        c.apertures = None
        c.val = np.array(seds)[:, None, :] * u.mJy
        c.unc = c.val * 0.01
        c.write(os.path.join(d, 'flux.fits'))
    with open(os.path.join(d, 'models.conf'), 'w') as f:
        f.write("name = test\nlength_subdir = 0\naperture_dependent = no\nlogd_step = 0.02\n")
        if version == 2:
            f.write("version = 2\n")
    t = Table()
    t['MODEL_NAME'] = np.array(names, dtype='S30')
    t['par1'] = 100. + np.arange(len(names))
    t.write(os.path.join(d, 'parameters.fits'))
    quiet(convolve_model_dir, d, make_filters())
    return d


fnames = ['fa', 'fb', 'fc', 'fd']
failures = []
for version in (1, 2):
    d = build(version)
    av0, sc0 = 3., 0.2
    fl, wv = [], []
    for fn in fnames:
        c = ConvolvedFluxes.read(os.path.join(d, 'convolved', fn + '.fits'))
        idx = [x.strip() for x in c.model_names].index('model_002')
        fl.append(c.flux[idx, 0].to(u.mJy).value)
        wv.append(c.central_wavelength.to(u.micron).value)
    k = ext.get_av(np.array(wv) * u.micron)
    flux = np.array(fl) * 10. ** (av0 * k - 2. * sc0)
    out = tempfile.mkdtemp()
    with open(os.path.join(out, 'data'), 'w') as fh:
        fh.write("src 0. 0. 1 1 1 1 " + " ".join("%.12e %.12e" % (x, 0.001 * x) for x in flux) + "\n")

    def pipeline(tag, **kw):
        quiet(fit, os.path.join(out, 'data'), fnames, [3., 3., 3., 3.] * u.arcsec, d,
              os.path.join(out, 'fits_%s.fitinfo' % tag), extinction_law=ext, av_range=[0., 20.],
              output_format=('A',), **kw)
        quiet(write_parameters, os.path.join(out, 'fits_%s.fitinfo' % tag), os.path.join(out, 'pars_%s.txt' % tag))
        return open(os.path.join(out, 'pars_%s.txt' % tag)).read().splitlines()[4].split()

    # control: any dummy range gives the planted model, independently of the range
    r1 = pipeline('a', distance_range=[1., 2.] * u.kpc)
    r2 = pipeline('b', distance_range=[37., 1.e4] * u.pc)
    assert r1 == r2 and r1[1] == 'model_002' and float(r1[2]) < 1e-3 and abs(float(r1[3]) - av0) < 2e-3 \
        and abs(float(r1[4]) - sc0) < 2e-3 and abs(float(r1[5]) - 102.) < 1e-6, (r1, r2)

    try:
        r = pipeline('c')
        print("version", version, "->", r)
    except Exception as e:
        print("version %d: %s: %s" % (version, type(e).__name__, e))
        failures.append("version %d package: %s: %s" % (version, type(e).__name__, e))
    shutil.rmtree(out)
    shutil.rmtree(d)

assert not failures, ("C08: a distance-independent package cannot be fitted without a (meaningless) distance_range - "
                      "fit(..., extinction_law=law, av_range=...) refuses instead of recovering the planted model: "
                      + " | ".join(failures))
