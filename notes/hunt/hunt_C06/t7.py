import numpy as np, os, tempfile, sys
from astropy import units as u
from astropy.io import fits
from astropy.table import Table
from sedfitter.sed import SED
wav = np.logspace(-1, 3, 10) * u.micron
nu = wav.to(u.Hz, equivalencies=u.spectral())
d = tempfile.mkdtemp()
s = SED(); s.name='a'; s.distance=1*u.kpc; s.wav=wav; s.nu=nu; s.apertures=np.array([1.,2.])*u.au
s.flux = np.ones((2,10))*u.mJy; s.error = 0.1*np.ones((2,10))*u.mJy
s.write(d+'/a.fits')
h = fits.open(d+'/a.fits')
t = Table()
t['STELLAR_FLUX'] = np.ones((2,10)) * 1e-12
t['TOTAL_FLUX'] = h[3].data['TOTAL_FLUX']
t['TOTAL_FLUX_ERR'] = h[3].data['TOTAL_FLUX_ERR']
h3 = fits.BinTableHDU(np.array(t)); h3.columns[0].unit='ergs/cm^2/s'; h3.columns[1].unit='mJy'; h3.columns[2].unit='mJy'; h3.header['EXTNAME']='SEDS'
fits.HDUList([h[0], h[1], h[2], h3]).writeto(d+'/b.fits')
a = SED.read(d+'/a.fits', unit_flux=u.mJy); b = SED.read(d+'/b.fits', unit_flux=u.mJy)
print(a.flux[0,:3], a.error[0,:3]); print(b.flux[0,:3], b.error[0,:3])
